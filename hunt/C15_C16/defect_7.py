"""C15 (borderline, improper prior): NICKernelRegressor(kappa_0=0, nu_0=0) with
TWO or more labeled samples ('... or at least two labeled samples are available')
returns inf / NaN standard deviations and even inf / NaN means."""
import os, sys, warnings
os.environ.setdefault("OMP_NUM_THREADS", "1"); os.environ.setdefault("OPENBLAS_NUM_THREADS", "1")
sys.path.insert(0, os.getcwd())
import numpy as np
warnings.simplefilter("ignore")
from skactiveml.regressor import NICKernelRegressor

X = np.array([[0.0], [1.0], [2.0], [3.0]])
Xq = np.array([[0.5], [1.5], [6.0]])
bad = False
for name, y in [("two distinct labels", np.array([1.0, 3.0, np.nan, np.nan])),
                ("three identical labels", np.array([2.0, 2.0, 2.0, np.nan]))]:
    reg = NICKernelRegressor(kappa_0=0, nu_0=0).fit(X, y)
    mu, std = reg.predict(Xq, return_std=True)
    print(f"{name}: mean={mu} std={std}")
    if not (np.all(np.isfinite(mu)) and np.all(np.isfinite(std)) and np.all(std >= 0)):
        bad = True
print("demanded: finite, non-negative std (and a finite mean) as soon as two labeled samples are available")
print("DEFECT PRESENT" if bad else "ok")
sys.exit(1 if bad else 0)
