"""C15: NICKernelRegressor.fit raises ValueError for a training set WITHOUT any
labeled sample as soon as sample_weight is passed (sum of an empty weight vector
is 0), although the same training set without sample_weight is accepted and the
prior is predicted."""
import os, sys, warnings
os.environ.setdefault("OMP_NUM_THREADS", "1"); os.environ.setdefault("OPENBLAS_NUM_THREADS", "1")
sys.path.insert(0, os.getcwd())
import numpy as np
warnings.simplefilter("ignore")
from skactiveml.regressor import NICKernelRegressor

X = np.array([[0.0], [1.0], [2.0]])
y = np.full(3, np.nan)
print("without sample_weight:", NICKernelRegressor().fit(X, y).predict(X, return_std=True))
bad = False
try:
    out = NICKernelRegressor().fit(X, y, sample_weight=np.ones(3)).predict(X, return_std=True)
    print("with sample_weight   :", out)
except Exception as e:
    print("with sample_weight   : fit raised", type(e).__name__, ":", e)
    bad = True
print("demanded: prior prediction (mean mu_0=0, finite std) for zero labeled samples")
print("DEFECT PRESENT" if bad else "ok")
sys.exit(1 if bad else 0)
