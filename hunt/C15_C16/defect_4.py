"""C16: a NaN sentinel that is not a Python-float subclass (np.float32('nan'),
np.float16('nan'), np.longdouble('nan')) is accepted by check_missing_label but
never matches: is_unlabeled is all False, is_labeled all True, and
ExtLabelEncoder turns NaN into a class instead of -1."""
import os, sys, warnings
os.environ.setdefault("OMP_NUM_THREADS", "1"); os.environ.setdefault("OPENBLAS_NUM_THREADS", "1")
sys.path.insert(0, os.getcwd())
import numpy as np
warnings.simplefilter("ignore")
from skactiveml.utils import is_unlabeled, is_labeled, unlabeled_indices, labeled_indices, ExtLabelEncoder

y = np.array([1.0, np.nan, 0.0, np.nan])
expected = np.array([False, True, False, True])
bad = False
for ml in (np.nan, np.float64("nan"), np.float32("nan"), np.float16("nan"), np.longdouble("nan")):
    u = is_unlabeled(y, ml)
    enc = ExtLabelEncoder(missing_label=ml).fit(y)
    t = enc.transform(y)
    print(f"{type(ml).__name__:>10}: is_unlabeled={u.tolist()} unlabeled_indices={unlabeled_indices(y, ml).tolist()} "
          f"transform={t.tolist()} classes_={enc.classes_.tolist()}")
    if not (np.array_equal(u, expected) and np.array_equal(is_labeled(y, ml), ~expected)
            and np.array_equal(unlabeled_indices(y, ml), [1, 3]) and np.array_equal(labeled_indices(y, ml), [0, 2])
            and np.array_equal(t, [1, -1, 0, -1])):
        bad = True
print("demanded: is_unlabeled=[False, True, False, True], transform=[1, -1, 0, -1] for every NaN sentinel")
print("DEFECT PRESENT" if bad else "ok")
sys.exit(1 if bad else 0)
