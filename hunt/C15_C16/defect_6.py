"""C15: NICKernelRegressor accepts every sklearn kernel name (METRICS), but for
kernels that can be zero/negative (linear, cosine, sigmoid, poly, additive_chi2)
the 'effective sample size' N = sum_k K(x, x_k) gets <= 0 and predict returns
NaN means / NaN std although the prior is proper and >= 2 samples are labeled."""
import os, sys, warnings
os.environ.setdefault("OMP_NUM_THREADS", "1"); os.environ.setdefault("OPENBLAS_NUM_THREADS", "1")
sys.path.insert(0, os.getcwd())
import numpy as np
warnings.simplefilter("ignore")
from skactiveml.regressor import NICKernelRegressor

X = np.array([[1.0, 0.5], [2.0, 1.0], [3.0, 0.2]])
y = np.array([1.0, 2.0, 3.0])
Xq = np.array([[1.0, 1.0], [0.0, 0.0], [-1.0, -0.5]])
bad = False
for metric in ["rbf", "linear", "cosine", "sigmoid", "poly", "additive_chi2"]:
    Xt, Xqq = (X, np.abs(Xq)) if metric == "additive_chi2" else (X, Xq)
    reg = NICKernelRegressor(metric=metric).fit(Xt, y)
    mu, std = reg.predict(Xqq, return_std=True)
    print(f"{metric:>14}: mean={mu} std={std}")
    if not (np.all(np.isfinite(mu)) and np.all(np.isfinite(std)) and np.all(std >= 0)):
        bad = True
print("demanded: finite mean and finite, non-negative std (proper default prior, three labeled samples)")
print("DEFECT PRESENT" if bad else "ok")
sys.exit(1 if bad else 0)
