"""C16: a string sentinel with a NUMERIC ndarray is not rejected by
check_missing_label (the same data as a list is rejected with TypeError);
instead the numbers are cast to strings and compared textually, so entries that
are not equal to the sentinel (NaN vs 'nan', -1 vs '-1', 2.5 vs '2.5') are
marked as missing."""
import os, sys, warnings
os.environ.setdefault("OMP_NUM_THREADS", "1"); os.environ.setdefault("OPENBLAS_NUM_THREADS", "1")
sys.path.insert(0, os.getcwd())
import numpy as np
warnings.simplefilter("ignore")
from skactiveml.utils import is_unlabeled, is_labeled, unlabeled_indices

bad = False
for y, ml in [(np.array([1.0, np.nan, 2.5]), "nan"), (np.array([1, 2, -1]), "-1"), (np.array([1.0, 2.5]), "2.5")]:
    try:
        as_list = is_unlabeled(y.tolist(), ml).tolist()
    except TypeError as e:
        as_list = "TypeError"
    try:
        u = is_unlabeled(y, ml)
        print(f"y={y!r}, missing_label={ml!r}: ndarray -> {u.tolist()} (unlabeled_indices={unlabeled_indices(y, ml).tolist()}); list -> {as_list}")
        if u.any():
            bad = True   # no numeric entry is equal to a str sentinel
    except TypeError as e:
        print(f"y={y!r}, missing_label={ml!r}: ndarray -> TypeError (fine); list -> {as_list}")
print("demanded: either TypeError (incomparable sentinel/dtype, as for list input) or an all-False mask,"
      " since no number equals a string")
print("DEFECT PRESENT" if bad else "ok")
sys.exit(1 if bad else 0)
