"""C15: NICKernelRegressor / NadarayaWatsonRegressor return NaN mean and NaN/inf std
for query points far away from every labeled sample (kernel underflow, N == 0 or
denormal), although a proper prior (NIC default) / >= 2 labeled samples exist."""
import os, sys, warnings
os.environ.setdefault("OMP_NUM_THREADS", "1"); os.environ.setdefault("OPENBLAS_NUM_THREADS", "1")
sys.path.insert(0, os.getcwd())
import numpy as np
warnings.simplefilter("ignore")
from skactiveml.regressor import NICKernelRegressor, NadarayaWatsonRegressor

X = np.array([[0.0], [0.1], [0.2]])
y = np.array([1.0, 2.0, 4.0])          # three labeled samples, default (proper) prior
Xq = np.array([[0.1], [26.9], [40.0]])  # near, denormal-kernel band, full underflow
bad = False
for R in (NICKernelRegressor, NadarayaWatsonRegressor):
    reg = R().fit(X, y)
    mu, std = reg.predict(Xq, return_std=True)
    print(R.__name__, "mean:", mu, "std:", std)
    if not (np.all(np.isfinite(mu)) and np.all(np.isfinite(std)) and np.all(std >= 0)):
        bad = True
print("demanded: finite mean and finite, non-negative std at every query point "
      "(NIC should fall back to the prior mu_0=0 far away from the data)")
print("DEFECT PRESENT" if bad else "ok")
sys.exit(1 if bad else 0)
