"""C15 (secondary): metric='precomputed' is listed in NICKernelRegressor.METRICS and a
callable metric is documented ('str or callable'), but neither can be used:
fit raises AttributeError (n_features_in_ never set) resp. TypeError."""
import os, sys, warnings
os.environ.setdefault("OMP_NUM_THREADS", "1"); os.environ.setdefault("OPENBLAS_NUM_THREADS", "1")
sys.path.insert(0, os.getcwd())
import numpy as np
warnings.simplefilter("ignore")
from sklearn.metrics.pairwise import rbf_kernel
from skactiveml.regressor import NICKernelRegressor

X = np.array([[0.0], [1.0], [2.0]]); y = np.array([1.0, 2.0, 4.0]); Xq = np.array([[0.5], [1.5]])
ref = NICKernelRegressor(metric="rbf").fit(X, y).predict(Xq, return_std=True)
print("rbf reference:", ref)
bad = False
for name, metric, Xf, Xp in [("precomputed", "precomputed", rbf_kernel(X, X), rbf_kernel(Xq, X)),
                             ("callable", rbf_kernel, X, Xq)]:
    try:
        out = NICKernelRegressor(metric=metric).fit(Xf, y).predict(Xp, return_std=True)
        print(name, out)
        if not np.allclose(out[0], ref[0]):
            bad = True
    except Exception as e:
        print(name, "raised", type(e).__name__, ":", str(e)[:120])
        bad = True
print("demanded: same predictions as metric='rbf'")
print("DEFECT PRESENT" if bad else "ok")
sys.exit(1 if bad else 0)
