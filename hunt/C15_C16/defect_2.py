"""C15: NICKernelRegressor / NadarayaWatsonRegressor with missing_label=None
(documented as supported) cannot predict: y is an object array, the labeled part
stays dtype=object and predict_target_distribution raises TypeError."""
import os, sys, warnings
os.environ.setdefault("OMP_NUM_THREADS", "1"); os.environ.setdefault("OPENBLAS_NUM_THREADS", "1")
sys.path.insert(0, os.getcwd())
import numpy as np
warnings.simplefilter("ignore")
from skactiveml.regressor import NICKernelRegressor, NadarayaWatsonRegressor, SklearnNormalRegressor
from sklearn.linear_model import BayesianRidge

X = np.array([[0.0], [1.0], [2.0]])
y = [1.0, None, 2.0]
bad = False
ref = SklearnNormalRegressor(BayesianRidge(), missing_label=None).fit(X, y).predict(X, return_std=True)
print("SklearnNormalRegressor(missing_label=None) works:", ref)
for R in (NICKernelRegressor, NadarayaWatsonRegressor):
    reg = R(missing_label=None).fit(X, y)
    try:
        mu, std = reg.predict(X, return_std=True)
        d = reg.predict_target_distribution(X)
        S = reg.sample_y(X, 3, random_state=0)
        print(R.__name__, mu, std, S.shape)
        if not (np.array_equal(mu, d.mean()) and S.shape == (3, 3)):
            bad = True
    except Exception as e:
        print(R.__name__, "predict raised", type(e).__name__, ":", e)
        bad = True
print("demanded: predict returns mean/std of the predictive t-distribution")
print("DEFECT PRESENT" if bad else "ok")
sys.exit(1 if bad else 0)
