"""C09 (and C08): regression strategies that simulate a label for an index candidate write
the simulated float target into a copy of `y` (y_new[idx] = value / y_all[mapping] = pred).
If `y` is an integer array with an integer sentinel, the simulated targets are truncated:
utilities differ from the NaN encoding of the same data, and candidates=indices differs
from candidates=feature rows."""
import os, sys, warnings
os.environ["OMP_NUM_THREADS"] = "1"; os.environ["OPENBLAS_NUM_THREADS"] = "1"
sys.path.insert(0, os.getcwd())
import numpy as np
from skactiveml.regressor import NICKernelRegressor
from skactiveml.pool import (ExpectedModelOutputChange, ExpectedModelVarianceReduction,
                             KLDivergenceMaximization, GreedySamplingTarget)
warnings.filterwarnings("ignore")

rng = np.random.RandomState(1)
n = 20
X = rng.randn(n, 2)
target = np.round(X[:, 0] * 20 + 10 * np.sin(X[:, 1]))      # integer-valued targets
lab = np.zeros(n, bool); lab[rng.choice(n, 8, replace=False)] = True
y_nan = np.where(lab, target, np.nan)                         # float array, NaN sentinel
y_int = np.where(lab, target, -999).astype(int)               # int array,  -999 sentinel
unl = np.flatnonzero(~lab)

bad = False
for cls, bs in [(ExpectedModelOutputChange, 1), (ExpectedModelVarianceReduction, 1),
                (KLDivergenceMaximization, 1), (GreedySamplingTarget, 3)]:
    qa, ua = cls(random_state=0).query(X, y_nan, reg=NICKernelRegressor(random_state=0),
                                       batch_size=bs, return_utilities=True)
    qb, ub = cls(missing_label=-999, random_state=0).query(
        X, y_int, reg=NICKernelRegressor(missing_label=-999, random_state=0), batch_size=bs, return_utilities=True)
    same = np.allclose(ua, ub, equal_nan=True)
    msg = f"{cls.__name__:32s} NaN/float vs -999/int: utilities equal={same} selected {qa} vs {qb}"
    if bs == 1:
        qc, uc = cls(missing_label=-999, random_state=0).query(
            X, y_int, reg=NICKernelRegressor(missing_label=-999, random_state=0), candidates=X[unl], return_utilities=True)
        same_rep = np.allclose(ub[0][unl], uc[0], equal_nan=True)
        msg += f" | int encoding: indices vs rows equal={same_rep}"
        bad |= not same_rep
    print(msg)
    bad |= not same
print("demanded: the sentinel/dtype used for missing targets and the way candidates are addressed do not change utilities")
print("DEFECT PRESENT" if bad else "ok")
sys.exit(1 if bad else 0)
