"""C09: MonteCarloEER / ValueOfInformationEER cast the simulated class label to the dtype
of `y`. With string labels, a class name that is longer than the strings stored in `y`
is truncated: error, or silently the wrong class."""
import os, sys, warnings
os.environ["OMP_NUM_THREADS"] = "1"; os.environ["OPENBLAS_NUM_THREADS"] = "1"
sys.path.insert(0, os.getcwd())
import numpy as np
from skactiveml.classifier import ParzenWindowClassifier
from skactiveml.pool import MonteCarloEER, ValueOfInformationEER
warnings.filterwarnings("ignore")

rng = np.random.RandomState(1)
X = rng.randn(16, 2)
lab = rng.choice(16, 6, replace=False)          # only the first class has been observed so far

def run(qs_cls, classes, missing):
    y = np.array([classes[0] if i in lab else missing for i in range(16)])
    clf = ParzenWindowClassifier(classes=classes, missing_label=missing, class_prior=1, random_state=0)
    try:
        q, u = qs_cls(missing_label=missing, random_state=0).query(X, y, clf=clf, return_utilities=True)
        return y.dtype, q, u
    except Exception as e:
        return y.dtype, None, f"{type(e).__name__}: {str(e)[:80]}"

bad = False
for qs_cls in (MonteCarloEER, ValueOfInformationEER):
    ref = run(qs_cls, [0, 1], np.nan)
    print(f"{qs_cls.__name__}: classes [0, 1]                 y.dtype={ref[0]} selected={ref[1]}")
    for classes, missing in [(["no", "yes"], "?"), (["n", "no"], "?")]:
        r = run(qs_cls, classes, missing)
        if r[1] is None:
            print(f"{qs_cls.__name__}: classes {classes} missing '?'  y.dtype={r[0]} raised {r[2]}"); bad = True
        else:
            same = np.allclose(ref[2], r[2], equal_nan=True)
            print(f"{qs_cls.__name__}: classes {classes} missing '?'  y.dtype={r[0]} selected={r[1]} utilities equal to int encoding: {same}")
            bad |= not same
print("demanded: identical utilities for the order-preserving renamings 0,1 -> 'no','yes' / 'n','no'")
print("DEFECT PRESENT" if bad else "ok")
sys.exit(1 if bad else 0)
