"""C09: SklearnClassifier never fits the wrapped estimator when missing_label=None and
the class labels are numbers (object array of ints + None)."""
import os, sys, warnings
os.environ["OMP_NUM_THREADS"] = "1"; os.environ["OPENBLAS_NUM_THREADS"] = "1"
sys.path.insert(0, os.getcwd())
import numpy as np
from sklearn.linear_model import LogisticRegression
from skactiveml.classifier import SklearnClassifier
from skactiveml.pool import UncertaintySampling
warnings.filterwarnings("ignore")

rng = np.random.RandomState(0)
X = rng.randn(20, 2)
y_true = (X[:, 0] > 0).astype(int)
unl = np.arange(20) % 3 == 0
y_nan = np.where(unl, np.nan, y_true)                                      # 0/1, NaN sentinel
y_none = np.array([None if u else int(v) for u, v in zip(unl, y_true)], dtype=object)  # 0/1, None sentinel

a = SklearnClassifier(LogisticRegression(), classes=[0, 1], missing_label=np.nan).fit(X, y_nan)
b = SklearnClassifier(LogisticRegression(), classes=[0, 1], missing_label=None).fit(X, y_none)
Pa, Pb = a.predict_proba(X[:4]), b.predict_proba(X[:4])
print("estimator fitted (NaN sentinel) :", a.is_fitted_)
print("estimator fitted (None sentinel):", b.is_fitted_)
print("predict_proba NaN sentinel :\n", Pa.round(4))
print("predict_proba None sentinel:\n", Pb.round(4))

qa, ua = UncertaintySampling(random_state=0).query(
    X, y_nan, clf=SklearnClassifier(LogisticRegression(), classes=[0, 1]), return_utilities=True)
qb, ub = UncertaintySampling(missing_label=None, random_state=0).query(
    X, y_none, clf=SklearnClassifier(LogisticRegression(), classes=[0, 1], missing_label=None), return_utilities=True)
print("UncertaintySampling utilities equal:", np.allclose(ua, ub, equal_nan=True), "selected", qa, qb)

bad = (not np.allclose(Pa, Pb)) or (not np.allclose(ua, ub, equal_nan=True))
print("DEFECT PRESENT" if bad else "ok")
sys.exit(1 if bad else 0)
