"""C09: SingleAnnotatorWrapper aggregates the annotators' labels with
majority_vote(y) - without its own missing_label. With a non-NaN sentinel the sentinel
takes part in the vote (numeric sentinel) or the call fails (None sentinel)."""
import os, sys, warnings
os.environ["OMP_NUM_THREADS"] = "1"; os.environ["OPENBLAS_NUM_THREADS"] = "1"
sys.path.insert(0, os.getcwd())
import numpy as np
from skactiveml.classifier import ParzenWindowClassifier
from skactiveml.pool import UncertaintySampling
from skactiveml.pool.multiannotator import SingleAnnotatorWrapper
warnings.filterwarnings("ignore")

rng = np.random.RandomState(2)
n, A = 24, 3
X = rng.randn(n, 2)
y_idx = np.tile(((X[:, 0] > 0).astype(int) + (X[:, 1] > 0.5).astype(int))[:, None], (1, A))
y_idx[rng.rand(n, A) < 0.6] = -1
y_idx[:6] = -1

res = {}
for name, classes, missing, dtype in [("0,1,2 / NaN", [0, 1, 2], np.nan, float), ("0,1,2 / -1", [0, 1, 2], -1, int),
                                      ("1,2,3 / 0", [1, 2, 3], 0, int), ("0,1,2 / None", [0, 1, 2], None, object)]:
    y = np.array([[missing if v < 0 else classes[v] for v in row] for row in y_idx], dtype=dtype)
    qs = SingleAnnotatorWrapper(UncertaintySampling(missing_label=missing, random_state=0),
                                missing_label=missing, random_state=0)
    clf = ParzenWindowClassifier(classes=classes, missing_label=missing, random_state=0)
    try:
        res[name] = qs.query(X, y, clf=clf, batch_size=3, A_perf=np.array([0.3, 0.9, 0.5]), return_utilities=True)
        print(f"{name:14s}: selected (sample, annotator) pairs {res[name][0].tolist()}")
    except Exception as e:
        res[name] = None
        print(f"{name:14s}: raised {type(e).__name__}: {str(e)[:100]}")
ref = res["0,1,2 / NaN"]
print("demanded: identical pairs and utilities for all encodings")
bad = any(r is None or not np.array_equal(r[0], ref[0]) or not np.allclose(r[1], ref[1], equal_nan=True) for r in res.values())
print("DEFECT PRESENT" if bad else "ok")
sys.exit(1 if bad else 0)
