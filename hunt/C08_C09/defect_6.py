"""C09: MonteCarloEER / ValueOfInformationEER reject (missing_label, label dtype) combinations
that every other strategy and every classifier accepts, e.g. float32 labels with NaN, or a
float label array with the integer sentinel -1."""
import os, sys, warnings
os.environ["OMP_NUM_THREADS"] = "1"; os.environ["OPENBLAS_NUM_THREADS"] = "1"
sys.path.insert(0, os.getcwd())
import numpy as np
from skactiveml.classifier import ParzenWindowClassifier
from skactiveml.pool import MonteCarloEER, ValueOfInformationEER, UncertaintySampling, ProbabilisticAL
warnings.filterwarnings("ignore")

rng = np.random.RandomState(1)
X = rng.randn(16, 2)
y_idx = (X[:, 0] > 0).astype(int)
lab = rng.choice(16, 6, replace=False)
ye = np.full(16, -1); ye[lab] = y_idx[lab]
enc = {
    "float64 / NaN": (np.where(ye < 0, np.nan, ye).astype(np.float64), np.nan),
    "float32 / NaN": (np.where(ye < 0, np.nan, ye).astype(np.float32), np.nan),
    "float64 / -1 (int)": (ye.astype(np.float64), -1),
    "int32 / -1": (ye.astype(np.int32), -1),
}
bad = False
for cls in (UncertaintySampling, ProbabilisticAL, MonteCarloEER, ValueOfInformationEER):
    ref = None
    for name, (y, m) in enc.items():
        clf = ParzenWindowClassifier(classes=[0, 1], missing_label=m, random_state=0)
        try:
            q, u = cls(missing_label=m, random_state=0).query(X, y, clf=clf, return_utilities=True)
            if ref is None: ref = u
            ok = np.allclose(ref, u, equal_nan=True)
            print(f"{cls.__name__:22s} {name:20s} selected {q} same utilities: {ok}")
            bad |= not ok
        except Exception as e:
            print(f"{cls.__name__:22s} {name:20s} raised {type(e).__name__}: {str(e)[:90]}")
            bad = True
print("demanded: same result for every supported sentinel/dtype combination")
print("DEFECT PRESENT" if bad else "ok")
sys.exit(1 if bad else 0)
