"""C09: every multi-annotator pool strategy validates y with check_array(dtype='numeric') and
therefore rejects string class labels (string or None sentinel)."""
import os, sys, warnings
os.environ["OMP_NUM_THREADS"] = "1"; os.environ["OPENBLAS_NUM_THREADS"] = "1"
sys.path.insert(0, os.getcwd())
import numpy as np
from skactiveml.classifier.multiannotator import AnnotatorLogisticRegression
from skactiveml.pool.multiannotator import IntervalEstimationThreshold
warnings.filterwarnings("ignore")

rng = np.random.RandomState(2)
n, A = 20, 3                       # three annotators with complete votes -> no ties in the majority vote
X = rng.randn(n, 2)
truth = (X[:, 0] > 0).astype(int)
y_idx = np.tile(truth[:, None], (1, A))
flip = rng.rand(n, A) < 0.2
y_idx[flip] = 1 - y_idx[flip]
y_idx[:8, :] = -1                  # eight samples without any label

res = {}
for name, classes, missing, dtype in [("0,1 / NaN", [0, 1], np.nan, float), ("no,yes / 'nan'", ["no", "yes"], "nan", None),
                                      ("no,yes / None", ["no", "yes"], None, object)]:
    y = np.array([[missing if v < 0 else classes[v] for v in row] for row in y_idx], dtype=dtype)
    clf = AnnotatorLogisticRegression(classes=classes, missing_label=missing, random_state=0)
    clf.fit(X, y)                  # the classifier itself copes with every encoding
    try:
        res[name] = IntervalEstimationThreshold(missing_label=missing, random_state=0).query(
            X, y, clf=clf, batch_size=2, return_utilities=True)
        print(f"{name:15s}: selected {res[name][0].tolist()}")
    except Exception as e:
        res[name] = None
        print(f"{name:15s}: raised {type(e).__name__}: {str(e)[:100]}")
ref = res["0,1 / NaN"]
print("demanded: identical selection and utilities for all encodings")
bad = any(r is None or not np.allclose(r[1], ref[1], equal_nan=True) for r in res.values())
print("DEFECT PRESENT" if bad else "ok")
sys.exit(1 if bad else 0)
