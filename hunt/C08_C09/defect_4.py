"""C09: EpistemicUncertaintySampling with a wrapped LogisticRegression multiplies the raw
class labels into the logistic loss (y * z). String labels therefore crash, numeric
relabelings change the likelihood that is optimised."""
import os, sys, warnings
os.environ["OMP_NUM_THREADS"] = "1"; os.environ["OPENBLAS_NUM_THREADS"] = "1"
sys.path.insert(0, os.getcwd())
import numpy as np
from sklearn.linear_model import LogisticRegression
from skactiveml.classifier import SklearnClassifier
from skactiveml.pool import EpistemicUncertaintySampling
import skactiveml.pool._epistemic_uncertainty_sampling as E
warnings.filterwarnings("ignore")

rng = np.random.RandomState(0)
X = rng.randn(16, 2)
y_idx = (X[:, 0] + 0.3 * X[:, 1] + 0.8 * rng.randn(16) > 0).astype(int)
lab = rng.choice(16, 8, replace=False)

# record the likelihood ratios the strategy computes internally
orig = E._pi_h
log = []
def spy(*a, **k):
    r = orig(*a, **k); log.append(float(r)); return r
E._pi_h = spy

res, ratios = {}, {}
for name, classes, missing in [("0/1", [0, 1], np.nan), ("10/20", [10, 20], np.nan), ("'a'/'b'", ["a", "b"], "nan")]:
    y = np.array([classes[y_idx[i]] if i in lab else missing for i in range(16)])
    clf = SklearnClassifier(LogisticRegression(), classes=classes, missing_label=missing, random_state=0)
    log.clear()
    try:
        res[name] = EpistemicUncertaintySampling(missing_label=missing, random_state=0).query(
            X, y, clf=clf, return_utilities=True)
        ratios[name] = list(log)
        print(f"labels {name:8s}: selected {res[name][0]}, first internal likelihood ratios {np.array(log[:3])}")
    except Exception as e:
        res[name] = None
        print(f"labels {name:8s}: raised {type(e).__name__}: {str(e)[:100]}")
print("demanded: identical behaviour for all three label encodings")
bad = res["'a'/'b'"] is None or res["10/20"] is None \
    or not np.allclose(res["0/1"][1], res["'a'/'b'"][1], equal_nan=True) \
    or not np.allclose(ratios["0/1"][:3], ratios["10/20"][:3])
print("DEFECT PRESENT" if bad else "ok")
sys.exit(1 if bad else 0)
