"""C09: AnnotatorEnsembleClassifier with `classes` set consistently on the ensemble and on its
member classifiers only works when the class labels are 0..K-1."""
import os, sys, warnings
os.environ["OMP_NUM_THREADS"] = "1"; os.environ["OPENBLAS_NUM_THREADS"] = "1"
sys.path.insert(0, os.getcwd())
import numpy as np
from skactiveml.classifier import ParzenWindowClassifier
from skactiveml.classifier.multiannotator import AnnotatorEnsembleClassifier
warnings.filterwarnings("ignore")

rng = np.random.RandomState(2)
n, A = 24, 3
X = rng.randn(n, 2); Xte = rng.randn(5, 2)
y_idx = np.tile(((X[:, 0] > 0).astype(int) + (X[:, 1] > 0.5).astype(int))[:, None], (1, A))
y_idx[rng.rand(n, A) < 0.5] = -1

res = {}
for name, classes, missing in [("0,1,2", [0, 1, 2], np.nan), ("10,20,30", [10, 20, 30], np.nan),
                               ("a,b,c", ["a", "b", "c"], "zzz"), ("-1,0,1", [-1, 0, 1], np.nan)]:
    y = np.array([[missing if v < 0 else classes[v] for v in row] for row in y_idx])
    kw = dict(classes=classes, missing_label=missing, random_state=0)
    clf = AnnotatorEnsembleClassifier(
        estimators=[(f"clf{i}", ParzenWindowClassifier(**kw)) for i in range(A)], voting="soft", **kw)
    try:
        clf.fit(X, y)
        res[name] = clf.predict_proba(Xte)
        print(f"classes {name:9s}: fitted, predict {clf.predict(Xte)}")
    except Exception as e:
        res[name] = None
        print(f"classes {name:9s}: raised {type(e).__name__}: {str(e)[:100]}")
print("demanded: same predict_proba for every order-preserving renaming")
bad = any(r is None or not np.allclose(r, res["0,1,2"]) for r in res.values())
print("DEFECT PRESENT" if bad else "ok")
sys.exit(1 if bad else 0)
