"""C09: QueryByCommittee(method='vote_entropy' / 'variation_ratios') raises for string class
labels although the identical data with labels 0,1,2 works."""
import os, sys, warnings
os.environ["OMP_NUM_THREADS"] = "1"; os.environ["OPENBLAS_NUM_THREADS"] = "1"
sys.path.insert(0, os.getcwd())
import numpy as np
from sklearn.naive_bayes import GaussianNB
from skactiveml.classifier import SklearnClassifier, ParzenWindowClassifier
from skactiveml.pool import QueryByCommittee
warnings.filterwarnings("ignore")

rng = np.random.RandomState(1)
X = rng.randn(24, 2)
y_idx = (X[:, 0] > 0).astype(int) + (X[:, 1] > 0.5).astype(int)
unl = rng.rand(24) < 0.6
bad = False
for method in ["vote_entropy", "variation_ratios"]:
    res = {}
    for name, classes, missing in [("int", [0, 1, 2], np.nan), ("str", ["a", "b", "c"], "zzz")]:
        y = np.array([missing if u else classes[v] for u, v in zip(unl, y_idx)])
        ens = [ParzenWindowClassifier(classes=classes, missing_label=missing, random_state=0),
               SklearnClassifier(GaussianNB(), classes=classes, missing_label=missing, random_state=0),
               ParzenWindowClassifier(classes=classes, missing_label=missing, metric_dict={"gamma": 3.0}, random_state=0)]
        qs = QueryByCommittee(method=method, missing_label=missing, random_state=0)
        try:
            res[name] = qs.query(X, y, ensemble=ens, return_utilities=True)
            print(method, name, "-> selected", res[name][0])
        except Exception as e:
            res[name] = None
            print(method, name, "-> raised", type(e).__name__, ":", str(e)[:110])
    if res["int"] is not None and (res["str"] is None or not np.allclose(res["int"][1], res["str"][1], equal_nan=True)):
        bad = True
print("demanded: same utilities/selection for labels 0,1,2 and 'a','b','c'")
print("DEFECT PRESENT" if bad else "ok")
sys.exit(1 if bad else 0)
