"""C08 (restriction, sample-wise strategy): EpistemicUncertaintySampling(precompute=True) with a
ParzenWindowClassifier scores a candidate by interpolating in a table whose size - and hence whose
Delaunay triangulation inside scipy.griddata - depends on the largest class frequency among the
*current candidates*. Restricting the candidate set changes the utilities of the remaining ones."""
import os, sys, warnings
os.environ["OMP_NUM_THREADS"] = "1"; os.environ["OPENBLAS_NUM_THREADS"] = "1"
sys.path.insert(0, os.getcwd())
import numpy as np
from skactiveml.classifier import ParzenWindowClassifier
from skactiveml.pool import EpistemicUncertaintySampling
warnings.filterwarnings("ignore")

rng = np.random.RandomState(1)
n = 24
X = rng.randn(n, 2)
y_true = (X[:, 0] + 0.3 * X[:, 1] > 0).astype(float)
y = np.full(n, np.nan); lab = rng.choice(n, 9, replace=False); y[lab] = y_true[lab]
unl = np.flatnonzero(np.isnan(y))
sub = unl[-3:]

res = {}
for pre in (False, True):
    qs = EpistemicUncertaintySampling(precompute=pre, random_state=0)
    clf = ParzenWindowClassifier(classes=[0, 1], random_state=0)
    _, u_all = qs.query(X, y, clf=clf, return_utilities=True)
    _, u_sub = EpistemicUncertaintySampling(precompute=pre, random_state=0).query(
        X, y, clf=clf, candidates=sub, return_utilities=True)
    d = np.max(np.abs(u_all[0][sub] - u_sub[0][sub]))
    res[pre] = d
    print(f"precompute={pre}: utilities of samples {sub.tolist()} with all candidates {u_all[0][sub].round(5)}, "
          f"restricted {u_sub[0][sub].round(5)}, max diff {d:.2e}")
print("demanded: restricting the candidates does not change the utilities of the remaining candidates")
bad = res[True] > 1e-6
print("DEFECT PRESENT" if bad else "ok")
sys.exit(1 if bad else 0)
