"""C08: multi-annotator pool strategies sort (np.unique) the candidate index array but keep the
boolean `annotators` mask (and a 2-D `A_perf`) in the caller's order. With candidate indices
that are not ascending, the availability mask is applied to the wrong samples: the same
candidates addressed in a different order get different utilities, and unavailable
(sample, annotator) pairs are selected."""
import os, sys, warnings
os.environ["OMP_NUM_THREADS"] = "1"; os.environ["OPENBLAS_NUM_THREADS"] = "1"
sys.path.insert(0, os.getcwd())
import numpy as np
from skactiveml.classifier import ParzenWindowClassifier
from skactiveml.pool import UncertaintySampling
from skactiveml.pool.multiannotator import SingleAnnotatorWrapper, IntervalEstimationThreshold
from skactiveml.classifier.multiannotator import AnnotatorLogisticRegression
warnings.filterwarnings("ignore")

rng = np.random.RandomState(0)
n, A = 12, 2
X = rng.randn(n, 2)
y = np.full((n, A), np.nan)
y[6:, :] = ((X[6:, 0] > 0).astype(float))[:, None]          # samples 6..11 labeled by both annotators

cand_sorted = np.array([1, 4])
avail_sorted = np.array([[True, False],     # sample 1: only annotator 0 may be asked
                         [False, True]])    # sample 4: only annotator 1 may be asked
cand_rev, avail_rev = cand_sorted[::-1], avail_sorted[::-1]  # the very same request, listed as [4, 1]

bad = False
def show(tag, qs, **kw):
    global bad
    q0, u0 = qs.query(X, y, candidates=cand_sorted, annotators=avail_sorted, batch_size=2, return_utilities=True, **kw)
    q1, u1 = qs.query(X, y, candidates=cand_rev, annotators=avail_rev, batch_size=2, return_utilities=True, **kw)
    q2, u2 = qs.query(X, y, candidates=X[cand_rev], annotators=avail_rev, batch_size=2, return_utilities=True, **kw)
    print(f"--- {tag}")
    print("candidates=[1,4]   : pairs", q0.tolist(), " utilities[0][[1,4]] =\n", u0[0][[1, 4]])
    print("candidates=[4,1]   : pairs", q1.tolist(), " utilities[0][[1,4]] =\n", u1[0][[1, 4]])
    print("candidates=X[[4,1]]: pairs", [[int(cand_rev[a]), int(b)] for a, b in q2], " utilities[0] (rows 4,1) =\n", u2[0])
    allowed = {(1, 0), (4, 1)}
    sel = {tuple(p) for p in q1.tolist()}
    if not np.array_equal(np.isnan(u0[0]), np.isnan(u1[0])) or not sel <= allowed:
        print("   -> availability mask applied to the wrong samples; selected unavailable pairs:", sorted(sel - allowed))
        bad = True

show("SingleAnnotatorWrapper(UncertaintySampling)",
     SingleAnnotatorWrapper(UncertaintySampling(random_state=0), random_state=0),
     clf=ParzenWindowClassifier(classes=[0, 1], random_state=0), A_perf=np.array([0.6, 0.7]))
# IntervalEstimationThreshold: sample 4 fully available, sample 1 not available at all
qs = IntervalEstimationThreshold(random_state=0)
clf = AnnotatorLogisticRegression(classes=[0, 1], random_state=0)
m_sorted = np.array([[False, False], [True, True]])          # rows belong to samples 1, 4
qa, ua = qs.query(X, y, clf=clf, candidates=np.array([1, 4]), annotators=m_sorted, return_utilities=True)
qb, ub = qs.query(X, y, clf=clf, candidates=np.array([4, 1]), annotators=m_sorted[::-1], return_utilities=True)
print("--- IntervalEstimationThreshold")
print("candidates=[1,4]: pair", qa.tolist(), "utilities[0][[1,4]] =", ua[0][[1, 4]].tolist())
print("candidates=[4,1]: pair", qb.tolist(), "utilities[0][[1,4]] =", ub[0][[1, 4]].tolist())
if qb[0, 0] != 4 or not np.array_equal(np.isnan(ua[0]), np.isnan(ub[0])):
    print("   -> the unavailable sample 1 is selected")
    bad = True
print("demanded: same utilities / same (sample, annotator) pairs however the two candidates are listed")
print("DEFECT PRESENT" if bad else "ok")
sys.exit(1 if bad else 0)
