"""C09: QueryByCommittee with committee members that output class *indices*
(sub-estimators of a wrapped sklearn ensemble, or sample_predictions_method_name)
only works if the class labels are 0..K-1."""
import os, sys, warnings
os.environ["OMP_NUM_THREADS"] = "1"; os.environ["OPENBLAS_NUM_THREADS"] = "1"
sys.path.insert(0, os.getcwd())
import numpy as np
from sklearn.ensemble import RandomForestClassifier
from skactiveml.classifier import SklearnClassifier, ParzenWindowClassifier
from skactiveml.pool import QueryByCommittee
warnings.filterwarnings("ignore")

rng = np.random.RandomState(1)
X = rng.randn(24, 2)
y_idx = (X[:, 0] > 0).astype(int) + (X[:, 1] > 0.5).astype(int)
lab = rng.choice(24, 9, replace=False)

def labels(classes):
    y = np.full(24, np.nan)
    y[lab] = np.array(classes)[y_idx[lab]]
    return y

configs = {
  "vote_entropy + RandomForest": lambda c: (QueryByCommittee(method="vote_entropy", random_state=0),
        dict(ensemble=SklearnClassifier(RandomForestClassifier(n_estimators=5, random_state=0), classes=c, random_state=0))),
  "KL_divergence + RandomForest": lambda c: (QueryByCommittee(method="KL_divergence", random_state=0),
        dict(ensemble=SklearnClassifier(RandomForestClassifier(n_estimators=5, random_state=0), classes=c, random_state=0))),
  "vote_entropy + sample_proba": lambda c: (QueryByCommittee(method="vote_entropy", sample_predictions_method_name="sample_proba",
        sample_predictions_dict=dict(n_samples=7, random_state=3), random_state=0),
        dict(ensemble=ParzenWindowClassifier(classes=c, class_prior=1, random_state=0))),
}
bad = False
for name, make in configs.items():
    res = {}
    for c in ([0, 1, 2], [10, 20, 30]):
        qs, kw = make(c)
        try:
            res[tuple(c)] = qs.query(X, labels(c), return_utilities=True, **kw)
            print(f"{name:30s} classes={c}: selected {res[tuple(c)][0]}")
        except Exception as e:
            res[tuple(c)] = None
            print(f"{name:30s} classes={c}: raised {type(e).__name__}: {str(e)[:90]}")
    r0, r1 = res[(0, 1, 2)], res[(10, 20, 30)]
    if r0 is not None and (r1 is None or not np.allclose(r0[1], r1[1], equal_nan=True)):
        bad = True
print("demanded: identical utilities for classes 0,1,2 and 10,20,30")
print("DEFECT PRESENT" if bad else "ok")
sys.exit(1 if bad else 0)
