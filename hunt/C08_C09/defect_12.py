"""C09: the documented sentinel missing_label=None does not work for regression:
NICKernelRegressor / NadarayaWatsonRegressor raise on the object array, and the
model-change strategies convert the object array with check_array (None -> NaN) before
refitting a regressor whose sentinel is None, so unlabeled samples become NaN targets."""
import os, sys, warnings
os.environ["OMP_NUM_THREADS"] = "1"; os.environ["OPENBLAS_NUM_THREADS"] = "1"
sys.path.insert(0, os.getcwd())
import numpy as np
from sklearn.gaussian_process import GaussianProcessRegressor
from sklearn.linear_model import LinearRegression
from skactiveml.regressor import NICKernelRegressor, SklearnNormalRegressor, SklearnRegressor
from skactiveml.pool import KLDivergenceMaximization, GreedySamplingTarget
warnings.filterwarnings("ignore")

rng = np.random.RandomState(1)
n = 20
X = rng.randn(n, 2)
target = X[:, 0] * 2 + np.sin(X[:, 1])
lab = np.zeros(n, bool); lab[rng.choice(n, 8, replace=False)] = True
y_nan = np.where(lab, target, np.nan)
y_none = np.array([t if l else None for t, l in zip(target, lab)], dtype=object)

bad = False
def pair(tag, f):
    global bad
    a = f(np.nan, y_nan)
    try:
        b = f(None, y_none)
        same = np.allclose(np.asarray(a, float), np.asarray(b, float), equal_nan=True)
        print(f"{tag:45s} NaN vs None sentinel equal: {same}")
        bad |= not same
    except Exception as e:
        print(f"{tag:45s} None sentinel raised {type(e).__name__}: {str(e)[:70]}")
        bad = True

pair("SklearnRegressor(LinearRegression).predict", lambda m, y: SklearnRegressor(LinearRegression(), missing_label=m).fit(X, y).predict(X[:4]))
pair("NICKernelRegressor.predict", lambda m, y: NICKernelRegressor(missing_label=m).fit(X, y).predict(X[:4]))
pair("GreedySamplingTarget + LinearRegression", lambda m, y: GreedySamplingTarget(missing_label=m, random_state=0).query(
    X, y, reg=SklearnRegressor(LinearRegression(), missing_label=m), return_utilities=True)[1])
pair("KLDivergenceMaximization + GP", lambda m, y: KLDivergenceMaximization(missing_label=m, random_state=0).query(
    X, y, reg=SklearnNormalRegressor(GaussianProcessRegressor(random_state=0), missing_label=m, random_state=0), return_utilities=True)[1])
print("demanded: same predictions / utilities for the NaN and the None sentinel")
print("DEFECT PRESENT" if bad else "ok")
sys.exit(1 if bad else 0)
