"""C04 - CognitiveDualQueryStrategy* overspends the budget on chunks > 1.

CognitiveDualQueryStrategy.query asks the budget manager about every candidate
of a chunk separately (`query_by_utility(np.array([u]))`), but the budget
manager's state (`u_t_`) is only advanced in `update`, i.e. after the whole
chunk.  Inside a chunk every candidate is therefore judged against the same,
stale budget estimate, and all of them can be granted.

Property C04 demands for the window based (Zliobaite) managers, for every
prefix length n:   #labels(n) <= budget*n + n/w + budget*w + 1
and that a label is only granted while u_t_/w < budget.

Run from the worktree root. Exit code 1 = defect present.
"""
import os
import sys
import warnings

os.environ["OMP_NUM_THREADS"] = "1"
os.environ["OPENBLAS_NUM_THREADS"] = "1"
sys.path.insert(0, os.getcwd())
warnings.filterwarnings("ignore")

import numpy as np  # noqa: E402
from skactiveml.classifier import ParzenWindowClassifier  # noqa: E402
from skactiveml.stream import (  # noqa: E402
    CognitiveDualQueryStrategyVarUn,
    CognitiveDualQueryStrategyFixUn,
    CognitiveDualQueryStrategyRanVarUn,
)

budget, w, n = 0.1, 100, 100
X = np.random.RandomState(0).randn(n, 2)
# classifier without training data: maximally uncertain on every candidate
clf = ParzenWindowClassifier(classes=[0, 1], random_state=0).fit(
    np.zeros((1, 2)), [np.nan]
)


def run(qs, chunk):
    granted = np.zeros(n)
    for a in range(0, n, chunk):
        qi = qs.query(X[a : a + chunk], clf=clf)
        granted[a + np.array(qi, dtype=int)] = 1
        qs.update(X[a : a + chunk], qi)
    return granted


failed = False
configs = [
    (
        "VarUn, force_full_budget=True, default density_threshold=1",
        lambda: CognitiveDualQueryStrategyVarUn(
            budget=budget, random_state=0, force_full_budget=True
        ),
    ),
    (
        "FixUn, force_full_budget=True, density_threshold=0",
        lambda: CognitiveDualQueryStrategyFixUn(
            classes=[0, 1],
            budget=budget,
            random_state=0,
            force_full_budget=True,
            density_threshold=0,
        ),
    ),
    (
        "RanVarUn, force_full_budget=False, density_threshold=0",
        lambda: CognitiveDualQueryStrategyRanVarUn(
            budget=budget,
            random_state=0,
            force_full_budget=False,
            density_threshold=0,
        ),
    ),
]
m = np.arange(1, n + 1)
bound = budget * m + m / w + budget * w + 1
for name, mk in configs:
    for chunk in [1, 10, 100]:
        qs = mk()
        g = run(qs, chunk)
        cs = np.cumsum(g)
        excess = (cs - bound).max()
        u_t = qs.budget_manager_.u_t_
        ok = excess <= 1e-9
        print(
            f"{name:58s} chunk={chunk:3d}: granted {int(cs[-1]):3d} of {n}"
            f" (bound at n: {bound[-1]:.1f}), worst prefix excess "
            f"{excess:+.2f}, final u_t_/w={u_t / w:.3f} (budget {budget})"
            f" -> {'ok' if ok else 'VIOLATION'}"
        )
        if not ok:
            failed = True

print()
print(
    "demanded: #labels among the first n instances <= budget*n + n/w + "
    "budget*w + 1 for every chunking"
)
print("observed:", "bound exceeded for chunks > 1" if failed else "bound holds")
sys.exit(1 if failed else 0)
