"""C06 - QueryByCommittee / GreedyBALD / BatchBALD with
`sample_predictions_method_name` ignore their `random_state`.

When the committee is built by sampling predictions (`sample_proba` of a
ClassFrequencyEstimator, `sample_y` of a ProbabilisticRegressor), the strategy
calls `sample_func(X_cand, **sample_predictions_dict)` without forwarding its
own random state.  `sample_proba` / `sample_y` then fall back to
`random_state=None`, i.e. numpy's process-global generator.  With
`random_state=<int>` the query result is therefore
  * different for two freshly constructed, equal strategy objects,
  * different when the identical call is repeated on one object,
  * a function of `np.random.seed(...)`.

Run from the worktree root. Exit code 1 = defect present.
"""
import os
import sys
import warnings

os.environ["OMP_NUM_THREADS"] = "1"
os.environ["OPENBLAS_NUM_THREADS"] = "1"
sys.path.insert(0, os.getcwd())
warnings.filterwarnings("ignore")

import numpy as np  # noqa: E402
from skactiveml.classifier import ParzenWindowClassifier  # noqa: E402
from skactiveml.pool import (  # noqa: E402
    BatchBALD,
    GreedyBALD,
    QueryByCommittee,
)
from skactiveml.regressor import NICKernelRegressor  # noqa: E402

rng = np.random.RandomState(0)
X = rng.randn(30, 2)
lab = [0, 1, 2, 3, 7, 11]
y_clf = np.full(30, np.nan)
y_clf[lab] = [0, 1, 0, 1, 1, 0]
y_reg = np.full(30, np.nan)
y_reg[lab] = rng.randn(len(lab))

clf = ParzenWindowClassifier(classes=[0, 1], random_state=0)
reg = NICKernelRegressor(random_state=0)
kw = dict(
    sample_predictions_method_name="sample_proba",
    sample_predictions_dict={"n_samples": 5},
)
cases = {
    "QueryByCommittee(random_state=7) + sample_proba": (
        lambda: QueryByCommittee(random_state=7, **kw),
        lambda qs: qs.query(X, y_clf, ensemble=clf, return_utilities=True),
    ),
    "GreedyBALD(random_state=7) + sample_proba": (
        lambda: GreedyBALD(random_state=7, **kw),
        lambda qs: qs.query(X, y_clf, ensemble=clf, return_utilities=True),
    ),
    "BatchBALD(random_state=7) + sample_proba": (
        lambda: BatchBALD(random_state=7, n_MC_samples=10, **kw),
        lambda qs: qs.query(X, y_clf, ensemble=clf, return_utilities=True),
    ),
    "QueryByCommittee(random_state=7) + sample_y (regression)": (
        lambda: QueryByCommittee(
            random_state=7,
            sample_predictions_method_name="sample_y",
            sample_predictions_dict={"n_samples": 5},
        ),
        lambda qs: qs.query(X, y_reg, ensemble=reg, return_utilities=True),
    ),
}


def same(a, b):
    return np.array_equal(a[0], b[0]) and np.allclose(
        a[1], b[1], equal_nan=True
    )


failed = False
for name, (make, call) in cases.items():
    np.random.seed(1)
    qs1 = make()
    r1 = call(qs1)
    r1_again = call(qs1)
    np.random.seed(1)
    r_same_global = call(make())
    np.random.seed(2)
    r2 = call(make())
    twin_equal = same(r1, r2)
    repeat_equal = same(r1, r1_again)
    print(name)
    print("   demanded : identical indices/utilities for equal objects, "
          "repeated calls and any np.random.seed")
    print(f"   twin objects under np.random.seed(1)/(2): idx {r1[0]} vs "
          f"{r2[0]}, utilities equal: "
          f"{np.allclose(r1[1], r2[1], equal_nan=True)}")
    print(f"   same call repeated on one object         : idx {r1[0]} vs "
          f"{r1_again[0]}, utilities equal: "
          f"{np.allclose(r1[1], r1_again[1], equal_nan=True)}")
    print(f"   (control) same global seed reproduces     : "
          f"{same(r1, r_same_global)}  -> the global generator is the "
          f"source of randomness")
    if not (twin_equal and repeat_equal):
        failed = True

print()
print("observed:", "results depend on the process-global numpy generator"
      if failed else "results are reproducible")
sys.exit(1 if failed else 0)
