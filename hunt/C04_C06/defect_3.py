"""C06 - IntervalEstimationThreshold(random_state=<int>) depends on numpy's
process-global random generator.

`IntervalEstimationThreshold.query` builds its annotator model as
`IntervalEstimationAnnotModel(classes=..., missing_label=..., alpha=...,
mode="upper")` - without a `random_state`.  The model's `fit` computes the
majority vote with `majority_vote(..., random_state=None)`, so every tie
between annotators is broken with the global generator.  The tie decides
which annotators count as "correct", hence the estimated annotator
performances, the utilities and finally the selected sample-annotator pairs.

Run from the worktree root. Exit code 1 = defect present.
"""
import os
import sys
import warnings

os.environ["OMP_NUM_THREADS"] = "1"
os.environ["OPENBLAS_NUM_THREADS"] = "1"
sys.path.insert(0, os.getcwd())
warnings.filterwarnings("ignore")

import numpy as np  # noqa: E402
from skactiveml.classifier import ParzenWindowClassifier  # noqa: E402
from skactiveml.classifier.multiannotator import (  # noqa: E402
    AnnotatorEnsembleClassifier,
)
from skactiveml.pool.multiannotator import (  # noqa: E402
    IntervalEstimationThreshold,
)

n, n_annot = 12, 2
X = np.random.RandomState(0).randn(n, 2)
y = np.full((n, n_annot), np.nan)
# the two annotators disagree on every sample they both labeled -> ties
y[:6, 0] = [0, 1, 0, 1, 0, 1]
y[:6, 1] = [1, 0, 1, 0, 1, 0]


def make_clf():
    return AnnotatorEnsembleClassifier(
        estimators=[
            (f"pwc{i}", ParzenWindowClassifier(classes=[0, 1], random_state=0))
            for i in range(n_annot)
        ],
        classes=[0, 1],
        random_state=0,
    )


results = []
for global_seed in range(8):
    np.random.seed(global_seed)
    qs = IntervalEstimationThreshold(random_state=7)
    idx, utils = qs.query(
        X, y, clf=make_clf(), batch_size=2, return_utilities=True
    )
    results.append((idx, utils))
    print(
        f"np.random.seed({global_seed}): IntervalEstimationThreshold("
        f"random_state=7).query -> {idx.tolist()}, utility of pair "
        f"(sample 11, annotators 0/1) = {utils[0, 11].tolist()}"
    )

all_equal = all(
    np.array_equal(results[0][0], r[0])
    and np.allclose(results[0][1], r[1], equal_nan=True)
    for r in results[1:]
)
print()
print("demanded: identical indices and utilities, whatever the state of the "
      "global numpy generator")
print("observed:", "identical" if all_equal else
      "indices / utilities change with np.random.seed(...)")
sys.exit(0 if all_equal else 1)
