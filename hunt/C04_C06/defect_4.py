"""C06 - SingleAnnotatorWrapper consumes (mutates) a RandomState instance
passed as `random_state`; repeating the same query gives another result.

Every pool strategy derives its working generator with
`check_random_state(self.random_state, seed_mult)`, which deep-copies a given
RandomState instance, so that the same call can be repeated with the same
result.  `SingleAnnotatorWrapper._query_annotators` additionally does
`random_state = check_random_state(self.random_state)` - without a copy - and
draws the tie-breaking numbers of `rand_argmax` directly from the user's
instance.  The constructor parameter is advanced by every query, hence the
next (identical) query starts from another state.

Run from the worktree root. Exit code 1 = defect present.
"""
import os
import sys
import warnings

os.environ["OMP_NUM_THREADS"] = "1"
os.environ["OPENBLAS_NUM_THREADS"] = "1"
sys.path.insert(0, os.getcwd())
warnings.filterwarnings("ignore")

import numpy as np  # noqa: E402
from skactiveml.classifier import ParzenWindowClassifier  # noqa: E402
from skactiveml.pool import RandomSampling, UncertaintySampling  # noqa: E402
from skactiveml.pool.multiannotator import SingleAnnotatorWrapper  # noqa: E402

n, n_annot = 20, 3
X = np.random.RandomState(0).randn(n, 2)
y = np.full((n, n_annot), np.nan)
y[:5, 0] = [0, 1, 0, 1, 1]
y[2:7, 1] = [1, 1, 0, 0, 1]
y[0:3, 2] = [0, 0, 1]
clf = ParzenWindowClassifier(classes=[0, 1], random_state=0)


def state_of(rs):
    s = rs.get_state()
    return s[1].tobytes(), s[2]


failed = False

# --- reference behaviour of an ordinary pool strategy ---------------------
rs = np.random.RandomState(7)
before = state_of(rs)
ref = RandomSampling(random_state=rs)
a = ref.query(X, y[:, 0], batch_size=3)
b = ref.query(X, y[:, 0], batch_size=3)
print("RandomSampling(random_state=RandomState(7)):")
print("   call 1:", a, " call 2:", b, " user's RandomState untouched:",
      before == state_of(rs))

# --- the wrapper ----------------------------------------------------------
rs = np.random.RandomState(7)
before = state_of(rs)
qs = SingleAnnotatorWrapper(
    UncertaintySampling(random_state=3), random_state=rs
)
r1 = qs.query(X, y, clf=clf, batch_size=3)
touched = before != state_of(rs)
r2 = qs.query(X, y, clf=clf, batch_size=3)
twin = SingleAnnotatorWrapper(
    UncertaintySampling(random_state=3), random_state=np.random.RandomState(7)
).query(X, y, clf=clf, batch_size=3)
print("SingleAnnotatorWrapper(UncertaintySampling(random_state=3), "
      "random_state=RandomState(7)):")
print("   call 1          :", r1.tolist())
print("   call 2 (same)   :", r2.tolist())
print("   fresh twin      :", twin.tolist())
print("   user's RandomState instance advanced by query():", touched)

qs_int = SingleAnnotatorWrapper(
    UncertaintySampling(random_state=3), random_state=7
)
i1 = qs_int.query(X, y, clf=clf, batch_size=3)
i2 = qs_int.query(X, y, clf=clf, batch_size=3)
print("   (control) random_state=7 (int): call 1 == call 2:",
      np.array_equal(i1, i2))

if not np.array_equal(r1, r2) or touched:
    failed = True

print()
print("demanded: repeating the same query on the same object returns the "
      "same pairs; the given RandomState is copied, not consumed")
print("observed:", "second call differs / constructor argument mutated"
      if failed else "reproducible")
sys.exit(1 if failed else 0)
