"""C10 (chunking invariance, BalancedIncrementalQuantileFilter) and
"update commits exactly what query simulated":
StreamDensityBasedAL.query masks the utility of every low-density candidate
with NaN and lets the budget manager simulate the whole chunk.  With a
BalancedIncrementalQuantileFilter as budget manager the simulated history
window then contains NaN, np.quantile(...) is NaN for the rest of the chunk and
no later candidate of that chunk can be queried, whereas update() stores the
real utilities (the ones query returned).  The labels granted over a stream
therefore depend on the chunking; a stream handed over as one chunk gets no
label at all."""
import os, sys, warnings
os.environ.setdefault("OMP_NUM_THREADS", "1")
os.environ.setdefault("OPENBLAS_NUM_THREADS", "1")
sys.path.insert(0, os.getcwd())
warnings.filterwarnings("ignore")
import numpy as np
from skactiveml.classifier import ParzenWindowClassifier
from skactiveml.stream import StreamDensityBasedAL
from skactiveml.stream.budgetmanager import BalancedIncrementalQuantileFilter

rng = np.random.RandomState(0)
X = rng.randn(30, 2)
y = rng.randint(0, 2, 30).astype(float)
clf = ParzenWindowClassifier(classes=[0, 1], random_state=0).fit(X, y)
stream = np.random.RandomState(100).randn(60, 2)


def run(sizes):
    qs = StreamDensityBasedAL(
        budget_manager=BalancedIncrementalQuantileFilter(budget=0.2, w=20, w_tol=10),
        random_state=0, window_size=10)
    pos, granted = 0, []
    for sz in sizes:
        cand = stream[pos:pos + sz]
        qi, util = qs.query(cand, clf=clf, return_utilities=True)
        assert not np.isnan(util).any()
        granted += [pos + int(i) for i in qi]
        qs.update(cand, qi, budget_manager_param_dict={"utilities": util})
        pos += sz
    return granted, qs.budget_manager_.queried_samples_


one = run([1] * 60)
ten = run([10] * 6)
all_ = run([60])
print("demanded: the same labels for every chunking of the stream")
print("chunks of 1 :", one)
print("chunks of 10:", ten)
print("one chunk   :", all_)
bad = not (one[0] == ten[0] == all_[0])
print("DEFECT PRESENT" if bad else "ok")
sys.exit(1 if bad else 0)
