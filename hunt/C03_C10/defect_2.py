"""C10: update(candidates, queried_indices) must accept every result that
query returned for those candidates.  StreamRandomSampling.query accepts any
array-like (it validates with check_array), but StreamRandomSampling.update
reads `candidates.shape[0]` from the raw argument, so the very same list of
samples is rejected with AttributeError.  PeriodicSampling (len(...)) and all
other stream strategies accept the list."""
import os, sys, warnings
os.environ.setdefault("OMP_NUM_THREADS", "1")
os.environ.setdefault("OPENBLAS_NUM_THREADS", "1")
sys.path.insert(0, os.getcwd())
warnings.filterwarnings("ignore")
from skactiveml.stream import StreamRandomSampling, PeriodicSampling

candidates = [[0.1, 0.2], [0.3, 0.4], [0.5, 0.6], [0.7, 0.8]]  # array-like
bad = False
for qs in (PeriodicSampling(budget=0.5, random_state=0),
           StreamRandomSampling(budget=0.5, random_state=0)):
    qi, util = qs.query(candidates, return_utilities=True)
    print(type(qs).__name__, "query ->", list(qi), util)
    try:
        qs.update(candidates, qi)
        print("   update accepted; observed_samples_ =", qs.observed_samples_)
    except Exception as e:
        print("   demanded: update accepts the query result")
        print("   observed:", type(e).__name__, e)
        bad = True
print("DEFECT PRESENT" if bad else "ok")
sys.exit(1 if bad else 0)
