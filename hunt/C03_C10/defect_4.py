"""C03 (query never changes strategy state; observed at the public fitted
attributes): StreamRandomSampling.update / PeriodicSampling.update validate a
dummy sample [[0]] with reset=True, which overwrites the fitted attribute
n_features_in_ with 1.  The next query() (reset=True as well) writes it back to
the real number of features - i.e. query modifies a public fitted attribute,
and a snapshot of the fitted state taken before/after a query differs."""
import os, sys, warnings
os.environ.setdefault("OMP_NUM_THREADS", "1")
os.environ.setdefault("OPENBLAS_NUM_THREADS", "1")
sys.path.insert(0, os.getcwd())
warnings.filterwarnings("ignore")
import numpy as np
from skactiveml.stream import StreamRandomSampling, PeriodicSampling

cand = np.random.RandomState(0).randn(5, 3)   # 3 features
bad = False
for qs in (StreamRandomSampling(budget=0.5, random_state=0),
           PeriodicSampling(budget=0.5, random_state=0)):
    qi = qs.query(cand)
    qs.update(cand, qi)
    before = {k: v for k, v in vars(qs).items()
              if k.endswith("_") and k != "random_state_"}
    qs.query(cand)
    after = {k: v for k, v in vars(qs).items()
             if k.endswith("_") and k != "random_state_"}
    print(type(qs).__name__)
    print("   demanded: fitted attributes identical before / after query")
    print("   before query:", before)
    print("   after  query:", after)
    if before != after:
        bad = True
print("DEFECT PRESENT" if bad else "ok")
sys.exit(1 if bad else 0)
