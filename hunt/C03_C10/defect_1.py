"""C10 (chunking invariance / "as if processed one at a time"):
CognitiveDualQueryStrategy*.query with force_full_budget=True asks the budget
manager once per candidate, every time from the same, un-advanced accounting
state.  Inside one chunk the budget (u_t_), the adaptive threshold (theta_) and
the random generator of the manager therefore never move, so the labels granted
over a stream depend on how the stream is cut into chunks.

(force_full_budget=True is used so that update() accepts the indices - the
IndexError of force_full_budget=False is a different, already known defect.)
"""
import os, sys, warnings
os.environ.setdefault("OMP_NUM_THREADS", "1")
os.environ.setdefault("OPENBLAS_NUM_THREADS", "1")
sys.path.insert(0, os.getcwd())
warnings.filterwarnings("ignore")
import numpy as np
from skactiveml.classifier import ParzenWindowClassifier
from skactiveml.stream import (
    CognitiveDualQueryStrategyFixUn,
    CognitiveDualQueryStrategyVarUn,
    CognitiveDualQueryStrategyRan,
)

rng = np.random.RandomState(0)
X = rng.randn(30, 2)
y = rng.randint(0, 2, 30).astype(float)
clf = ParzenWindowClassifier(classes=[0, 1], random_state=0).fit(X, y)
stream = np.random.RandomState(100).randn(200, 2)
BUDGET = 0.1


def run(make, sizes):
    qs = make()
    pos, granted = 0, []
    for sz in sizes:
        cand = stream[pos:pos + sz]
        qi = qs.query(cand, clf=clf)
        granted += [pos + int(i) for i in qi]
        qs.update(cand, qi)          # must not raise
        pos += sz
    bm = qs.budget_manager_
    return granted, float(bm.u_t_), getattr(bm, "theta_", None)


configs = {
    "CognitiveDualQueryStrategyFixUn": lambda: CognitiveDualQueryStrategyFixUn(
        classes=[0, 1], budget=BUDGET, random_state=0, force_full_budget=True),
    "CognitiveDualQueryStrategyVarUn": lambda: CognitiveDualQueryStrategyVarUn(
        budget=BUDGET, random_state=0, force_full_budget=True),
    "CognitiveDualQueryStrategyRan": lambda: CognitiveDualQueryStrategyRan(
        budget=BUDGET, random_state=0, force_full_budget=True),
}
bad = False
for name, make in configs.items():
    one = run(make, [1] * 200)
    two = run(make, [10] * 20)
    all_ = run(make, [200])
    print(name, "budget =", BUDGET)
    print("  demanded: identical labels / state for every chunking")
    print("  chunks of 1 : n_labels", len(one[0]), one[0][:12], "u_t_=%.4f" % one[1], "theta_=", one[2])
    print("  chunks of 10: n_labels", len(two[0]), two[0][:12], "u_t_=%.4f" % two[1], "theta_=", two[2])
    print("  one chunk   : n_labels", len(all_[0]), all_[0][:12], "u_t_=%.4f" % all_[1], "theta_=", all_[2])
    if not (one[0] == two[0] == all_[0]):
        bad = True
print("DEFECT PRESENT" if bad else "ok")
sys.exit(1 if bad else 0)
