"""C18: simple_batch(method='proportional') fails on documented inputs.

Demanded: min(batch_size, #non-NaN utilities) distinct non-NaN positions (never of
zero weight) plus per-step utility rows, for utility arrays of any dimensionality.
Library:
 (a) N-D utilities: uses len(utilities) and an N-D p -> ValueError
     (the docstring explicitly allows N-D utilities).
 (b) zero-weight entries: batch_size is clipped to the number of non-NaN entries
     only, so numpy's choice raises when fewer non-zero entries remain; an
     all-zero array raises even for batch_size=1 (0/0 -> p all 0).
 (c) all-negative utilities: p = u / nansum(u) is positive again, so the MOST
     negative utility is the MOST probable; mixed signs raise.
"""
import os, sys, warnings
os.environ["OMP_NUM_THREADS"] = "1"; os.environ["OPENBLAS_NUM_THREADS"] = "1"
sys.path.insert(0, os.getcwd())
import numpy as np
from skactiveml.utils import simple_batch
warnings.simplefilter("ignore")

bad = False

def run(label, u, bs, check):
    global bad
    try:
        idx, bu = simple_batch(u.copy(), random_state=0, batch_size=bs,
                               return_utilities=True, method="proportional")
        ok = check(idx, bu)
        print(f"{label}: indices={idx.tolist()} utilities.shape={bu.shape} ->", "ok" if ok else "WRONG")
        bad |= not ok
    except Exception as e:
        print(f"{label}: raises {type(e).__name__}: {e}")
        bad = True

# (a) 2-D utilities, same call works with method='max'
u2 = np.array([[1.0, 3.0], [2.0, np.nan]])
print("max mode on 2-D:", simple_batch(u2.copy(), 0, 2, True, "max")[0].tolist())
run("(a) proportional on 2-D, batch 2 (demanded: 2 index pairs, utilities (2,2,2))",
    u2, 2, lambda i, b: i.shape == (2, 2) and b.shape == (2, 2, 2))

# (b) zero weights
run("(b1) [0,1,2] batch 3 (demanded: a batch without index 0 / no exception)",
    np.array([0.0, 1.0, 2.0]), 3, lambda i, b: 0 not in i)
run("(b2) [0,0,0] batch 1 (demanded: no exception)",
    np.array([0.0, 0.0, 0.0]), 1, lambda i, b: True)
run("(b3) [nan,0,5] batch 2 (demanded: [2])",
    np.array([np.nan, 0.0, 5.0]), 2, lambda i, b: i.tolist() == [2])

# (c) negative utilities
cnt = np.zeros(2)
for s in range(400):
    cnt[simple_batch(np.array([-1.0, -99.0]), s, 1, method="proportional")[0]] += 1
print("(c1) [-1,-99], 400 seeds: picks of index0/index1 =", cnt.tolist(),
      "(utility -99 is picked ~99% of the time)")
bad |= cnt[1] > cnt[0]
run("(c2) [-1, 3] batch 1 (demanded: no exception)", np.array([-1.0, 3.0]), 1, lambda i, b: True)

print("DEFECT PRESENT" if bad else "ok")
sys.exit(1 if bad else 0)
