"""C18: simple_batch rejects utility arrays that contain +/-inf.

Demanded (quantifier: utilities incl. negative values and infinities): the batch
consists of the positions of the largest non-NaN utilities; +inf is the largest,
-inf the smallest value.  rand_argmax / rand_argmin handle infinities correctly,
but simple_batch validates with ensure_all_finite='allow-nan' and raises.
"""
import os, sys, warnings
os.environ["OMP_NUM_THREADS"] = "1"; os.environ["OPENBLAS_NUM_THREADS"] = "1"
sys.path.insert(0, os.getcwd())
import numpy as np
from skactiveml.utils import simple_batch, rand_argmax

bad = False
for u, bs, demanded in [
    (np.array([1.0, np.inf, -np.inf, np.nan]), 3, [1, 0, 2]),
    (np.array([0.3, -np.inf, 0.7]), 2, [2, 0]),
]:
    print("utilities:", u, "batch_size:", bs)
    print("  rand_argmax            :", rand_argmax(u, random_state=0))
    try:
        idx = simple_batch(u.copy(), random_state=0, batch_size=bs)
        print("  simple_batch           :", idx, " demanded", demanded)
        bad |= list(idx) != demanded
    except Exception as e:
        print("  simple_batch           : raises", type(e).__name__, "-", e, " demanded", demanded)
        bad = True
print("DEFECT PRESENT" if bad else "ok")
sys.exit(1 if bad else 0)
