"""C17: `classes` does not index the result as documented (unsorted / subset).

ext_confusion_matrix documents `classes` as "List of class labels to index the
matrix. This may be used to reorder or select a subset of labels."  and
compute_vote_vectors documents V[i, j] as the votes for class j of `classes`.
Demanded: C[a, i, j] = #samples with true label classes[i] that annotator a
labelled classes[j];  V[s, j] = #votes of sample s for classes[j].
Library: ExtLabelEncoder silently sorts `classes`, so for an unsorted `classes`
the counts sit at other positions; a subset raises ValueError.
"""
import os, sys, warnings
os.environ["OMP_NUM_THREADS"] = "1"; os.environ["OPENBLAS_NUM_THREADS"] = "1"
sys.path.insert(0, os.getcwd())
import numpy as np
from skactiveml.utils import ext_confusion_matrix, compute_vote_vectors

bad = False
classes = [1, 0]
y_true = [0, 0, 1]
y_pred = [[0, np.nan], [1, 1], [1, np.nan]]
demanded = np.zeros((2, 2, 2))
for a in range(2):
    for t, p in zip(y_true, np.array(y_pred)[:, a]):
        if not np.isnan(p):
            demanded[a, classes.index(t), classes.index(int(p))] += 1
got = ext_confusion_matrix(y_true, y_pred, classes=classes)
print("ext_confusion_matrix classes=[1,0]\n demanded:\n", demanded, "\n library:\n", got)
bad |= not np.array_equal(got, demanded)

y = [["b", "b", "a", "nan"]]
cl = ["b", "a"]
dem_v = np.array([[2.0, 1.0]])
got_v = compute_vote_vectors(y, classes=cl, missing_label="nan")
print("compute_vote_vectors classes=['b','a'] demanded:", dem_v, "library:", got_v)
bad |= not np.array_equal(got_v, dem_v)

try:
    sub = ext_confusion_matrix([0, 0, 1, 2], [0, 1, 1, 2], classes=[0, 1])
    print("subset classes=[0,1]: library", sub.tolist(), "demanded [[[1,1],[0,1]]]")
    bad |= sub.tolist() != [[[1.0, 1.0], [0.0, 1.0]]]
except Exception as e:
    print("subset classes=[0,1]: raises", type(e).__name__, "-", e, " demanded [[[1,1],[0,1]]]")
    bad = True
print("DEFECT PRESENT" if bad else "ok")
sys.exit(1 if bad else 0)
