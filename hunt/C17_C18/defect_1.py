"""C18: simple_batch(method='max') overwrites the caller's utility array with NaN.

Demanded: simple_batch returns min(batch_size, #non-NaN utilities) positions of the
largest utilities of the array it is given -- for every call, also a second call
on the same array.  Library: check_array(..., dtype=float) does not copy a float64
ndarray, and the masking loop writes NaN into it, so the caller's array is
destroyed and a second call selects different / fewer / no positions.
"""
import os, sys, warnings
os.environ["OMP_NUM_THREADS"] = "1"; os.environ["OPENBLAS_NUM_THREADS"] = "1"
sys.path.insert(0, os.getcwd())
import numpy as np
from skactiveml.utils import simple_batch

u = np.array([1.0, 3.0, 2.0, 0.5])
u_orig = u.copy()
with warnings.catch_warnings(record=True) as w:
    warnings.simplefilter("always")
    first = simple_batch(u, random_state=0, batch_size=2)
    second = simple_batch(u, random_state=0, batch_size=4)
print("utilities handed in      :", u_orig)
print("first call  (batch 2)    :", first, " demanded [1 2]")
print("caller's array afterwards:", u, " demanded unchanged", u_orig)
print("second call (batch 4)    :", second, " demanded [1 2 0 3]")
print("warnings:", [str(x.message) for x in w])

# read-only float64 input (e.g. a broadcast view) cannot be processed at all
ro = np.array([1.0, 3.0, 2.0]); ro.setflags(write=False)
try:
    r = simple_batch(ro, random_state=0, batch_size=1)
    ro_ok = True
    print("read-only input          :", r)
except Exception as e:
    ro_ok = False
    print("read-only input          : raises", type(e).__name__, e)

bad = (not np.array_equal(u, u_orig, equal_nan=True)) or (list(second) != [1, 2, 0, 3]) or not ro_ok
print("DEFECT PRESENT" if bad else "ok")
sys.exit(1 if bad else 0)
