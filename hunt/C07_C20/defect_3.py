import os, sys, warnings
os.environ.setdefault("OMP_NUM_THREADS", "1")
os.environ.setdefault("OPENBLAS_NUM_THREADS", "1")
sys.path.insert(0, os.getcwd())
warnings.simplefilter("ignore")
import numpy as np
"""C07: multi-annotator strategies cannot be queried with a string label matrix,
although `missing_label` is documented as "scalar or string or np.nan or None"
and every single-annotator strategy accepts string labels.
MultiAnnotatorPoolQueryStrategy._validate_data re-checks y with
check_array(..., dtype="numeric")."""
from skactiveml.pool import RandomSampling
from skactiveml.pool.multiannotator import SingleAnnotatorWrapper

rng = np.random.RandomState(0)
X = rng.randn(6, 2)
y1 = np.array(["a", "b", "none", "none", "none", "none"])
y = np.array(
    [["a", "a"], ["b", "b"], ["none", "a"], ["none", "none"], ["none", "none"], ["b", "none"]]
)
inner = RandomSampling(missing_label="none", random_state=0)
print("single-annotator strategy with string labels ->", inner.query(X, y1))
w = SingleAnnotatorWrapper(
    RandomSampling(missing_label="none", random_state=0),
    y_aggregate=lambda y: y[:, 0],
    missing_label="none",
    random_state=0,
)
try:
    q = w.query(X, y, batch_size=2)
    print("multi-annotator wrapper with string labels ->", q.tolist())
    ok = q.shape == (2, 2) and all(y[i, j] == "none" for i, j in q)
except Exception as e:
    print("multi-annotator wrapper with string labels -> raised", type(e).__name__, ":", str(e)[:120])
    ok = False
print("demanded: (2, 2) array of pairs whose label is 'none'")
sys.exit(0 if ok else 1)
