import os, sys, warnings
os.environ.setdefault("OMP_NUM_THREADS", "1")
os.environ.setdefault("OPENBLAS_NUM_THREADS", "1")
sys.path.insert(0, os.getcwd())
warnings.simplefilter("ignore")
import numpy as np
"""C07: SingleAnnotatorWrapper(CoreSet) in the default mode (candidates=None,
annotators=None).  The wrapper passes every sample with at least one missing
annotator label as candidate, including samples that already carry a majority
label.  CoreSet (k_greedy_center) gives such labelled candidates NaN utility and,
once the unlabelled ones are used up, rand_argmax over an all-NaN row yields index
0; the wrapper then crashes (IndexError) or returns duplicate / unavailable pairs.
"""
from skactiveml.pool import CoreSet
from skactiveml.pool.multiannotator import SingleAnnotatorWrapper

rng = np.random.RandomState(0)
X = rng.randn(6, 2)
nan = np.nan
y = np.array(
    [
        [0, 0, 0],      # fully labelled
        [1, nan, 1],    # one label missing
        [1, 0, nan],    # one label missing
        [nan, 1, nan],  # two labels missing
        [nan, nan, nan],
        [1, nan, nan],
    ],
    dtype=float,
)
n_missing = int(np.isnan(y).sum())
bad = False
for kw, label in [
    (dict(), "candidates=None, annotators=None"),
    (dict(candidates=[1, 2, 3, 4, 5]), "candidates=[1..5]"),
]:
    w = SingleAnnotatorWrapper(CoreSet(random_state=0), random_state=0)
    try:
        q = w.query(X, y, batch_size=3, **kw)
        pairs = [tuple(p) for p in q.tolist()]
        print(label, "->", pairs)
        if len(set(pairs)) != 3:
            print("   duplicate pairs")
            bad = True
        if kw == {} and not all(np.isnan(y[p]) for p in pairs):
            print("   pair whose label is not missing")
            bad = True
    except Exception as e:
        print(label, "-> raised", type(e).__name__, ":", e)
        bad = True
print(f"demanded: 3 distinct pairs out of the {n_missing} pairs with missing label")
sys.exit(1 if bad else 0)
