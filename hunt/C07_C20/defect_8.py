import os, sys, warnings
os.environ.setdefault("OMP_NUM_THREADS", "1")
os.environ.setdefault("OPENBLAS_NUM_THREADS", "1")
sys.path.insert(0, os.getcwd())
warnings.simplefilter("ignore")
import numpy as np
"""C20: ParallelUtilityEstimationWrapper never hands candidate *indices* to the
wrapped strategy: it splits X[candidates] into chunks and passes the feature rows
(pool/_wrapper.py:417, 438-451).  Consequences, already with n_jobs=1:
 (a) strategies whose per-candidate utilities are independent but need the index
     mapping (ValueOfInformationEER) cannot be wrapped at all - MappingError even
     for candidates=None;
 (b) per-sample query arguments accepted by the wrapped strategy
     (`utility_weight` of length n_samples) are rejected;
 (c) for an index array of candidates that contains labelled samples the wrapper
     reports other utilities than the wrapped strategy on the same input."""
from skactiveml.pool import (
    ParallelUtilityEstimationWrapper as PW,
    ValueOfInformationEER,
    MonteCarloEER,
    UncertaintySampling,
)
from skactiveml.classifier import ParzenWindowClassifier

rng = np.random.RandomState(3)
X = rng.randn(12, 2)
y = np.full(12, np.nan)
y[:4] = [0, 1, 0, 1]
clf = ParzenWindowClassifier(classes=[0, 1], random_state=0)
bad = False

# (a)
qi, ui = ValueOfInformationEER(random_state=0).query(X, y, clf=clf, return_utilities=True)
print("(a) inner VOI-EER ->", qi)
try:
    qw, uw = PW(ValueOfInformationEER(random_state=0), n_jobs=1, random_state=0).query(
        X, y, clf=clf, return_utilities=True
    )
    print("    wrapper      ->", qw)
    if not np.allclose(ui, uw, equal_nan=True):
        bad = True
except Exception as e:
    print("    wrapper raised", type(e).__name__, ":", str(e)[:90])
    bad = True

# (b)
uwgt = rng.rand(12)
qi, ui = UncertaintySampling(random_state=0).query(X, y, clf=clf, utility_weight=uwgt, return_utilities=True)
print("(b) inner US with utility_weight ->", qi)
try:
    qw, uw = PW(UncertaintySampling(random_state=0), n_jobs=2, random_state=0).query(
        X, y, clf=clf, utility_weight=uwgt, return_utilities=True
    )
    print("    wrapper ->", qw)
    if not np.allclose(ui, uw, equal_nan=True):
        bad = True
except Exception as e:
    print("    wrapper raised", type(e).__name__, ":", str(e)[:90])
    bad = True

# (c)
rng = np.random.RandomState(0)
X = rng.randn(12, 2)
cand = np.array([0, 1, 2, 3, 5, 6, 7])  # four labelled, three unlabelled candidates
qi, ui = MonteCarloEER(random_state=0).query(X, y, clf=clf, candidates=cand, return_utilities=True)
qw, uw = PW(MonteCarloEER(random_state=0), n_jobs=1, random_state=0).query(
    X, y, clf=clf, candidates=cand, return_utilities=True
)
print("(c) inner   utilities", np.round(ui[0, cand], 4), "selects", qi)
print("    wrapper utilities", np.round(uw[0, cand], 4), "selects", qw)
if not np.allclose(ui, uw, equal_nan=True) or qi[0] != qw[0]:
    bad = True
print("demanded: identical utilities / selection for wrapper and wrapped strategy")
sys.exit(1 if bad else 0)
