import os, sys, warnings
os.environ.setdefault("OMP_NUM_THREADS", "1")
os.environ.setdefault("OPENBLAS_NUM_THREADS", "1")
sys.path.insert(0, os.getcwd())
warnings.simplefilter("ignore")
import numpy as np
"""C20: SubSamplingWrapper(exclude_non_subsample=True) shrinks X and y before
calling the wrapped strategy but forwards per-sample query arguments
(`sample_weight`, `utility_weight`) unchanged, so a call that is valid for the
wrapped strategy (and for the wrapper with exclude_non_subsample=False) raises."""
from skactiveml.pool import UncertaintySampling, SubSamplingWrapper
from skactiveml.classifier import ParzenWindowClassifier

rng = np.random.RandomState(0)
X = rng.randn(14, 2)
y = np.full(14, np.nan)
y[[0, 1, 3, 4, 7, 10]] = [0, 1, 1, 0, 1, 0]
clf = ParzenWindowClassifier(classes=[0, 1], random_state=0)
kws = {"sample_weight": rng.rand(14) + 0.5, "utility_weight": rng.rand(14)}
bad = False
for name, val in kws.items():
    kw = {name: val}
    print(name, ": inner ->", UncertaintySampling(random_state=0).query(X, y, clf=clf, **kw))
    for excl in [False, True]:
        w = SubSamplingWrapper(UncertaintySampling(random_state=0), max_candidates=3,
                               exclude_non_subsample=excl, random_state=0)
        try:
            print(f"   wrapper exclude_non_subsample={excl} ->", w.query(X, y, clf=clf, **kw))
        except Exception as e:
            print(f"   wrapper exclude_non_subsample={excl} -> raised {type(e).__name__}: {str(e)[:110]}")
            bad = True
print("demanded: the wrapper accepts the same query arguments as the wrapped strategy")
sys.exit(1 if bad else 0)
