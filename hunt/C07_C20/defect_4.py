import os, sys, warnings
os.environ.setdefault("OMP_NUM_THREADS", "1")
os.environ.setdefault("OPENBLAS_NUM_THREADS", "1")
sys.path.insert(0, os.getcwd())
warnings.simplefilter("ignore")
import numpy as np
"""C07: SingleAnnotatorWrapper assumes that the wrapped strategy returns exactly
min(batch_size, n_candidate_samples) samples.  A wrapped strategy that legally
returns fewer (SubSamplingWrapper clips the batch to its sub-sample, with a
warning) makes the wrapper raise instead of returning batch_size available pairs."""
from skactiveml.pool import RandomSampling, SubSamplingWrapper
from skactiveml.pool.multiannotator import SingleAnnotatorWrapper

rng = np.random.RandomState(0)
X = rng.randn(8, 2)
y = np.full((8, 3), np.nan)
y[0] = [0, 1, 0]
y[1] = [1, 1, np.nan]
# 19 missing pairs -> batch_size=3 must be served (the 2 sub-sampled samples alone
# offer 6 available pairs)
inner = SubSamplingWrapper(RandomSampling(random_state=0), max_candidates=2, random_state=0)
print("inner alone, batch_size=3 ->", inner.query(X, y[:, 2], batch_size=3))
w = SingleAnnotatorWrapper(inner, random_state=0)
try:
    q = w.query(X, y, batch_size=3)
    print("wrapper returned", q.tolist())
    ok = q.shape == (3, 2) and len({tuple(p) for p in q.tolist()}) == 3 and all(np.isnan(y[i, j]) for i, j in q)
except Exception as e:
    print("wrapper raised", type(e).__name__, ":", e)
    ok = False
print("demanded: 3 distinct pairs with missing label")
sys.exit(0 if ok else 1)
