import os, sys, warnings
os.environ.setdefault("OMP_NUM_THREADS", "1")
os.environ.setdefault("OPENBLAS_NUM_THREADS", "1")
sys.path.insert(0, os.getcwd())
warnings.simplefilter("ignore")
import numpy as np
"""C07/C20: SingleAnnotatorWrapper's default label aggregation ignores
`missing_label`.  With a non-NaN missing label (here -1) the missing entries take
part in the majority vote as if -1 were a class, so samples labelled by a minority
of the annotators are handed to the wrapped strategy as *unlabeled*.  The very same
data encoded with NaN gives a different ranking / selection."""
from skactiveml.pool import UncertaintySampling
from skactiveml.pool.multiannotator import SingleAnnotatorWrapper
from skactiveml.classifier import ParzenWindowClassifier

rng = np.random.RandomState(1)
X = rng.randn(10, 2)
y = np.full((10, 3), np.nan)
y[0] = [0, 0, np.nan]
y[1] = [1, 1, 1]
y[2] = [np.nan, np.nan, 1]
y[3] = [0, np.nan, np.nan]
y[4] = [np.nan, 1, np.nan]
y_m1 = np.where(np.isnan(y), -1, y).astype(int)  # same information, missing = -1


def run(y_, ml):
    w = SingleAnnotatorWrapper(
        UncertaintySampling(random_state=0, missing_label=ml),
        random_state=0,
        missing_label=ml,
    )
    clf = ParzenWindowClassifier(classes=[0, 1], missing_label=ml, random_state=0)
    q, u = w.query(X, y_, clf=clf, batch_size=3, return_utilities=True)
    # sample ranking of the first step (annotator part removed by floor)
    rank = np.floor(np.nanmax(u[0], axis=1))
    return q, rank


q_nan, r_nan = run(y, np.nan)
q_m1, r_m1 = run(y_m1, -1)
print("missing_label=nan: selection", q_nan.tolist(), "sample ranks", r_nan)
print("missing_label=-1 : selection", q_m1.tolist(), "sample ranks", r_m1)
same = np.array_equal(r_nan, r_m1, equal_nan=True) and np.array_equal(
    q_nan[:, 0], q_m1[:, 0]
)
print("demanded: identical sample ranking for both encodings;", "got identical" if same else "got DIFFERENT")
sys.exit(0 if same else 1)
