import os, sys, warnings
os.environ.setdefault("OMP_NUM_THREADS", "1")
os.environ.setdefault("OPENBLAS_NUM_THREADS", "1")
sys.path.insert(0, os.getcwd())
warnings.simplefilter("ignore")
import numpy as np
"""C20: SubSamplingWrapper(exclude_non_subsample=True) with an index array of
candidates that contains labelled samples (allowed: "indices of the samples in
(X, y)").  Sub-sampled candidates that are labelled are (a) silently dropped from
the sub-sample (the wrapped strategy sees fewer candidates than max_candidates,
their utilities are reported as -inf), (b) duplicated in the training data handed
to the wrapped strategy, and (c) if all sub-sampled candidates are labelled the
query crashes."""
from skactiveml.pool import UncertaintySampling, SubSamplingWrapper
from skactiveml.classifier import ParzenWindowClassifier

rng = np.random.RandomState(0)
X = rng.randn(10, 2)
y = np.array([0, 1, 0, 1, 1, np.nan, np.nan, np.nan, np.nan, np.nan])
cand = np.array([0, 1, 2, 3, 5, 6])  # four labelled, two unlabelled candidates
clf = ParzenWindowClassifier(classes=[0, 1], random_state=0)
inner = UncertaintySampling(random_state=0)
qi, ui = inner.query(X, y, clf=clf, candidates=cand, batch_size=4, return_utilities=True)
print("inner on all 6 candidates, batch 4 ->", qi, "(utilities finite for", int(np.isfinite(ui[0]).sum()), "candidates)")

bad = False
for seed in range(4):
    w = SubSamplingWrapper(
        UncertaintySampling(random_state=0),
        max_candidates=4,
        exclude_non_subsample=True,
        random_state=seed,
    )
    try:
        q, u = w.query(X, y, clf=clf, candidates=cand, batch_size=4, return_utilities=True)
        n_sub = int(np.isfinite(u[0]).sum())
        print(f"seed {seed}: selected {q}, sub-sample with wrapped utilities has {n_sub} members (documented: 4)")
        if n_sub != 4 or len(q) != 4:
            bad = True
    except Exception as e:
        print(f"seed {seed}: raised {type(e).__name__}: {str(e)[:100]}")
        bad = True

# (b) duplicated labelled rows: record what the wrapped strategy receives
class Spy(UncertaintySampling):
    def query(self, X, y, *a, **k):
        Spy.seen = (np.array(X), np.array(y))
        return super().query(X, y, *a, **k)

w = SubSamplingWrapper(Spy(random_state=0), max_candidates=4, exclude_non_subsample=True, random_state=1)
try:
    w.query(X, y, clf=clf, candidates=cand, batch_size=1)
except Exception:
    pass
Xs, ys = Spy.seen
n_dup = len(Xs) - len(np.unique(Xs, axis=0))
print("rows handed to the wrapped strategy:", len(Xs), "of which duplicated:", n_dup)
if n_dup:
    bad = True
print("demanded: 4 sub-sampled candidates with the wrapped strategy's utilities, 4 selected, no duplicated training rows")
sys.exit(1 if bad else 0)
