import os, sys, warnings
os.environ.setdefault("OMP_NUM_THREADS", "1")
os.environ.setdefault("OPENBLAS_NUM_THREADS", "1")
sys.path.insert(0, os.getcwd())
warnings.simplefilter("ignore")
import numpy as np
"""C07: an unsorted candidate index array together with a boolean availability
matrix (rows aligned with `candidates`, as documented) makes both multi-annotator
strategies return pairs the caller declared unavailable.  The base class sorts
`candidates` (check_indices -> np.unique) but leaves the rows of `annotators`
(and of `A_perf`) in the caller's order."""
from skactiveml.pool import RandomSampling
from skactiveml.pool.multiannotator import (
    SingleAnnotatorWrapper,
    IntervalEstimationThreshold,
)
from skactiveml.classifier.multiannotator import AnnotatorLogisticRegression

rng = np.random.RandomState(1)
X = rng.randn(8, 2)
y = np.full((8, 3), np.nan)
y[0] = [0, 0, 1]
y[1] = [1, 1, 1]

bad = False

# --- SingleAnnotatorWrapper -------------------------------------------------
cand = np.array([5, 2])  # row 0 of `annotators` belongs to sample 5, row 1 to 2
A = np.array([[True, False, False], [False, False, True]])
allowed = {(5, 0), (2, 2)}
w = SingleAnnotatorWrapper(RandomSampling(random_state=0), random_state=0)
q = w.query(X, y, candidates=cand, annotators=A, batch_size=2)
got = {tuple(p) for p in q.tolist()}
print("SingleAnnotatorWrapper: available pairs", sorted(allowed), "returned", sorted(got))
if not got <= allowed:
    bad = True

# same misalignment for A_perf of shape (n_candidates, n_annotators)
A_perf = np.array([[0.0, 0.0, 1.0], [1.0, 0.0, 0.0]])  # 5 -> annot 2, 2 -> annot 0
q = w.query(X, y, candidates=cand, batch_size=2, A_perf=A_perf)
got = {tuple(p) for p in q.tolist()}
print("SingleAnnotatorWrapper A_perf: expected", [(2, 0), (5, 2)], "returned", sorted(got))
if got != {(5, 2), (2, 0)}:
    bad = True

# --- IntervalEstimationThreshold ---------------------------------------------
A2 = np.array([[True, True, True], [False, False, False]])  # only sample 5
clf = AnnotatorLogisticRegression(classes=[0, 1], random_state=0)
q = IntervalEstimationThreshold(random_state=0).query(
    X, y, clf, candidates=cand, annotators=A2, batch_size=3
)
print("IntervalEstimationThreshold: only sample 5 is available, returned", q.tolist())
if not np.all(q[:, 0] == 5):
    bad = True

print("DEFECT PRESENT" if bad else "ok")
sys.exit(1 if bad else 0)
