"""C01 - UncertaintySampling(method="margin_sampling") (and therefore also
Falcun, which always uses margin sampling, and Clue(method="margin_sampling"))
crash with "ValueError: kth(=1) out of bounds (1)" when the classifier knows a
single class only (classes=None and all labels seen so far belong to one
class - a normal situation at the beginning of active learning).
'least_confident' and 'entropy' work on the same input.

Run from the worktree root:  python /tmp/hunt/out_C01_C02/defect_13.py
"""
import os, sys, warnings
os.environ.setdefault("OMP_NUM_THREADS", "1"); os.environ.setdefault("OPENBLAS_NUM_THREADS", "1")
sys.path.insert(0, os.getcwd())
import numpy as np
from skactiveml.pool import UncertaintySampling, Falcun, Clue
from skactiveml.classifier import ParzenWindowClassifier

warnings.simplefilter("ignore")
rng = np.random.RandomState(0)
X = rng.randn(10, 2)
y = np.full(10, np.nan)
y[:3] = 1                       # only one class observed so far
bad = False
strategies = [
    ("US least_confident", UncertaintySampling(method="least_confident", random_state=0)),
    ("US entropy", UncertaintySampling(method="entropy", random_state=0)),
    ("US margin_sampling", UncertaintySampling(method="margin_sampling", random_state=0)),
    ("Falcun", Falcun(random_state=0)),
    ("Clue margin_sampling", Clue(method="margin_sampling", random_state=0)),
]
for title, qs in strategies:
    try:
        idx = qs.query(X, y, clf=ParzenWindowClassifier(random_state=0), batch_size=2)
        res, ok = f"returned {idx}", len(set(idx.tolist())) == 2
    except Exception as e:
        res, ok = f"raised {type(e).__name__}: {e}", False
    print(f"{title:22s}: demanded 2 distinct indices out of 3..9; library {res}")
    bad |= not ok
sys.exit(1 if bad else 0)
