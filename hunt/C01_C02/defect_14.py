"""C01 - DropQuery.query with a classifier that returns learned embeddings
(`clf_embedding_flag_name`, or a tuple from `predict`) crashes as soon as the
embedding dimension differs from the input dimension: `X_cand` is overwritten by
the embeddings *before* the dropout copies are built, and these dropped-out
embeddings are then fed to `clf.predict`, which expects input samples.
Badge, Clue and ContrastiveAL work with the same classifier.

Run from the worktree root:  python /tmp/hunt/out_C01_C02/defect_14.py
"""
import os, sys, warnings
os.environ.setdefault("OMP_NUM_THREADS", "1"); os.environ.setdefault("OPENBLAS_NUM_THREADS", "1")
sys.path.insert(0, os.getcwd())
import numpy as np
from skactiveml.pool import DropQuery, Clue, Badge
from skactiveml.classifier import ParzenWindowClassifier


class EmbeddingPWC(ParzenWindowClassifier):
    """2 input features -> 3-dimensional 'learned' representation."""

    @staticmethod
    def _embed(X):
        X = np.asarray(X, dtype=float)
        return np.c_[X, X[:, :1] * X[:, 1:2]]

    def predict(self, X, return_embeddings=False):
        y_pred = super().predict(X)
        return (y_pred, self._embed(X)) if return_embeddings else y_pred

    def predict_proba(self, X, return_embeddings=False):
        P = super().predict_proba(X)
        return (P, self._embed(X)) if return_embeddings else P


warnings.simplefilter("ignore")
rng = np.random.RandomState(0)
X = rng.randn(12, 2)
y = np.full(12, np.nan)
y[:4] = [0, 1, 0, 1]
bad = False
for cls in [Badge, Clue, DropQuery]:
    qs = cls(clf_embedding_flag_name="return_embeddings", random_state=0)
    try:
        idx = qs.query(X, y, clf=EmbeddingPWC(classes=[0, 1]), batch_size=2)
        res, ok = f"returned {idx}", len(set(idx.tolist())) == 2
    except Exception as e:
        res, ok = f"raised {type(e).__name__}: {e}", False
    print(f"{cls.__name__:10s}: demanded 2 distinct indices out of 4..11; library {res}")
    bad |= not ok
sys.exit(1 if bad else 0)
