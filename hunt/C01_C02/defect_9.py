"""C01 - MonteCarloEER.query / ValueOfInformationEER.query raise a TypeError
for every SklearnClassifier whose wrapped estimator has no `sample_weight`
argument in `fit` (KNeighborsClassifier, GaussianProcessClassifier, ...), even
though no sample weights are passed.  IndexClassifierWrapper.fit always calls
`clf.fit(X, y, sample_weight)` positionally, while `SklearnClassifier.fit`
mirrors the signature of the wrapped estimator (`match_signature`).
UncertaintySampling works with the very same classifier.

Run from the worktree root:  python /tmp/hunt/out_C01_C02/defect_9.py
"""
import os, sys, warnings
os.environ.setdefault("OMP_NUM_THREADS", "1"); os.environ.setdefault("OPENBLAS_NUM_THREADS", "1")
sys.path.insert(0, os.getcwd())
import numpy as np
from sklearn.neighbors import KNeighborsClassifier
from skactiveml.pool import MonteCarloEER, ValueOfInformationEER, UncertaintySampling
from skactiveml.classifier import SklearnClassifier

warnings.simplefilter("ignore")
rng = np.random.RandomState(0)
X = rng.randn(8, 2)
y = np.array([0, 1, 0, 1, np.nan, np.nan, np.nan, np.nan])
bad = False
for qs in [UncertaintySampling(random_state=0), MonteCarloEER(random_state=0), ValueOfInformationEER(random_state=0)]:
    clf = SklearnClassifier(KNeighborsClassifier(n_neighbors=1), classes=[0, 1], random_state=0)
    try:
        idx = qs.query(X, y, clf=clf, batch_size=2)
        res, ok = f"returned {idx}", len(set(idx.tolist())) == 2
    except Exception as e:
        res, ok = f"raised {type(e).__name__}: {e}", False
    print(f"{type(qs).__name__:22s}: demanded 2 distinct indices out of 4..7; library {res}")
    bad |= not ok
sys.exit(1 if bad else 0)
