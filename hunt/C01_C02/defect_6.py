"""C01 - QueryByCommittee(method="vote_entropy").query raises
"ValueError: y contains previously unseen labels" when the committee is a
SklearnClassifier wrapping a scikit-learn ensemble (RandomForest, Bagging, ...)
and the class labels are not exactly 0..n_classes-1 (e.g. [1, 2] or strings).
The members in `ensemble.estimators_` predict in the *encoded* label space,
while the votes are counted against `ensemble.classes_` (original labels).

Run from the worktree root:  python /tmp/hunt/out_C01_C02/defect_6.py
"""
import os, sys, warnings
os.environ.setdefault("OMP_NUM_THREADS", "1"); os.environ.setdefault("OPENBLAS_NUM_THREADS", "1")
sys.path.insert(0, os.getcwd())
import numpy as np
from sklearn.ensemble import RandomForestClassifier
from skactiveml.pool import QueryByCommittee
from skactiveml.classifier import SklearnClassifier

warnings.simplefilter("ignore")
rng = np.random.RandomState(3)
X = rng.randn(12, 2)
bad = False
cases = [
    ("classes [0, 1] (control)", [0, 1], np.nan, np.array([0, 1, 0, 1] + [np.nan] * 8)),
    ("classes [1, 2]", [1, 2], np.nan, np.array([1, 2, 1, 2] + [np.nan] * 8)),
    ("classes ['a', 'b']", ["a", "b"], None, np.array(["a", "b", "a", "b"] + [None] * 8, dtype=object)),
]
for title, classes, ml, y in cases:
    qs = QueryByCommittee(method="vote_entropy", missing_label=ml, random_state=0)
    ens = SklearnClassifier(RandomForestClassifier(n_estimators=3, random_state=0),
                            classes=classes, missing_label=ml, random_state=0)
    try:
        idx = qs.query(X, y, ensemble=ens, batch_size=2)
        res, ok = f"returned {idx}", len(set(idx.tolist())) == 2 and all(i >= 4 for i in idx)
    except Exception as e:
        res, ok = f"raised {type(e).__name__}: {e}", False
    print(f"{title}: demanded 2 distinct unlabeled indices (4..11); library {res}")
    bad |= not ok
sys.exit(1 if bad else 0)
