"""C01 - GreedySamplingTarget(n_GSx_samples=0).query raises
"ValueError: Input contains NaN" in a cold start (no labels) when the
candidates are an index subset of the unlabeled samples or feature rows.

Run from the worktree root:  python /tmp/hunt/out_C01_C02/defect_5.py
"""
import os, sys, warnings
os.environ.setdefault("OMP_NUM_THREADS", "1"); os.environ.setdefault("OPENBLAS_NUM_THREADS", "1")
sys.path.insert(0, os.getcwd())
import numpy as np
from skactiveml.pool import GreedySamplingTarget
from skactiveml.regressor import NICKernelRegressor

warnings.simplefilter("ignore")
rng = np.random.RandomState(0)
X = rng.randn(8, 2)
y = np.full(8, np.nan)  # cold start
bad = False
for method in ["GSy", "GSi"]:
    for cname, cand in [("None", None), ("indices [0 2 4]", np.array([0, 2, 4])), ("feature rows X[:3]", X[:3])]:
        qs = GreedySamplingTarget(method=method, n_GSx_samples=0, random_state=0)
        try:
            idx = qs.query(X, y, reg=NICKernelRegressor(), candidates=cand, batch_size=2)
            res, ok = f"returned {idx}", len(set(idx.tolist())) == 2
        except Exception as e:
            res, ok = f"raised {type(e).__name__}: {e}".replace("\n", " ")[:90], False
        print(f"method={method} candidates={cname:18s}: demanded 2 distinct candidate indices; library {res}")
        bad |= not ok
sys.exit(1 if bad else 0)
