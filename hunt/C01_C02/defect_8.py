"""C01 - UncertaintySampling(method="expected_average_precision").query raises
"ValueError: probas are invalid. The sum over axis 1 must be one." for
perfectly valid class probabilities: `expected_average_precision` tests
`(np.sum(probas, axis=1) - 1).all()`, i.e. an *exact* floating point comparison
that fires as soon as every row sum is off by one ulp.  With a single remaining
candidate this happens for a few percent of all data sets.

Run from the worktree root:  python /tmp/hunt/out_C01_C02/defect_8.py
"""
import os, sys, warnings
os.environ.setdefault("OMP_NUM_THREADS", "1"); os.environ.setdefault("OPENBLAS_NUM_THREADS", "1")
sys.path.insert(0, os.getcwd())
import numpy as np
from skactiveml.pool import UncertaintySampling
from skactiveml.classifier import ParzenWindowClassifier

warnings.simplefilter("ignore")
X = np.array([[0.4, 1.3], [0.6, 0.8], [0.4, -0.3]])
y = np.array([0.0, 1.0, np.nan])          # a single remaining candidate: index 2
clf = ParzenWindowClassifier(classes=[0, 1, 2])
P = clf.fit(X, y).predict_proba(X[[2]])
print("class probabilities of the candidate:", P, " row sum - 1 =", P.sum(axis=1) - 1)
bad = False
for method in ["least_confident", "expected_average_precision"]:
    qs = UncertaintySampling(method=method, random_state=0)
    try:
        idx = qs.query(X, y, clf=clf, batch_size=1)
        res, ok = f"returned {idx}", idx.tolist() == [2]
    except Exception as e:
        res, ok = f"raised {type(e).__name__}: {e}", False
    print(f"method={method}: demanded [2]; library {res}")
    bad |= not ok
sys.exit(1 if bad else 0)
