"""C01 - second call on the same ProbCover object: `query` caches the pairwise
distances of the first `X` (`self.distances_`) and silently re-uses them in all
later calls (the `update` flag defaults to False and is not even documented in
the docstring).  Calling the same object with a data set of another size raises
an IndexError; with a data set of the same size the batch is computed from the
stale distances of the old data.

Run from the worktree root:  python /tmp/hunt/out_C01_C02/defect_12.py
"""
import os, sys, warnings
os.environ.setdefault("OMP_NUM_THREADS", "1"); os.environ.setdefault("OPENBLAS_NUM_THREADS", "1")
sys.path.insert(0, os.getcwd())
import numpy as np
from skactiveml.pool import ProbCover

warnings.simplefilter("ignore")
rng = np.random.RandomState(0)
X1 = rng.randn(12, 2); y1 = np.full(12, np.nan); y1[:4] = [0, 1, 0, 1]
X2 = rng.randn(15, 2); y2 = np.full(15, np.nan); y2[:3] = [0, 1, 1]
bad = False
qs = ProbCover(random_state=0)
print("1st call (12 samples):", qs.query(X1, y1, batch_size=2))
try:
    idx = qs.query(X2, y2, batch_size=2)
    res, ok = f"returned {idx}", True
except Exception as e:
    res, ok = f"raised {type(e).__name__}: {e}", False
print(f"2nd call (15 samples): demanded 2 distinct indices out of 3..14; library {res}")
bad |= not ok
# same size, different data: result must equal the one of a fresh object
X3 = rng.randn(12, 2) * 0.01
fresh = ProbCover(random_state=0).query(X3, y1, batch_size=3, return_utilities=True)
stale = qs.query(X3, y1, batch_size=3, return_utilities=True)
same = np.array_equal(fresh[1], stale[1], equal_nan=True)
print("same-size new data: utilities of a fresh object      ", fresh[1][0][4:])
print("                    utilities of the re-used object  ", stale[1][0][4:])
bad |= not same
sys.exit(1 if bad else 0)
