"""C01/C02 - FourDs.query returns the same index several times (and an all-NaN
utility row) for batch_size >= 2 when all candidates have the same density,
e.g. duplicated points.

Run from the worktree root:  python /tmp/hunt/out_C01_C02/defect_1.py
"""
import os, sys, warnings
os.environ.setdefault("OMP_NUM_THREADS", "1"); os.environ.setdefault("OPENBLAS_NUM_THREADS", "1")
sys.path.insert(0, os.getcwd())
import numpy as np
from skactiveml.pool import FourDs
from skactiveml.classifier import MixtureModelClassifier

warnings.simplefilter("ignore")
# three labeled samples and five unlabeled ones; all samples are duplicates
X = np.ones((8, 2))
y = np.array([0, 1, 0, np.nan, np.nan, np.nan, np.nan, np.nan])
clf = MixtureModelClassifier(classes=[0, 1], random_state=0)
bad = False
for seed in range(3):
    qs = FourDs(random_state=seed)
    idx, utils = qs.query(X, y, clf=clf, batch_size=3, return_utilities=True)
    print(f"seed={seed}: demanded 3 pairwise distinct indices out of [3 4 5 6 7]; "
          f"library returned {idx}")
    print("   utilities[1] =", utils[1])
    if len(set(idx.tolist())) != len(idx):
        bad = True
    if np.isnan(utils[1][idx[1]]):
        print("   -> C02: utility of the sample chosen in step 1 is NaN")
        bad = True
sys.exit(1 if bad else 0)
