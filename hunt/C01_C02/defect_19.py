"""C01 - QueryByCommittee (default method "KL_divergence"), GreedyBALD and
BatchBALD crash with "ValueError: shape mismatch" when the committee is a
SklearnClassifier wrapping a scikit-learn ensemble, the class labels are not
0..n_classes-1 and at least one class has not been observed yet (the normal
situation in the first active learning cycles).
`_aggregate_predict_probas` compares `est.classes_` of the raw scikit-learn
members (encoded labels 0, 1, ...) with `ensemble.classes_` (original labels).

Run from the worktree root:  python /tmp/hunt/out_C01_C02/defect_19.py
"""
import os, sys, warnings
os.environ.setdefault("OMP_NUM_THREADS", "1"); os.environ.setdefault("OPENBLAS_NUM_THREADS", "1")
sys.path.insert(0, os.getcwd())
import numpy as np
from sklearn.ensemble import RandomForestClassifier
from skactiveml.pool import QueryByCommittee, GreedyBALD, BatchBALD
from skactiveml.classifier import SklearnClassifier

warnings.simplefilter("ignore")
rng = np.random.RandomState(3)
X = rng.randn(12, 2)
bad = False
cases = [
    ("classes [0, 1, 2], class 2 unseen (control)", [0, 1, 2], np.nan, np.array([0, 1, 0, 1] + [np.nan] * 8)),
    ("classes [3, 7, 11], class 11 unseen", [3, 7, 11], np.nan, np.array([3, 7, 3, 7] + [np.nan] * 8)),
    ("classes ['a','b','c'], class 'c' unseen", ["a", "b", "c"], None,
     np.array(["a", "b", "a", "b"] + [None] * 8, dtype=object)),
]
for title, classes, ml, y in cases:
    for cls in [QueryByCommittee, GreedyBALD, BatchBALD]:
        qs = cls(missing_label=ml, random_state=0)
        ens = SklearnClassifier(RandomForestClassifier(n_estimators=3, random_state=0),
                                classes=classes, missing_label=ml, random_state=0)
        try:
            idx = qs.query(X, y, ensemble=ens, batch_size=1)
            res, ok = f"returned {idx}", len(idx) == 1 and idx[0] >= 4
        except Exception as e:
            res, ok = f"raised {type(e).__name__}: {str(e)[:90]}", False
        print(f"{title} / {cls.__name__}: demanded 1 index out of 4..11; library {res}")
        bad |= not ok
sys.exit(1 if bad else 0)
