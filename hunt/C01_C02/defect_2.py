"""C01 - RegressionTreeBasedAL.query (methods "random" [default] and
"diversity") does not return a one-dimensional integer array: it returns an
array of shape (batch_size, 1) for candidates=None / index candidates and a
Python list of arrays for feature-row candidates.

Run from the worktree root:  python /tmp/hunt/out_C01_C02/defect_2.py
"""
import os, sys, warnings
os.environ.setdefault("OMP_NUM_THREADS", "1"); os.environ.setdefault("OPENBLAS_NUM_THREADS", "1")
sys.path.insert(0, os.getcwd())
import numpy as np
from sklearn.tree import DecisionTreeRegressor
from skactiveml.pool import RegressionTreeBasedAL
from skactiveml.regressor import SklearnRegressor

warnings.simplefilter("ignore")
rng = np.random.RandomState(0)
X = rng.randn(12, 2)
y = np.full(12, np.nan)
y[:4] = [0.3, -1.2, 2.0, 0.7]
bad = False
for method in ["random", "diversity", "representativity"]:
    for cname, cand in [("None", None), ("indices", np.array([4, 6, 8, 10])), ("feature rows", X[4:9])]:
        qs = RegressionTreeBasedAL(method=method, random_state=0)
        reg = SklearnRegressor(DecisionTreeRegressor(min_samples_leaf=2, random_state=0))
        idx = qs.query(X, y, reg=reg, candidates=cand, batch_size=2)
        ok = isinstance(idx, np.ndarray) and idx.ndim == 1 and idx.shape == (2,) \
            and np.issubdtype(idx.dtype, np.integer)
        print(f"method={method:16s} candidates={cname:12s}: demanded ndarray of shape (2,), "
              f"got {type(idx).__name__} of shape {np.shape(idx)}: {idx!r}".replace("\n", ""))
        bad |= not ok
sys.exit(1 if bad else 0)
