"""C01 - ProbCover.query raises a TypeError for string labels with
missing_label=None as soon as `candidates` is an index subset of the unlabeled
samples (n_classes=None, the default): `np.unique(y[~is_candidate])` sorts an
object array that contains both `None` and strings.

Run from the worktree root:  python /tmp/hunt/out_C01_C02/defect_7.py
"""
import os, sys, warnings
os.environ.setdefault("OMP_NUM_THREADS", "1"); os.environ.setdefault("OPENBLAS_NUM_THREADS", "1")
sys.path.insert(0, os.getcwd())
import numpy as np
from skactiveml.pool import ProbCover

warnings.simplefilter("ignore")
rng = np.random.RandomState(3)
X = rng.randn(12, 2)
y = np.array(["a", "b", "a", "b"] + [None] * 8, dtype=object)
bad = False
for cname, cand in [("None", None), ("indices [4 6 8 10]", np.array([4, 6, 8, 10]))]:
    qs = ProbCover(missing_label=None, random_state=0)
    try:
        idx = qs.query(X, y, candidates=cand, batch_size=2)
        res, ok = f"returned {idx}", len(set(idx.tolist())) == 2
    except Exception as e:
        res, ok = f"raised {type(e).__name__}: {e}", False
    print(f"candidates={cname}: demanded 2 distinct candidate indices; library {res}")
    bad |= not ok
sys.exit(1 if bad else 0)
