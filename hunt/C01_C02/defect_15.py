"""C01 - SubSamplingWrapper.query
(a) returns fewer than min(batch_size, n_candidates) indices whenever the
    batch is larger than the random sub-sample (with the default
    max_candidates=0.1 a pool of 15 candidates is reduced to 2, a batch of 5
    silently shrinks to 2);
(b) with exclude_non_subsample=True and feature-row candidates it crashes in a
    cold start (no labels): all unlabeled rows are removed, the wrapped
    strategy receives an empty X;
(c) with exclude_non_subsample=True per-sample query arguments of the wrapped
    strategy (sample_weight, utility_weight of shape (n_samples,)) are passed
    on unsliced although X and y are reduced -> ValueError.  The same holds for
    ParallelUtilityEstimationWrapper and utility_weight.

Run from the worktree root:  python /tmp/hunt/out_C01_C02/defect_15.py
"""
import os, sys, warnings
os.environ.setdefault("OMP_NUM_THREADS", "1"); os.environ.setdefault("OPENBLAS_NUM_THREADS", "1")
sys.path.insert(0, os.getcwd())
import numpy as np
from skactiveml.pool import (SubSamplingWrapper, ParallelUtilityEstimationWrapper,
                             UncertaintySampling, RandomSampling)
from skactiveml.classifier import ParzenWindowClassifier

warnings.simplefilter("ignore")
rng = np.random.RandomState(0)
X = rng.randn(19, 2)
y = np.full(19, np.nan)
y[:4] = [0, 1, 0, 1]
clf = ParzenWindowClassifier(classes=[0, 1])
bad = False


def attempt(title, want, f):
    global bad
    try:
        idx = f()
        res, ok = f"returned {len(idx)} indices {idx}", len(set(np.asarray(idx).tolist())) == want
    except Exception as e:
        res, ok = f"raised {type(e).__name__}: {str(e)[:110]}", False
    print(f"{title}: demanded {want} distinct candidate indices; library {res}")
    bad |= not ok


# (a)
qs = SubSamplingWrapper(RandomSampling(random_state=0), random_state=0)  # default max_candidates=0.1
attempt("(a) 15 candidates, batch_size=5, default max_candidates", 5, lambda: qs.query(X, y, batch_size=5))
# (b)
qs = SubSamplingWrapper(UncertaintySampling(random_state=0), max_candidates=3,
                        exclude_non_subsample=True, random_state=0)
y_cold = np.full(19, np.nan)
attempt("(b) cold start, feature-row candidates, exclude_non_subsample", 2,
        lambda: qs.query(X, y_cold, clf=clf, candidates=X[:6], batch_size=2))
# (c)
attempt("(c) SubSamplingWrapper(exclude_non_subsample) + sample_weight", 2,
        lambda: qs.query(X, y, clf=clf, sample_weight=np.ones(19), batch_size=2))
attempt("(c) SubSamplingWrapper(exclude_non_subsample) + utility_weight", 2,
        lambda: qs.query(X, y, clf=clf, utility_weight=np.ones(19), batch_size=2))
qp = ParallelUtilityEstimationWrapper(UncertaintySampling(random_state=0), n_jobs=2, random_state=0)
attempt("(c) ParallelUtilityEstimationWrapper + utility_weight", 1,
        lambda: qp.query(X, y, clf=clf, utility_weight=np.ones(19), batch_size=1))
sys.exit(1 if bad else 0)
