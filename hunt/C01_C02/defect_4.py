"""C01 - RegressionTreeBasedAL(method="representativity").query raises a
ValueError instead of returning a batch.

Case A: a leaf is assigned more acquisitions than it contains candidates
        (n_k is never capped by the number of candidates in the leaf)
        -> KMeans(n_clusters > n_samples).
Case B: duplicated candidates: KMeans leaves a cluster empty and the empty
        cluster is passed to pairwise_distances_argmin_min.
Case C: zero-variance fallback assigns acquisitions to nodes without
        candidates -> KMeans on an empty array.

Run from the worktree root:  python /tmp/hunt/out_C01_C02/defect_4.py
"""
import os, sys, warnings
os.environ.setdefault("OMP_NUM_THREADS", "1"); os.environ.setdefault("OPENBLAS_NUM_THREADS", "1")
sys.path.insert(0, os.getcwd())
import numpy as np
from sklearn.tree import DecisionTreeRegressor
from skactiveml.pool import RegressionTreeBasedAL
from skactiveml.regressor import SklearnRegressor

nan = np.nan
bad = False


def run(title, X, y, batch_size, tree):
    global bad
    X = np.asarray(X, dtype=float).reshape(-1, 1)
    y = np.asarray(y, dtype=float)
    want = min(batch_size, int(np.isnan(y).sum()))
    for seed in range(3):
        qs = RegressionTreeBasedAL(method="representativity", random_state=seed)
        reg = SklearnRegressor(tree)
        with warnings.catch_warnings(record=True) as w:
            warnings.simplefilter("always")
            try:
                idx = qs.query(X, y, reg=reg, batch_size=batch_size)
                res = f"returned {np.asarray(idx).tolist()}"
                ok = len(set(np.asarray(idx).ravel().tolist())) == want
            except Exception as e:
                res = f"raised {type(e).__name__}: {str(e)[:90]}"
                ok = False
        zero_var_warning = any("min_samples_leaf" in str(x.message) for x in w)
        print(f"{title} seed={seed}: demanded {want} distinct unlabeled indices; library {res}"
              f" (zero-variance warning: {zero_var_warning})")
        bad |= not ok


msl2 = DecisionTreeRegressor(min_samples_leaf=2, random_state=0)
run("A", [-0.7, 0.5, -2.8, 0.2, 0.3, -0.6], [-0.5, -0.7, -1.1, 1.7, nan, nan], 2, msl2)
run("B", [-0.3, 2.3, 1.7, 0.1, 0.1], [0.9, -1.3, -0.6, nan, nan], 2, msl2)
run("C", [-1.2, 1.2, 0.3, -1.1], [-1.2, 0.4, 0.6, nan], 1, DecisionTreeRegressor(random_state=0))
sys.exit(1 if bad else 0)
