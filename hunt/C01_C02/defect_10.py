"""C01 - CostEmbeddingAL.query raises a TypeError for a `base_regressor` whose
`fit` has no `sample_weight` argument (KNeighborsRegressor,
GaussianProcessRegressor, ...), although the documentation only demands "an
sklearn regression model implementing the methods fit and predict" and no
sample weights are passed: `_alce` calls
`regressors[i].fit(X, class_embed[y, i], sample_weight)` unconditionally.

Run from the worktree root:  python /tmp/hunt/out_C01_C02/defect_10.py
"""
import os, sys, warnings
os.environ.setdefault("OMP_NUM_THREADS", "1"); os.environ.setdefault("OPENBLAS_NUM_THREADS", "1")
sys.path.insert(0, os.getcwd())
import numpy as np
from sklearn.linear_model import Ridge
from sklearn.neighbors import KNeighborsRegressor
from skactiveml.pool import CostEmbeddingAL

warnings.simplefilter("ignore")
rng = np.random.RandomState(0)
X = rng.randn(8, 2)
y = np.array([0, 1, 0, 1, np.nan, np.nan, np.nan, np.nan])
bad = False
for br in [Ridge(), KNeighborsRegressor(n_neighbors=1)]:
    qs = CostEmbeddingAL(classes=[0, 1], base_regressor=br, random_state=0)
    try:
        idx = qs.query(X, y, batch_size=2)
        res, ok = f"returned {idx}", len(set(idx.tolist())) == 2
    except Exception as e:
        res, ok = f"raised {type(e).__name__}: {e}", False
    print(f"base_regressor={type(br).__name__:20s}: demanded 2 distinct indices out of 4..7; library {res}")
    bad |= not ok
sys.exit(1 if bad else 0)
