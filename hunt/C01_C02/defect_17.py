"""C01 - regression strategies + NICKernelRegressor on data that is not scaled
to unit range: for every sample whose kernel values to all labeled samples
underflow to 0 (rbf, default gamma: distance > ~39 for two features)
NICKernelRegressor predicts NaN (mean and std) instead of falling back to its
prior (division by N = 0 in `_estimate_ml_params`).  Consequences in the pool
strategies:
  * ExpectedModelVarianceReduction, KLDivergenceMaximization, QueryByCommittee:
    all utilities are NaN -> `simple_batch` silently returns an EMPTY batch;
  * ExpectedModelOutputChange, GreedySamplingTarget: ValueError "Input contains NaN".

Run from the worktree root:  python /tmp/hunt/out_C01_C02/defect_17.py
"""
import os, sys, warnings
os.environ.setdefault("OMP_NUM_THREADS", "1"); os.environ.setdefault("OPENBLAS_NUM_THREADS", "1")
sys.path.insert(0, os.getcwd())
import numpy as np
from sklearn.linear_model import LinearRegression
from skactiveml.pool import (ExpectedModelVarianceReduction, KLDivergenceMaximization, QueryByCommittee,
                             ExpectedModelOutputChange, GreedySamplingTarget)
from skactiveml.regressor import NICKernelRegressor, SklearnRegressor

warnings.simplefilter("ignore")
rng = np.random.RandomState(0)
X = rng.randn(10, 2) * 100          # features in the range of a few hundreds
y = np.full(10, np.nan)
y[:3] = [1.0, 2.0, 3.0]
print("NICKernelRegressor predictions for the unlabeled samples:",
      NICKernelRegressor().fit(X, y).predict(X[3:]))
bad = False
cases = [
    ("ExpectedModelVarianceReduction", ExpectedModelVarianceReduction(random_state=0), dict(reg=NICKernelRegressor())),
    ("KLDivergenceMaximization", KLDivergenceMaximization(random_state=0), dict(reg=NICKernelRegressor())),
    ("QueryByCommittee", QueryByCommittee(random_state=0),
     dict(ensemble=[NICKernelRegressor(), SklearnRegressor(LinearRegression())])),
    ("ExpectedModelOutputChange", ExpectedModelOutputChange(random_state=0), dict(reg=NICKernelRegressor())),
    ("GreedySamplingTarget", GreedySamplingTarget(random_state=0), dict(reg=NICKernelRegressor())),
]
for title, qs, kw in cases:
    try:
        idx = qs.query(X, y, batch_size=3, **kw)
        res, ok = f"returned {idx}", len(set(idx.tolist())) == 3
    except Exception as e:
        res, ok = f"raised {type(e).__name__}: {e}", False
    print(f"{title:32s}: demanded 3 distinct indices out of 3..9; library {res}")
    bad |= not ok
sys.exit(1 if bad else 0)
