"""C01 (low severity) - MonteCarloEER.query / ValueOfInformationEER.query with
the documented option fit_clf=False (already fitted classifier) never return:
with the default ignore_partial_fit=True (or any classifier without
`partial_fit`) IndexClassifierWrapper.partial_fit raises
"NotFittedError: Fitted classifier from `init` cannot be used for `partial_fit`
as it is unknown where it has been fitted on."  The docstring of `fit_clf` does
not mention any restriction; every other pool strategy accepts fit_clf=False.

Run from the worktree root:  python /tmp/hunt/out_C01_C02/defect_18.py
"""
import os, sys, warnings
os.environ.setdefault("OMP_NUM_THREADS", "1"); os.environ.setdefault("OPENBLAS_NUM_THREADS", "1")
sys.path.insert(0, os.getcwd())
import numpy as np
from skactiveml.pool import MonteCarloEER, ValueOfInformationEER, UncertaintySampling
from skactiveml.classifier import ParzenWindowClassifier

warnings.simplefilter("ignore")
rng = np.random.RandomState(0)
X = rng.randn(8, 2)
y = np.array([0, 1, 0, 1, np.nan, np.nan, np.nan, np.nan])
clf = ParzenWindowClassifier(classes=[0, 1]).fit(X, y)
bad = False
for qs in [UncertaintySampling(random_state=0), MonteCarloEER(random_state=0), ValueOfInformationEER(random_state=0)]:
    try:
        idx = qs.query(X, y, clf=clf, fit_clf=False, batch_size=2)
        res, ok = f"returned {idx}", len(set(idx.tolist())) == 2
    except Exception as e:
        res, ok = f"raised {type(e).__name__}: {e}", False
    print(f"{type(qs).__name__:22s} fit_clf=False: demanded 2 distinct indices out of 4..7; library {res}")
    bad |= not ok
sys.exit(1 if bad else 0)
