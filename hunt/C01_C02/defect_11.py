"""C01/C02 - BatchBALD.query with n_MC_samples < n_estimators (a valid value:
"int > 0") returns labeled samples / duplicates and all-NaN utility rows.
No ties are involved: as soon as the joint entropy switches from the exact to
the sampled estimate (n_classes**i > n_MC_samples), `_SampledJointEntropy.sample`
draws `S = M // K = 0` samples per member, the Monte-Carlo sum is empty and
divided by M = 0 -> every utility of the row is NaN; `rand_argmax` of an
all-NaN row returns position 0.

Run from the worktree root:  python /tmp/hunt/out_C01_C02/defect_11.py
"""
import os, sys, warnings
os.environ.setdefault("OMP_NUM_THREADS", "1"); os.environ.setdefault("OPENBLAS_NUM_THREADS", "1")
sys.path.insert(0, os.getcwd())
import numpy as np
from sklearn.ensemble import RandomForestClassifier
from skactiveml.pool import BatchBALD
from skactiveml.classifier import SklearnClassifier

warnings.simplefilter("ignore")
rng = np.random.RandomState(0)
X = rng.randn(12, 2)
y = np.full(12, np.nan)
y[:4] = [0, 1, 0, 1]
bad = False
for n_mc in [1, 2]:
    ens = SklearnClassifier(RandomForestClassifier(n_estimators=3, random_state=0), classes=[0, 1], random_state=0)
    qs = BatchBALD(n_MC_samples=n_mc, random_state=0)
    idx, utils = qs.query(X, y, ensemble=ens, batch_size=3, return_utilities=True)
    print(f"n_MC_samples={n_mc} (3 committee members): demanded 3 distinct indices out of 4..11; library returned {idx}")
    for i in range(3):
        print(f"   utilities[{i}] = {np.round(utils[i], 3)}")
    ok = len(set(idx.tolist())) == 3 and all(i >= 4 for i in idx) and not np.isnan(utils[np.arange(3), idx]).any()
    bad |= not ok
sys.exit(1 if bad else 0)
