"""C01 - ValueOfInformationEER(consider_unlabeled=False, subtract_current=True,
normalize=True).query raises ZeroDivisionError in a cold start (no labeled
sample): `_estimate_current_error` divides the current error by the number of
evaluation samples (`err / norm`) without the `norm == 0` guard that
`_estimate_error_for_candidate` has.

Run from the worktree root:  python /tmp/hunt/out_C01_C02/defect_16.py
"""
import os, sys, warnings
os.environ.setdefault("OMP_NUM_THREADS", "1"); os.environ.setdefault("OPENBLAS_NUM_THREADS", "1")
sys.path.insert(0, os.getcwd())
import numpy as np
from skactiveml.pool import ValueOfInformationEER
from skactiveml.classifier import ParzenWindowClassifier

warnings.simplefilter("ignore")
rng = np.random.RandomState(0)
X = rng.randn(6, 2)
y = np.full(6, np.nan)          # cold start
bad = False
for normalize in [False, True]:
    qs = ValueOfInformationEER(consider_unlabeled=False, consider_labeled=True,
                               subtract_current=True, normalize=normalize, random_state=0)
    try:
        idx = qs.query(X, y, clf=ParzenWindowClassifier(classes=[0, 1]), batch_size=2)
        res, ok = f"returned {idx}", len(set(idx.tolist())) == 2
    except Exception as e:
        res, ok = f"raised {type(e).__name__}: {e}", False
    print(f"normalize={normalize}: demanded 2 distinct indices out of 0..5; library {res}")
    bad |= not ok
sys.exit(1 if bad else 0)
