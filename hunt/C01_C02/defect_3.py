"""C01 - RegressionTreeBasedAL.query (methods "random" and "diversity") returns
fewer than min(batch_size, n_candidates) indices (possibly none at all).

Case A: all leaves of the tree have zero label variance (always the case for a
        default DecisionTreeRegressor, also for min_samples_leaf=2 with tied
        labels).  The fallback spreads the batch over *all tree nodes*
        (reg.tree_.node_count, internal nodes included); acquisitions given to
        internal nodes are lost.
Case B: a leaf that holds unlabeled samples but none of the (index) candidates
        receives acquisitions; they are lost as well.

Run from the worktree root:  python /tmp/hunt/out_C01_C02/defect_3.py
"""
import os, sys, warnings
os.environ.setdefault("OMP_NUM_THREADS", "1"); os.environ.setdefault("OPENBLAS_NUM_THREADS", "1")
sys.path.insert(0, os.getcwd())
import numpy as np
from sklearn.tree import DecisionTreeRegressor
from skactiveml.pool import RegressionTreeBasedAL
from skactiveml.regressor import SklearnRegressor

warnings.simplefilter("ignore")
nan = np.nan
bad = False


def run(title, X, y, tree, batch_size, candidates=None):
    global bad
    n_cand = int(np.isnan(y).sum()) if candidates is None else len(candidates)
    want = min(batch_size, n_cand)
    for method in ["random", "diversity"]:
        for seed in range(3):
            qs = RegressionTreeBasedAL(method=method, random_state=seed)
            reg = SklearnRegressor(tree)
            idx, utils = qs.query(X, y, reg=reg, candidates=candidates,
                                  batch_size=batch_size, return_utilities=True)
            idx = np.asarray(idx).ravel()
            print(f"{title} method={method} seed={seed}: demanded {want} indices, "
                  f"library returned {len(idx)}: {idx.tolist()} (utilities shape {utils.shape})")
            bad |= len(idx) != want


# Case A1: default tree -> every leaf is pure
X = np.array([[0.5], [1.0], [-0.1], [-1.1], [-0.5], [-0.3]])
y = np.array([-1.1, -0.6, -1.0, nan, nan, nan])
run("A1 default tree   ", X, y, DecisionTreeRegressor(random_state=0), 3)

# Case A2: min_samples_leaf=2 as recommended by the library, labels tied within the leaves
X = np.array([[-0.4], [-2.1], [-2.0], [-0.5], [0.8], [-0.2], [0.2], [-0.8]])
y = np.array([-1.2, 0.6, 0.6, -1.2, nan, nan, nan, nan])
run("A2 min_samples_leaf=2", X, y, DecisionTreeRegressor(min_samples_leaf=2, random_state=0), 3)

# Case B: candidates are a subset of the unlabeled samples
X = np.array([[0.0], [0.1], [0.2], [0.3], [10.0], [10.1], [10.2], [10.3], [0.15], [10.15], [10.25]])
y = np.array([0.0, 1.0, 0.5, 0.2, 5.0, 9.0, 7.0, 6.0, nan, nan, nan])
run("B  index candidates", X, y, DecisionTreeRegressor(min_samples_leaf=2, max_depth=1, random_state=0), 1,
    candidates=np.array([8]))
sys.exit(1 if bad else 0)
