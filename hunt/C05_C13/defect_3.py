"""C13: SlidingWindowClassifier's handling of `sample_weight` depends on the
call history in an undocumented way.

(a) One partial_fit call without `sample_weight` erases the weights of *all*
    samples that are still in the window (the model is no longer a fit on the
    last `window_size` samples as they were given).
(b) After any fit/partial_fit call without `sample_weight`, a later
    partial_fit *with* `sample_weight` crashes with
    AttributeError: 'NoneType' object has no attribute 'extend'.
Demanded: the model equals a fit on the last window_size (X, y, sample_weight)
triples it was given; no call sequence of valid calls crashes.
Run from the worktree root. Exit 1 = defect present.
"""
import os
import sys
import warnings

os.environ.setdefault("OMP_NUM_THREADS", "1")
os.environ.setdefault("OPENBLAS_NUM_THREADS", "1")
sys.path.insert(0, os.getcwd())
warnings.filterwarnings("ignore")

import numpy as np
from skactiveml.classifier import (
    SlidingWindowClassifier,
    ParzenWindowClassifier,
)

rng = np.random.RandomState(0)
D = rng.randn(12, 2)
Y = np.array([0, 1] * 6, dtype=float)
W = np.linspace(0.1, 5, 12)
X_test = rng.randn(4, 2)


def make(ws=6):
    return SlidingWindowClassifier(
        ParzenWindowClassifier(classes=[0, 1]), classes=[0, 1], window_size=ws
    )


bad = False

# (a) weights silently dropped
a = make()
a.partial_fit(D[:5], Y[:5], sample_weight=W[:5])
a.partial_fit(D[5:6], Y[5:6])  # one call without weights (weight 1 implied)
expected = make().fit(D[:6], Y[:6], sample_weight=np.r_[W[:5], 1.0])
unweighted = make().fit(D[:6], Y[:6])
fa = a.predict_freq(X_test)
print("(a) expected (weights kept) :", np.round(expected.predict_freq(X_test)[:, 0], 4))
print("    observed                :", np.round(fa[:, 0], 4))
print("    fit without any weights :", np.round(unweighted.predict_freq(X_test)[:, 0], 4))
if not np.allclose(fa, expected.predict_freq(X_test)):
    bad = True
    print("    -> stored weights of the first 5 samples were discarded")

# (b) crash
b = make()
b.fit(D[:2], Y[:2])  # no sample_weight
try:
    b.partial_fit(D[2:4], Y[2:4], sample_weight=np.ones(2))
    print("(b) partial_fit with weights after fit without weights: ok")
except Exception as e:  # noqa
    bad = True
    print("(b) partial_fit with weights after fit without weights raised "
          f"{type(e).__name__}: {e}")

print("DEFECT PRESENT" if bad else "ok")
sys.exit(1 if bad else 0)
