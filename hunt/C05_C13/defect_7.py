"""C13: SklearnClassifier.partial_fit with the lazily resolved default
`classes=None` re-resolves the classes from the *current batch only*.

A later batch that does not contain every class seen so far makes the wrapper
call estimator_.partial_fit(classes=<classes of this batch>), which fails; the
wrapper then flags itself as not fitted and predicts the label distribution of
the last batch: everything learned before is lost and `classes_` shrinks.
Demanded: an incremental learner depends only on its documented history (all
batches it was given); classes resolved earlier must not be forgotten.
Run from the worktree root. Exit 1 = defect present.
"""
import os
import sys
import warnings

os.environ.setdefault("OMP_NUM_THREADS", "1")
os.environ.setdefault("OPENBLAS_NUM_THREADS", "1")
sys.path.insert(0, os.getcwd())
warnings.filterwarnings("ignore")

import numpy as np
from sklearn.naive_bayes import GaussianNB
from skactiveml.classifier import SklearnClassifier

rng = np.random.RandomState(0)
X = rng.randn(10, 2)
y = np.array([0, 1, 0, 1, 0, 1, 1, 1, 1, 1], dtype=float)

inc = SklearnClassifier(GaussianNB(), random_state=0)
inc.partial_fit(X[:6], y[:6])   # classes 0 and 1
print("after batch 1: classes_ =", inc.classes_, " is_fitted_ =", inc.is_fitted_)
inc.partial_fit(X[6:], y[6:])   # only class 1 in this batch
print("after batch 2: classes_ =", inc.classes_, " is_fitted_ =", inc.is_fitted_)

ref = GaussianNB()
ref.partial_fit(X[:6], y[:6], classes=[0.0, 1.0])
ref.partial_fit(X[6:], y[6:])
print("expected predict_proba (plain GaussianNB, same two batches):\n",
      np.round(ref.predict_proba(X[:3]), 4))
P = inc.predict_proba(X[:3])
print("observed predict_proba:\n", np.round(P, 4))

bad = (not inc.is_fitted_) or P.shape != (3, 2) \
    or not np.allclose(P, ref.predict_proba(X[:3]))
print("DEFECT PRESENT" if bad else "ok")
sys.exit(1 if bad else 0)
