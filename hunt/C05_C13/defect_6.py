"""C13 (minor): SlidingWindowClassifier.partial_fit ignores a `window_size`
changed through set_params(); the window keeps the size that was valid when
the internal deques were first created.

Demanded: the classifier equals a fit on exactly the last `window_size`
(= get_params()['window_size']) samples it was given.
Run from the worktree root. Exit 1 = defect present.
"""
import os
import sys
import warnings

os.environ.setdefault("OMP_NUM_THREADS", "1")
os.environ.setdefault("OPENBLAS_NUM_THREADS", "1")
sys.path.insert(0, os.getcwd())
warnings.filterwarnings("ignore")

import numpy as np
from skactiveml.classifier import (
    SlidingWindowClassifier,
    ParzenWindowClassifier,
)

rng = np.random.RandomState(0)
D = rng.randn(12, 2)
Y = np.array([0, 1] * 6, dtype=float)
X_test = rng.randn(4, 2)


def make(ws):
    return SlidingWindowClassifier(
        ParzenWindowClassifier(classes=[0, 1]), classes=[0, 1], window_size=ws
    )


a = make(10)
a.partial_fit(D[:10], Y[:10])
a.set_params(window_size=3)
a.partial_fit(D[10:11], Y[10:11])
ref = make(3).fit(D[8:11], Y[8:11])
print("get_params()['window_size'] :", a.get_params()["window_size"])
print("samples in the window       :", len(a.X_train_))
same = np.allclose(a.predict_freq(X_test), ref.predict_freq(X_test))
print("equals fit on last 3 samples:", same)
print("DEFECT PRESENT" if not same else "ok")
sys.exit(0 if same else 1)
