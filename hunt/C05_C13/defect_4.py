"""C13: the density-based stream strategies (StreamDensityBasedAL,
CognitiveDualQueryStrategy*) store *views* of the caller's `candidates` array
in their sliding windows (`window_`, `cognition_window_`).

Demanded: the state of a stream strategy depends only on the sequence of
query/update calls (the values it was given). If the caller re-uses one buffer
for the incoming candidate, all remembered samples change retroactively and
the strategy's decisions differ from those for the identical value sequence
passed in separate arrays.
Run from the worktree root. Exit 1 = defect present.
"""
import os
import sys
import warnings

os.environ.setdefault("OMP_NUM_THREADS", "1")
os.environ.setdefault("OPENBLAS_NUM_THREADS", "1")
sys.path.insert(0, os.getcwd())
warnings.filterwarnings("ignore")

import numpy as np
from skactiveml.classifier import ParzenWindowClassifier
from skactiveml.stream import (
    StreamDensityBasedAL,
    CognitiveDualQueryStrategyVarUn,
)

rng = np.random.RandomState(0)
X = rng.randn(60, 2)
y = (X[:, 0] > 0).astype(float)
clf = ParzenWindowClassifier(classes=[0, 1], random_state=0).fit(X[:10], y[:10])


def run(make, reuse_buffer):
    qs = make()
    buf = np.zeros((1, 2))
    decisions = []
    for t in range(10, 60):
        if reuse_buffer:
            buf[:] = X[t]
            cand = buf
        else:
            cand = X[t:t + 1].copy()
        q = qs.query(cand, clf=clf)
        decisions.append(len(q))
        qs.update(cand, q)
    return decisions, qs


bad = False
for name, make, win in [
    ("StreamDensityBasedAL",
     lambda: StreamDensityBasedAL(budget=0.3, random_state=0, window_size=20),
     "window_"),
    ("CognitiveDualQueryStrategyVarUn",
     lambda: CognitiveDualQueryStrategyVarUn(budget=0.3, random_state=0),
     "cognition_window_"),
]:
    d_sep, _ = run(make, False)
    d_buf, qs = run(make, True)
    n_distinct = len({tuple(np.asarray(r)) for r in getattr(qs, win)})
    print(f"{name}: queried {sum(d_sep)} of 50 (separate arrays) vs "
          f"{sum(d_buf)} of 50 (re-used buffer); distinct rows in "
          f"{win}: {n_distinct} of {len(getattr(qs, win))}")
    if d_sep != d_buf:
        bad = True
print("DEFECT PRESENT" if bad else "ok")
sys.exit(1 if bad else 0)
