"""C13: SlidingWindowClassifier keeps *views* of the caller's X array in its
window instead of copies.

Demanded: after a sequence of partial_fit calls the classifier equals a fit on
exactly the last `window_size` samples it was given. When the caller re-uses
one buffer for the incoming sample (x_buf[:] = new sample), every row of the
stored window silently changes to the newest sample.
Run from the worktree root. Exit 1 = defect present.
"""
import os
import sys
import warnings

os.environ.setdefault("OMP_NUM_THREADS", "1")
os.environ.setdefault("OPENBLAS_NUM_THREADS", "1")
sys.path.insert(0, os.getcwd())
warnings.filterwarnings("ignore")

import numpy as np
from skactiveml.classifier import (
    SlidingWindowClassifier,
    ParzenWindowClassifier,
)

rng = np.random.RandomState(0)
D = rng.randn(8, 2)
Y = np.array([0, 1, 0, 1, 1, 0, 1, 0], dtype=float)
X_test = rng.randn(5, 2)


def make():
    return SlidingWindowClassifier(
        ParzenWindowClassifier(classes=[0, 1]), classes=[0, 1], window_size=4
    )


# stream the samples one by one through a re-used buffer
streamed = make()
x_buf = np.zeros((1, 2))
y_buf = np.zeros(1)
for t in range(len(D)):
    x_buf[:] = D[t]
    y_buf[:] = Y[t]
    streamed.partial_fit(x_buf, y_buf)

# same history, but every call gets its own array
streamed_copy = make()
for t in range(len(D)):
    streamed_copy.partial_fit(D[t:t + 1].copy(), Y[t:t + 1].copy())

reference = make().fit(D[-4:], Y[-4:])

f_ref = reference.predict_freq(X_test)
f_copy = streamed_copy.predict_freq(X_test)
f_buf = streamed.predict_freq(X_test)
print("samples given last (expected window):\n", D[-4:])
print("window stored by the classifier:\n", np.array(streamed.X_train_))
print("fresh fit on last 4 samples   :", np.round(f_ref[:, 0], 4))
print("partial_fit, separate arrays  :", np.round(f_copy[:, 0], 4))
print("partial_fit, re-used buffer   :", np.round(f_buf[:, 0], 4))

bad = not np.allclose(f_ref, f_buf)
print("DEFECT PRESENT" if bad else "ok")
sys.exit(1 if bad else 0)
