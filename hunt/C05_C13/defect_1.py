"""C05: SingleAnnotatorWrapper.query consumes the RandomState instance that was
passed as constructor parameter `random_state`.

Demanded: get_params() is identical before and after a query, repeated
identical queries give identical results and a clone taken after the query
behaves like a clone taken before (all other pool strategies deep-copy the
RandomState before drawing from it).
Run from the worktree root. Exit 1 = defect present.
"""
import os
import sys
import warnings

os.environ.setdefault("OMP_NUM_THREADS", "1")
os.environ.setdefault("OPENBLAS_NUM_THREADS", "1")
sys.path.insert(0, os.getcwd())
warnings.filterwarnings("ignore")

import numpy as np
from sklearn.base import clone
from skactiveml.pool import RandomSampling
from skactiveml.pool.multiannotator import SingleAnnotatorWrapper

rng = np.random.RandomState(0)
X = rng.randn(12, 2)
y = np.full((12, 3), np.nan)
y[:4] = rng.randint(0, 2, (4, 3))


def state(rs):
    s = rs.get_state()
    return (s[1].tobytes(), s[2])


# reference behaviour of an ordinary pool strategy
ref_rs = np.random.RandomState(42)
ref = RandomSampling(random_state=ref_rs)
s0 = state(ref_rs)
ref.query(X, y[:, 0], batch_size=2)
print("RandomSampling        : RandomState parameter untouched:",
      state(ref_rs) == s0)

rs = np.random.RandomState(42)
qs = SingleAnnotatorWrapper(
    strategy=RandomSampling(random_state=0), random_state=rs
)
clone_before = clone(qs)
s0 = state(qs.get_params()["random_state"])
q1 = qs.query(X, y, batch_size=3)
s1 = state(qs.get_params()["random_state"])
q2 = qs.query(X, y, batch_size=3)
clone_after = clone(qs)
qb = clone_before.query(X, y, batch_size=3)
qa = clone_after.query(X, y, batch_size=3)

unchanged = s0 == s1
print("SingleAnnotatorWrapper: RandomState parameter untouched:", unchanged)
print("  1st query:", q1.tolist())
print("  2nd query:", q2.tolist(), "(identical call)")
print("  clone taken before query:", qb.tolist())
print("  clone taken after  query:", qa.tolist())

bad = (not unchanged) or not np.array_equal(q1, q2) \
    or not np.array_equal(qa, qb)
print("DEFECT PRESENT" if bad else "ok")
sys.exit(1 if bad else 0)
