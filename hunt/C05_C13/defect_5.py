"""C05 (minor): DropQuery.query(..., fit_clf=False) alters the classifier object
passed by the caller: it calls clf.predict() on it, which draws from the
classifier's fitted attribute `random_state_` (random tie breaking).

Demanded: a pool query never alters the classifier passed by the caller. After
the query the caller's classifier is in a different state than an untouched
copy, so its subsequent predictions on tied samples differ.
Run from the worktree root. Exit 1 = defect present.
"""
import os
import sys
import warnings
from copy import deepcopy

os.environ.setdefault("OMP_NUM_THREADS", "1")
os.environ.setdefault("OPENBLAS_NUM_THREADS", "1")
sys.path.insert(0, os.getcwd())
warnings.filterwarnings("ignore")

import numpy as np
from skactiveml.classifier import ParzenWindowClassifier
from skactiveml.pool import DropQuery, UncertaintySampling

rng = np.random.RandomState(0)
X = rng.randn(30, 2)
y = np.full(30, np.nan)
y[:6] = [0, 1, 2, 0, 1, 2]
# samples far away from all training data: all kernel values underflow to 0,
# the class probabilities are uniform and predict() breaks the ties randomly
X_far = 1e3 + rng.randn(12, 2)


def state(clf):
    s = clf.random_state_.get_state()
    return (s[1].tobytes(), s[2])


bad = False
for name, qs in [
    ("UncertaintySampling", UncertaintySampling(random_state=0)),
    ("DropQuery", DropQuery(random_state=0)),
]:
    clf = ParzenWindowClassifier(classes=[0, 1, 2], random_state=0).fit(X, y)
    untouched = deepcopy(clf)
    s0 = state(clf)
    qs.query(X, y, clf=clf, fit_clf=False, batch_size=2)
    same_state = state(clf) == s0
    p_after = clf.predict(X_far)
    p_ref = untouched.predict(X_far)
    print(f"{name}: clf.random_state_ unchanged: {same_state}")
    print("   predictions of untouched copy :", p_ref.tolist())
    print("   predictions of caller's clf   :", p_after.tolist())
    if not same_state or not np.array_equal(p_after, p_ref):
        bad = True
print("DEFECT PRESENT" if bad else "ok")
sys.exit(1 if bad else 0)
