"""C14: cold start (zero labels) with NadarayaWatsonRegressor.  The regressor
(kappa_0 = 0) predicts NaN when it has no labeled sample
(`_combine_params`: (0*mu_0 + 0*mu_ml) / 0).  All regression strategies that
accept it then either return an EMPTY query result (all utilities NaN are
skipped by simple_batch) or raise, so the loop cannot start from zero labels.

Run from the worktree root.
"""
import os, sys, warnings
os.environ["OMP_NUM_THREADS"] = "1"; os.environ["OPENBLAS_NUM_THREADS"] = "1"
sys.path.insert(0, os.getcwd())
import numpy as np
from skactiveml.pool import (ExpectedModelVarianceReduction,
                             KLDivergenceMaximization,
                             ExpectedModelOutputChange,
                             ExpectedModelChangeMaximization,
                             GreedySamplingTarget)
from skactiveml.regressor import NadarayaWatsonRegressor

warnings.simplefilter("ignore")
rng = np.random.RandomState(0)
X = rng.randn(8, 2).round(2)
y = np.full(8, np.nan)                         # zero labels
print("NadarayaWatsonRegressor fitted without labels predicts:",
      NadarayaWatsonRegressor().fit(X, y).predict(X[:3]).tolist())
bad = False
for qs in [ExpectedModelVarianceReduction(random_state=0),
           KLDivergenceMaximization(random_state=0),
           ExpectedModelChangeMaximization(random_state=0),
           ExpectedModelOutputChange(random_state=0),
           GreedySamplingTarget(random_state=0)]:
    try:
        q = qs.query(X, y, reg=NadarayaWatsonRegressor(), batch_size=2)
        res = f"returned {np.asarray(q).tolist()}"
        ok = len(q) == 2
    except Exception as e:
        res, ok = f"raised {e!r}"[:90], False
    print(f"{type(qs).__name__}: demanded 2 indices, {res}")
    bad |= not ok
print("DEFECT" if bad else "no defect")
sys.exit(1 if bad else 0)
