"""C14: RegressionTreeBasedAL does not label the pool in ceil(u / batch_size)
queries: with a (default) DecisionTreeRegressor whose leaves are pure, the
variance of every leaf is 0, `_calc_acquisitions_per_leaf` then spreads the
batch uniformly over ALL NODES of the tree (inner nodes and leaves without
candidates included), and acquisitions assigned to nodes that hold no
candidate are silently dropped ('random', 'diversity': fewer indices than
batch_size, possibly none at all) or crash ('representativity': KMeans on an
empty leaf).

Run from the worktree root.
"""
import os, sys, warnings, math
os.environ["OMP_NUM_THREADS"] = "1"; os.environ["OPENBLAS_NUM_THREADS"] = "1"
sys.path.insert(0, os.getcwd())
import numpy as np
from sklearn.tree import DecisionTreeRegressor
from skactiveml.pool import RegressionTreeBasedAL
from skactiveml.regressor import SklearnRegressor

warnings.simplefilter("ignore")
rng = np.random.RandomState(1)
X = rng.randn(12, 2).round(3)
y_true = (2 * X[:, 0] + 0.1 * rng.randn(12)).round(3)
bad = False
for method in ["random", "diversity", "representativity"]:
    y = np.full(12, np.nan)
    y[:2] = y_true[:2]                         # two initial labels, u = 10
    batch_size = 3
    expected = math.ceil(10 / batch_size)
    qs = RegressionTreeBasedAL(method=method, random_state=0)
    reg = SklearnRegressor(DecisionTreeRegressor(random_state=0))
    sizes, err = [], None
    for cycle in range(expected):
        try:
            q = np.asarray(qs.query(X, y, reg, batch_size=batch_size)).ravel()
        except Exception as e:
            err = repr(e)[:100]
            break
        sizes.append(len(q))
        y[q] = y_true[q]
    left = int(np.isnan(y).sum())
    print(f"method={method!r}: demanded {expected} queries of sizes [3, 3, 3, 1]"
          f" and 0 unlabeled samples left")
    print(f"    observed sizes {sizes}, unlabeled left {left}, exception {err}")
    bad |= left != 0 or err is not None

# extreme case: one unlabeled sample left, batch_size=1 -> empty query result,
# the standard loop never terminates
y = y_true.copy(); y[5] = np.nan
q = RegressionTreeBasedAL(method="random", random_state=0).query(
    X, y, SklearnRegressor(DecisionTreeRegressor(random_state=0)), batch_size=1)
print("one unlabeled sample, batch_size=1: demanded [5], observed",
      np.asarray(q).ravel().tolist())
bad |= np.asarray(q).ravel().tolist() != [5]
print("DEFECT" if bad else "no defect")
sys.exit(1 if bad else 0)
