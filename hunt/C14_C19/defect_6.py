"""C14: ValueOfInformationEER(consider_unlabeled=False, subtract_current=True,
normalize=True) cannot start the loop from zero labels: the current error is
normalised by the number of evaluated samples, which is 0 (no labeled sample,
unlabeled ones not considered) -> ZeroDivisionError.  (The simulated error in
`_estimate_error_for_candidate` guards exactly this case with `norm == 0`.)

Run from the worktree root.
"""
import os, sys, warnings
os.environ["OMP_NUM_THREADS"] = "1"; os.environ["OPENBLAS_NUM_THREADS"] = "1"
sys.path.insert(0, os.getcwd())
import numpy as np
from skactiveml.pool import ValueOfInformationEER
from skactiveml.classifier import ParzenWindowClassifier

warnings.simplefilter("ignore")
rng = np.random.RandomState(0)
X = rng.randn(6, 2)
y_true = np.array([0, 1, 0, 1, 1, 0.])
y = np.full(6, np.nan)                      # cold start: zero labels
clf = ParzenWindowClassifier(classes=[0, 1], random_state=0)
qs = ValueOfInformationEER(consider_unlabeled=False, subtract_current=True,
                           normalize=True, random_state=0)
bad = False
print("demanded: 6 successful queries that label all 6 samples")
for cycle in range(6):
    try:
        q = qs.query(X, y, clf)
    except Exception as e:
        print(f"observed: query in cycle {cycle} raised {e!r}")
        bad = True
        break
    y[q] = y_true[q]
else:
    print("observed: loop finished, labeled:", int((~np.isnan(y)).sum()))
print("DEFECT" if bad else "no defect")
sys.exit(1 if bad else 0)
