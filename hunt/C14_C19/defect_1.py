"""C19: IndexClassifierWrapper with a pre-fitted ParzenWindowClassifier and
use_speed_up=True: predict() and predict_freq() return predict_proba().

Property: enabling the precomputed-kernel speed-up for the Parzen window
classifier never changes any prediction.
Run from the worktree root.
"""
import os, sys, warnings
os.environ["OMP_NUM_THREADS"] = "1"; os.environ["OPENBLAS_NUM_THREADS"] = "1"
sys.path.insert(0, os.getcwd())
import numpy as np
from skactiveml.pool.utils import IndexClassifierWrapper
from skactiveml.classifier import ParzenWindowClassifier

warnings.simplefilter("ignore")
rng = np.random.RandomState(0)
X = rng.randn(10, 2)
y = np.array([0, 1, 0, 1, np.nan, np.nan, 1, 0, np.nan, np.nan])
clf = ParzenWindowClassifier(classes=[0, 1]).fit(X, y)  # fitted classifier
idx = np.arange(4)

plain = IndexClassifierWrapper(clf, X, y, use_speed_up=False)
fast = IndexClassifierWrapper(clf, X, y, use_speed_up=True)
fast.precompute(np.arange(10), np.arange(10))

bad = False
for meth in ["predict", "predict_proba", "predict_freq"]:
    ref = getattr(clf, meth)(X[idx])
    a = getattr(plain, meth)(idx)
    b = getattr(fast, meth)(idx)
    ok = np.shape(b) == np.shape(ref) and np.allclose(b, ref)
    print(f"{meth}: reference {np.round(ref, 3).tolist()}")
    print(f"   use_speed_up=False -> {np.round(a, 3).tolist()}")
    print(f"   use_speed_up=True  -> {np.round(b, 3).tolist()}   {'ok' if ok else 'WRONG'}")
    bad |= not ok
print("DEFECT" if bad else "no defect")
sys.exit(1 if bad else 0)
