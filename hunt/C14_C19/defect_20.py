"""C14 (query does not succeed): ExpectedModelChangeMaximization with an
integer `n_train` >= 2 (documented: "The total size of a bootstrap if of type
int. Must be greater or equal to 1") raises on every query.
`_bootstrap_estimators` checks
    elif isinstance(n_train, float) and n_train <= 0 or n_train > 1:
which, by operator precedence, rejects every int > 1.

Run from the worktree root.
"""
import os, sys, warnings
os.environ["OMP_NUM_THREADS"] = "1"; os.environ["OPENBLAS_NUM_THREADS"] = "1"
sys.path.insert(0, os.getcwd())
import numpy as np
from sklearn.linear_model import LinearRegression
from skactiveml.pool import ExpectedModelChangeMaximization
from skactiveml.regressor import SklearnRegressor

warnings.simplefilter("ignore")
rng = np.random.RandomState(0)
X = rng.randn(8, 2)
y = np.full(8, np.nan); y[:3] = [0.1, 1.2, 0.5]
bad = False
for n_train in [0.5, 1, 2, 5]:
    qs = ExpectedModelChangeMaximization(n_train=n_train, random_state=0)
    try:
        res = qs.query(X, y, SklearnRegressor(LinearRegression())).tolist()
    except Exception as e:
        res = f"raised {type(e).__name__}: {e}"[:110]
        bad = True
    print(f"n_train={n_train!r} ->", res)
print("DEFECT" if bad else "no defect")
sys.exit(1 if bad else 0)
