"""C14 (state kept between cycles): ProbCover caches `distances_` and
`delta_max_` of the first `X` it sees and silently re-uses them in every later
query (the refreshing `update` argument is undocumented and False by default).
 (a) inside SubSamplingWrapper(exclude_non_subsample=True) the wrapped
     strategy receives a different (smaller/larger) `X` in every cycle, so the
     second or third query of an ordinary loop raises IndexError;
 (b) the same happens when the strategy object is re-used for a second pool.

Run from the worktree root.
"""
import os, sys, warnings, math
os.environ["OMP_NUM_THREADS"] = "1"; os.environ["OPENBLAS_NUM_THREADS"] = "1"
sys.path.insert(0, os.getcwd())
import numpy as np
from skactiveml.pool import ProbCover, SubSamplingWrapper

warnings.simplefilter("ignore")
rng = np.random.RandomState(0)
X = rng.randn(9, 2)
y_true = rng.choice([0., 1.], 9)
bad = False

# (a) one ordinary loop, batch_size=1
y = np.full(9, np.nan)
y[:2] = y_true[:2]
qs = SubSamplingWrapper(ProbCover(random_state=0), max_candidates=0.5,
                        exclude_non_subsample=True, random_state=0)
res = "ok"
for cycle in range(7):                           # u = 7
    try:
        q = qs.query(X, y, batch_size=1)
    except Exception as e:
        res = f"cycle {cycle} raised {type(e).__name__}: {e}"[:110]
        bad = True
        break
    y[q] = y_true[q]
print("(a) demanded: 7 successful queries; observed:", res)

# (b) second pool with the same strategy object
qs = ProbCover(random_state=0)
print("(b) first pool :", qs.query(X, np.full(9, np.nan), batch_size=2))
X2 = rng.randn(12, 2)
try:
    print("    second pool:", qs.query(X2, np.full(12, np.nan), batch_size=2))
except Exception as e:
    print(f"    second pool: raised {type(e).__name__}: {e}"[:110])
    bad = True
print("DEFECT" if bad else "no defect")
sys.exit(1 if bad else 0)
