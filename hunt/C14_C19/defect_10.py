"""C14: regression strategies + the library's kernel regressors on features
that are not tightly scaled.  NICKernelRegressor / NadarayaWatsonRegressor
compute mu_ml = K @ y / N; for a sample that is far from all labeled samples
the rbf kernel underflows, N == 0 and the prediction is NaN (instead of the
prior).  The utilities of all such candidates are NaN, `simple_batch` drops
NaN candidates, and the query returns too few (here: zero) indices, or the
strategy raises.  The standard loop therefore never finishes.

Run from the worktree root.
"""
import os, sys, warnings
os.environ["OMP_NUM_THREADS"] = "1"; os.environ["OPENBLAS_NUM_THREADS"] = "1"
sys.path.insert(0, os.getcwd())
import numpy as np
from skactiveml.pool import (ExpectedModelVarianceReduction,
                             KLDivergenceMaximization,
                             ExpectedModelOutputChange,
                             ExpectedModelChangeMaximization,
                             GreedySamplingTarget)
from skactiveml.regressor import NICKernelRegressor

warnings.simplefilter("ignore")
rng = np.random.RandomState(0)
X = (rng.randn(8, 2) * 100).round(1)          # e.g. features measured in cm
y_true = 0.02 * X[:, 0]
y = np.full(8, np.nan)
y[:2] = y_true[:2]
print("NICKernelRegressor predictions:",
      NICKernelRegressor().fit(X, y).predict(X).round(2).tolist())
bad = False
for qs in [ExpectedModelVarianceReduction(random_state=0),
           KLDivergenceMaximization(random_state=0),
           ExpectedModelChangeMaximization(random_state=0),
           ExpectedModelOutputChange(random_state=0),
           GreedySamplingTarget(random_state=0)]:
    try:
        q = qs.query(X, y, reg=NICKernelRegressor(), batch_size=2)
        res = f"returned {np.asarray(q).tolist()}"
        ok = len(q) == 2 and np.isnan(y[q]).all()
    except Exception as e:
        res, ok = f"raised {e!r}"[:90], False
    print(f"{type(qs).__name__}: demanded 2 unlabeled indices, {res}")
    bad |= not ok
print("DEFECT" if bad else "no defect")
sys.exit(1 if bad else 0)
