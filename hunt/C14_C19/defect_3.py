"""C19: IndexClassifierWrapper with native partial_fit: a partial_fit batch
whose labeled samples all have weight zero throws the fitted model away.

Retraining from scratch on the same (sample, label, weight) multiset works
(the zero-weight sample simply does not count); the wrapper afterwards
predicts the label frequencies of the last batch only.
Run from the worktree root.
"""
import os, sys, warnings
os.environ["OMP_NUM_THREADS"] = "1"; os.environ["OPENBLAS_NUM_THREADS"] = "1"
sys.path.insert(0, os.getcwd())
import numpy as np
from sklearn.naive_bayes import MultinomialNB
from skactiveml.pool.utils import IndexClassifierWrapper
from skactiveml.classifier import SklearnClassifier

warnings.simplefilter("ignore")
X = np.array([[1, 2], [2, 1], [3, 1], [.5, .5], [1, 4], [2, 2], [4, 1.]])
y = np.array([0, 1, 2, 0, 1, 2, 0])
sw = np.array([1, 1, 1, 1, 1, 1, 0.])      # sample 6 has weight zero
clf = SklearnClassifier(MultinomialNB(), classes=[0, 1, 2], missing_label=-1)

w = IndexClassifierWrapper(clf, X, y, sw, missing_label=-1,
                           ignore_partial_fit=False)
w.fit([0, 1, 2, 3, 4, 5])                  # all classes seen
before = w.predict_proba(np.arange(7))
w.partial_fit([6])                         # label 0, weight 0
got = w.predict_proba(np.arange(7))

ref = SklearnClassifier(MultinomialNB(), classes=[0, 1, 2], missing_label=-1)
ref.fit(X, y, sw)
want = ref.predict_proba(X)
print("retrained from scratch (all 7 samples, weights 1,1,1,1,1,1,0):\n",
      np.round(want, 3))
print("wrapper before the zero-weight partial_fit:\n", np.round(before, 3))
print("wrapper after  the zero-weight partial_fit:\n", np.round(got, 3))
print("wrapped classifier still fitted:", w.clf_.is_fitted_)
bad = not np.allclose(got, want, atol=1e-6)
print("DEFECT" if bad else "no defect")
sys.exit(1 if bad else 0)
