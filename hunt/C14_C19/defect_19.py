"""C14 (query does not succeed): MonteCarloEER.query(X, y, clf,
sample_weight=w, X_eval=X_eval) - i.e. training weights plus an evaluation set
but no `sample_weight_eval` (documented default None) - raises:
`_concatenate_samples` does np.concatenate([w_full, sample_weight_eval]) with
sample_weight_eval=None.

Run from the worktree root.
"""
import os, sys, warnings
os.environ["OMP_NUM_THREADS"] = "1"; os.environ["OPENBLAS_NUM_THREADS"] = "1"
sys.path.insert(0, os.getcwd())
import numpy as np
from skactiveml.pool import MonteCarloEER
from skactiveml.classifier import ParzenWindowClassifier

warnings.simplefilter("ignore")
rng = np.random.RandomState(0)
X = rng.randn(8, 2)
y = np.full(8, np.nan); y[:3] = [0, 1, 0]
X_eval = rng.randn(4, 2)
clf = ParzenWindowClassifier(classes=[0, 1])
bad = False
for kw in [dict(X_eval=X_eval),
           dict(sample_weight=np.ones(8)),
           dict(sample_weight=np.ones(8), X_eval=X_eval,
                sample_weight_eval=np.ones(4)),
           dict(sample_weight=np.ones(8), X_eval=X_eval)]:
    try:
        res = MonteCarloEER(random_state=0).query(X, y, clf, **kw).tolist()
    except Exception as e:
        res = f"raised {type(e).__name__}: {e}"[:100]
        bad = True
    print(sorted(kw), "->", res)
print("DEFECT" if bad else "no defect")
sys.exit(1 if bad else 0)
