"""C14: QueryByCommittee(method='KL_divergence') (the default) with a wrapped
sklearn bagging ensemble raises in the middle of the loop whenever the class
labels are not exactly 0..K-1 (e.g. 1/2/3, 10/20/30 or strings) and a
committee member has not yet seen every class: `_aggregate_predict_probas`
matches the sub-estimators' `classes_` - which sklearn's BaggingClassifier /
RandomForestClassifier store as *encoded indices* 0..k-1 - against the
ensemble's real class labels.  (With labels 0/1/2 the loop runs through, but
only because the wrong matching happens to produce index-compatible shapes.)
GreedyBALD / BatchBALD inherit the same helper, and method='vote_entropy'
counts the sub-estimators' encoded votes against the real class labels.

Run from the worktree root.
"""
import os, sys, warnings
os.environ["OMP_NUM_THREADS"] = "1"; os.environ["OPENBLAS_NUM_THREADS"] = "1"
sys.path.insert(0, os.getcwd())
import numpy as np
from sklearn.ensemble import BaggingClassifier
from sklearn.tree import DecisionTreeClassifier
from sklearn.linear_model import LogisticRegression
from skactiveml.pool import QueryByCommittee, GreedyBALD
from skactiveml.classifier import ParzenWindowClassifier, SklearnClassifier

warnings.simplefilter("ignore")
rng = np.random.RandomState(0)
X = rng.randn(9, 2)
code = np.array([0, 1, 2, 0, 1, 2, 0, 1, 2])


def run(method, ensemble_factory, names, ml):
    y_true = np.array([names[c] for c in code])
    if y_true.dtype.kind == "U":
        y_true = y_true.astype("U3")
    y = np.full(9, ml, dtype=y_true.dtype)
    y[0] = y_true[0]                            # one initial label, u = 8
    if method == "GreedyBALD":
        qs = GreedyBALD(missing_label=ml, random_state=0)
    else:
        qs = QueryByCommittee(method=method, missing_label=ml, random_state=0)
    for cycle in range(4):
        try:
            q = qs.query(X, y, ensemble=ensemble_factory(names, ml),
                         batch_size=2)
        except Exception as e:
            return f"cycle {cycle} raised {type(e).__name__}: {e}"[:120]
        y[q] = y_true[q]
    return "ok, all labeled" if not (y == ml).any() else "not exhausted"


def committee(names, ml):
    return [ParzenWindowClassifier(classes=list(names), missing_label=ml),
            SklearnClassifier(LogisticRegression(), classes=list(names),
                              missing_label=ml, random_state=0)]


def bagging(names, ml):
    return SklearnClassifier(
        BaggingClassifier(DecisionTreeClassifier(random_state=0),
                          n_estimators=3, random_state=0),
        classes=list(names), missing_label=ml, random_state=0)


bad = False
print("demanded: 4 successful queries (u = 8, batch_size = 2), all labeled")
for names, ml in [([0, 1, 2], -1), ([1, 2, 3], -1), ([10., 20., 30.], np.nan),
                  (["aa", "bb", "cc"], "nan")]:
    for method in ["KL_divergence", "vote_entropy", "GreedyBALD"]:
        r = run(method, bagging, names, ml)
        print(f"{method:14s} labels {names}: {r}")
        bad |= not r.startswith("ok")
print("DEFECT" if bad else "no defect")
sys.exit(1 if bad else 0)
