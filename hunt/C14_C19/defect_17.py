"""C14: EpistemicUncertaintySampling with a wrapped LogisticRegression returns
an EMPTY query result once about 1100-1400 samples are labeled: the maximum
likelihood L_ml = exp(-loss) underflows to 0.0, the normalised likelihood
`_pi_h = L_theta / L_ml` is 0/0 = NaN for every candidate, and `simple_batch`
skips NaN utilities.  The remaining samples of the pool are never labeled.

Run from the worktree root.
"""
import os, sys, warnings
os.environ["OMP_NUM_THREADS"] = "1"; os.environ["OPENBLAS_NUM_THREADS"] = "1"
sys.path.insert(0, os.getcwd())
import numpy as np
from sklearn.linear_model import LogisticRegression
from skactiveml.pool import EpistemicUncertaintySampling
from skactiveml.classifier import SklearnClassifier

warnings.simplefilter("ignore")
rng = np.random.RandomState(0)
bad = False
for n in [600, 1500]:
    X = rng.rand(n, 2)
    y_true = (X[:, 0] + 0.3 * rng.randn(n) > 0.5).astype(float)
    y = y_true.copy()
    y[-3:] = np.nan                                   # 3 unlabeled samples left
    clf = SklearnClassifier(LogisticRegression(), classes=[0, 1],
                            random_state=0)
    q = EpistemicUncertaintySampling(random_state=0).query(X, y, clf,
                                                           batch_size=2)
    print(f"pool of {n} samples, 3 unlabeled, batch_size=2: "
          f"demanded 2 indices, observed {np.asarray(q).tolist()}")
    bad |= len(q) != 2
print("DEFECT" if bad else "no defect")
sys.exit(1 if bad else 0)
