"""C14: FourDs returns the same sample several times within one batch when
all candidates have the same density (e.g. the remaining unlabeled samples are
duplicates of one another): the min-max normalisation of the diversity term
divides 0 by 0, all utilities become NaN and rand_argmax then returns index 0
of the candidates again and again.

Run from the worktree root.
"""
import os, sys, warnings
os.environ["OMP_NUM_THREADS"] = "1"; os.environ["OPENBLAS_NUM_THREADS"] = "1"
sys.path.insert(0, os.getcwd())
import numpy as np
from skactiveml.pool import FourDs
from skactiveml.classifier import MixtureModelClassifier

warnings.simplefilter("ignore")
rng = np.random.RandomState(0)
X = rng.randn(10, 2).round(2)
X[7] = X[8] = X[9] = [0.5, -0.25]           # three identical samples
y_true = np.array([0, 1, 0, 1, 1, 0, 1, 0, 1, 0.])
y = y_true.copy()
y[[7, 8, 9]] = np.nan                        # ... which are the unlabeled ones
clf = MixtureModelClassifier(classes=[0, 1], random_state=0)
qs = FourDs(random_state=0)
q, u = qs.query(X, y, clf, batch_size=3, return_utilities=True)
print("demanded: one query returning the three unlabeled samples {7, 8, 9}")
print("observed: query indices", q.tolist())
print("utilities of the 2nd / 3rd batch position for the candidates:",
      u[1, 7:].tolist(), u[2, 7:].tolist())
bad = sorted(q.tolist()) != [7, 8, 9]
print("DEFECT" if bad else "no defect")
sys.exit(1 if bad else 0)
