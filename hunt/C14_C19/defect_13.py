"""C14: CostEmbeddingAL with an alternative `base_regressor` that is a valid
sklearn regressor (implements `fit` and `predict`, as documented) but whose
`fit` has no `sample_weight` parameter (KNeighborsRegressor,
GaussianProcessRegressor, ...).  The cold-start query works (random fallback),
every later query raises TypeError because `_alce` always calls
`regressor.fit(X, y, sample_weight)` - even if the user passed no weights.

Run from the worktree root.
"""
import os, sys, warnings
os.environ["OMP_NUM_THREADS"] = "1"; os.environ["OPENBLAS_NUM_THREADS"] = "1"
sys.path.insert(0, os.getcwd())
import numpy as np
from sklearn.neighbors import KNeighborsRegressor
from sklearn.gaussian_process import GaussianProcessRegressor
from skactiveml.pool import CostEmbeddingAL

warnings.simplefilter("ignore")
rng = np.random.RandomState(0)
X = rng.randn(8, 2)
y_true = np.array([0, 1, 2, 0, 1, 2, 0, 1.])
bad = False
for reg in [KNeighborsRegressor(n_neighbors=1), GaussianProcessRegressor()]:
    y = np.full(8, np.nan)
    qs = CostEmbeddingAL(classes=[0, 1, 2], base_regressor=reg, random_state=0)
    log = []
    for cycle in range(4):                      # u = 8, batch_size = 2
        try:
            q = qs.query(X, y, batch_size=2)
        except Exception as e:
            log.append(f"cycle {cycle}: raised {e!r}"[:110])
            bad = True
            break
        log.append(f"cycle {cycle}: {q.tolist()}")
        y[q] = y_true[q]
    print(type(reg).__name__, "- demanded 4 successful queries; observed:")
    for l in log:
        print("   ", l)
print("DEFECT" if bad else "no defect")
sys.exit(1 if bad else 0)
