"""C19 / C14: IndexClassifierWrapper casts label overrides to the dtype of the
`y` given at construction.  For string labels this silently truncates a class
name that is longer than every string occurring in `y` ('bird' -> 'bir'), so
fit / partial_fit with such an override fail, and with them every query of
MonteCarloEER and ValueOfInformationEER (they simulate every class of
`clf.classes` for every candidate).

Run from the worktree root.
"""
import os, sys, warnings
os.environ["OMP_NUM_THREADS"] = "1"; os.environ["OPENBLAS_NUM_THREADS"] = "1"
sys.path.insert(0, os.getcwd())
import numpy as np
from skactiveml.pool.utils import IndexClassifierWrapper
from skactiveml.pool import MonteCarloEER, ValueOfInformationEER, UncertaintySampling
from skactiveml.classifier import ParzenWindowClassifier

warnings.simplefilter("ignore")
rng = np.random.RandomState(0)
X = rng.randn(8, 2)
classes = ["bird", "cat", "dog"]
# no 'bird' observed so far -> numpy dtype of y is <U3
y = np.array(["cat", "dog", "nan", "nan", "cat", "nan", "nan", "nan"])
clf = ParzenWindowClassifier(classes=classes, missing_label="nan")
bad = False

# reference: the classifier itself handles the data and the label 'bird'
ref = ParzenWindowClassifier(classes=classes, missing_label="nan")
ref.fit(X[[0, 1, 4, 2]], ["cat", "dog", "cat", "bird"])
print("reference predict_freq:", np.round(ref.predict_freq(X[:2]), 3).tolist())

w = IndexClassifierWrapper(clf, X, y, missing_label="nan")
w.fit([0, 1, 4])
try:
    w.partial_fit([2], y=["bird"])
    got = w.predict_freq([0, 1])
    print("wrapper predict_freq  :", np.round(got, 3).tolist())
    bad |= not np.allclose(got, ref.predict_freq(X[:2]))
except Exception as e:
    print("wrapper.partial_fit([2], y=['bird']) raised:", repr(e))
    bad = True

print("UncertaintySampling query:",
      UncertaintySampling(missing_label="nan", random_state=0).query(X, y, clf))
for qs in [MonteCarloEER(missing_label="nan", random_state=0),
           ValueOfInformationEER(missing_label="nan", random_state=0)]:
    try:
        print(type(qs).__name__, "query:", qs.query(X, y, clf))
    except Exception as e:
        print(type(qs).__name__, "query raised:", repr(e))
        bad = True
print("DEFECT" if bad else "no defect")
sys.exit(1 if bad else 0)
