"""C14: UncertaintySampling(method='expected_average_precision') aborts the
active-learning loop: `expected_average_precision` compares the row sums of
predict_proba with 1 *exactly* and raises when no row sums to exactly 1.0,
which regularly happens when only few (in particular one) candidates are left.

Run from the worktree root.
"""
import os, sys, warnings, math
os.environ["OMP_NUM_THREADS"] = "1"; os.environ["OPENBLAS_NUM_THREADS"] = "1"
sys.path.insert(0, os.getcwd())
import numpy as np
from skactiveml.pool import UncertaintySampling
from skactiveml.classifier import ParzenWindowClassifier

warnings.simplefilter("ignore")
failures = []
n_runs = 0
for seed in range(30):
    rng = np.random.RandomState(seed)
    X = rng.randn(8, 2).round(3)
    y_true = rng.choice([0, 1, 2], 8).astype(float)
    y = np.full(8, np.nan)
    y[:2] = y_true[:2]
    clf = ParzenWindowClassifier(classes=[0, 1, 2], random_state=0)
    qs = UncertaintySampling(method="expected_average_precision",
                             random_state=seed)
    n_runs += 1
    for cycle in range(6):                       # u = 6, batch_size = 1
        try:
            q = qs.query(X, y, clf, batch_size=1)
        except ValueError as e:
            P = clf.fit(X, y).predict_proba(X[np.isnan(y)])
            failures.append((seed, cycle, str(e), (P.sum(axis=1) - 1).tolist()))
            break
        y[q] = y_true[q]
print(f"demanded: all {n_runs} loops label their 6 unlabeled samples in 6 queries")
print(f"observed: {len(failures)} loops aborted with an exception")
for f in failures[:5]:
    print("  seed %d, cycle %d: %s  (row sums - 1 of the remaining candidates: %s)" % f)
print("DEFECT" if failures else "no defect")
sys.exit(1 if failures else 0)
