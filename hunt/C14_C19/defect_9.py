"""C14: RegressionTreeBasedAL(method='representativity') raises in the middle
of an ordinary loop (no duplicates, min_samples_leaf=2 as recommended by the
strategy's own warning): a leaf can be assigned more acquisitions than it
holds candidates and KMeans(n_clusters=n_k) is then fitted on fewer samples
than clusters.

Run from the worktree root.
"""
import os, sys, warnings, math
os.environ["OMP_NUM_THREADS"] = "1"; os.environ["OPENBLAS_NUM_THREADS"] = "1"
sys.path.insert(0, os.getcwd())
import numpy as np
from sklearn.tree import DecisionTreeRegressor
from skactiveml.pool import RegressionTreeBasedAL
from skactiveml.regressor import SklearnRegressor

warnings.simplefilter("ignore")
rng = np.random.RandomState(1)
n, batch_size = 12, 2
X = rng.randn(n, 2).round(3)
y_true = (X[:, 0] * 2 + rng.randn(n) * 0.1).round(3)
y = np.full(n, np.nan)
init = rng.choice(n, 2, replace=False)
y[init] = y_true[init]
u = int(np.isnan(y).sum())
expected = math.ceil(u / batch_size)
qs = RegressionTreeBasedAL(method="representativity", random_state=1)
err = None
for cycle in range(expected):
    reg = SklearnRegressor(DecisionTreeRegressor(min_samples_leaf=2,
                                                 random_state=0))
    try:
        q = qs.query(X, y, reg, batch_size=batch_size)
    except Exception as e:
        err = (cycle, repr(e))
        break
    y[q] = y_true[q]
print(f"demanded: {expected} successful queries, pool exhausted")
print(f"observed: unlabeled left {int(np.isnan(y).sum())}, exception: {err}")
bad = err is not None or np.isnan(y).any()
print("DEFECT" if bad else "no defect")
sys.exit(1 if bad else 0)
