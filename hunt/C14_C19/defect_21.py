"""C19 / C14: IndexClassifierWrapper.fit always calls
`self.clf_.fit(self.X[idx], y, sample_weight)` with three positional
arguments, also when no weights are used (sample_weight=None).  For a
SklearnClassifier whose wrapped estimator has no `sample_weight` fit parameter
(KNeighborsClassifier, GaussianProcessClassifier, ...) `match_signature`
removes that parameter from `SklearnClassifier.fit`, so every fit / partial_fit
of the wrapper - and hence every query of MonteCarloEER and
ValueOfInformationEER with such a classifier - raises TypeError.
UncertaintySampling etc. work with the same classifier.

Run from the worktree root.
"""
import os, sys, warnings
os.environ["OMP_NUM_THREADS"] = "1"; os.environ["OPENBLAS_NUM_THREADS"] = "1"
sys.path.insert(0, os.getcwd())
import numpy as np
from sklearn.neighbors import KNeighborsClassifier
from skactiveml.pool.utils import IndexClassifierWrapper
from skactiveml.pool import (MonteCarloEER, ValueOfInformationEER,
                             UncertaintySampling)
from skactiveml.classifier import SklearnClassifier

warnings.simplefilter("ignore")
rng = np.random.RandomState(0)
X = rng.randn(10, 2)
y = np.array([0, 1, 0, 1, 1, 0, np.nan, np.nan, np.nan, np.nan])
clf = SklearnClassifier(KNeighborsClassifier(n_neighbors=1), classes=[0, 1],
                        random_state=0)
bad = False
ref = SklearnClassifier(KNeighborsClassifier(n_neighbors=1), classes=[0, 1],
                        random_state=0).fit(X[:6], y[:6])
print("reference predict_proba:", ref.predict_proba(X[6:8]).tolist())
try:
    w = IndexClassifierWrapper(clf, X, y).fit(np.arange(6))
    print("wrapper predict_proba  :", w.predict_proba([6, 7]).tolist())
except Exception as e:
    print(f"IndexClassifierWrapper.fit raised {type(e).__name__}: {e}")
    bad = True
for qs in [UncertaintySampling(random_state=0), MonteCarloEER(random_state=0),
           ValueOfInformationEER(random_state=0)]:
    try:
        print(type(qs).__name__, "query:", qs.query(X, y, clf).tolist())
    except Exception as e:
        print(type(qs).__name__, f"query raised {type(e).__name__}: {e}")
        bad = True
print("DEFECT" if bad else "no defect")
sys.exit(1 if bad else 0)
