"""C14: EpistemicUncertaintySampling with a wrapped LogisticRegression fails
for every labeling that is not a float/int array: `_intercept_dot` multiplies
the RAW labels with the decision values (`yz = y * z`).
 - string labels ('no'/'yes', missing_label='nan')      -> UFuncTypeError
 - missing_label=None (object array, labels 0/1)        -> TypeError
The cold-start query works, the first query with a label raises.

Run from the worktree root.
"""
import os, sys, warnings
os.environ["OMP_NUM_THREADS"] = "1"; os.environ["OPENBLAS_NUM_THREADS"] = "1"
sys.path.insert(0, os.getcwd())
import numpy as np
from sklearn.linear_model import LogisticRegression
from skactiveml.pool import EpistemicUncertaintySampling, UncertaintySampling
from skactiveml.classifier import SklearnClassifier

warnings.simplefilter("ignore")
rng = np.random.RandomState(0)
X = rng.randn(6, 2)
code = np.array([0, 1, 0, 1, 1, 0])
bad = False
for classes, ml, dtype in [([0, 1], np.nan, float),
                           (["no", "yes"], "nan", "U3"),
                           ([0, 1], None, object)]:
    y_true = np.array([classes[c] for c in code], dtype=dtype)
    for QS in [UncertaintySampling, EpistemicUncertaintySampling]:
        y = np.full(6, ml, dtype=dtype)
        qs = QS(missing_label=ml, random_state=0)
        res = "ok, all 6 labeled in 6 queries"
        for cycle in range(6):
            clf = SklearnClassifier(LogisticRegression(), classes=classes,
                                    missing_label=ml, random_state=0)
            try:
                q = qs.query(X, y, clf)
            except Exception as e:
                res = f"cycle {cycle} raised {type(e).__name__}: {e}"[:100]
                bad = True
                break
            y[q] = y_true[q]
        print(f"classes={classes}, missing_label={ml!r}: {QS.__name__}: {res}")
print("DEFECT" if bad else "no defect")
sys.exit(1 if bad else 0)
