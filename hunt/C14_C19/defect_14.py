"""C14: QueryByCommittee with string class labels.
 method='vote_entropy' and method='variation_ratios' raise on every query:
     `vote_entropy` / `variation_ratios` push the (string) votes through
     sklearn's check_array(dtype='numeric').
The same loops with the labels 0/1/2 instead of 'aa'/'bb'/'cc' run through.

Run from the worktree root.
"""
import os, sys, warnings
os.environ["OMP_NUM_THREADS"] = "1"; os.environ["OPENBLAS_NUM_THREADS"] = "1"
sys.path.insert(0, os.getcwd())
import numpy as np
from sklearn.ensemble import BaggingClassifier
from sklearn.tree import DecisionTreeClassifier
from sklearn.linear_model import LogisticRegression
from skactiveml.pool import QueryByCommittee
from skactiveml.classifier import ParzenWindowClassifier, SklearnClassifier

warnings.simplefilter("ignore")
rng = np.random.RandomState(0)
X = rng.randn(9, 2)
code = np.array([0, 1, 2, 0, 1, 2, 0, 1, 2])


def run(method, ensemble_factory, names, ml):
    y_true = np.array([names[c] for c in code])
    if y_true.dtype.kind == "U":
        y_true = y_true.astype("U3")
    y = np.full(9, ml, dtype=y_true.dtype)
    y[0] = y_true[0]                            # one initial label, u = 8
    qs = QueryByCommittee(method=method, missing_label=ml, random_state=0)
    for cycle in range(4):
        try:
            q = qs.query(X, y, ensemble=ensemble_factory(names, ml),
                         batch_size=2)
        except Exception as e:
            return f"cycle {cycle} raised {type(e).__name__}: {e}"[:120]
        y[q] = y_true[q]
    return "ok, all labeled" if not (y == ml).any() else "not exhausted"


def committee(names, ml):
    return [ParzenWindowClassifier(classes=list(names), missing_label=ml),
            SklearnClassifier(LogisticRegression(), classes=list(names),
                              missing_label=ml, random_state=0)]


def bagging(names, ml):
    return SklearnClassifier(
        BaggingClassifier(DecisionTreeClassifier(random_state=0),
                          n_estimators=3, random_state=0),
        classes=list(names), missing_label=ml, random_state=0)


bad = False
for method, fac in [("vote_entropy", committee),
                    ("variation_ratios", committee)]:
    r_int = run(method, fac, [0, 1, 2], -1)
    r_str = run(method, fac, ["aa", "bb", "cc"], "nan")
    print(f"{method:17s} labels 0/1/2: {r_int}")
    print(f"{method:17s} labels aa/bb/cc: {r_str}")
    bad |= not r_str.startswith("ok")
print("DEFECT" if bad else "no defect")
sys.exit(1 if bad else 0)
