"""C14 (lower priority): classifiers that infer their classes (`classes=None`,
the documented default) know a single class as long as all labels obtained so
far belong to one class - an ordinary situation at the start of a loop.
UncertaintySampling(method='margin_sampling'), Falcun and FourDs then raise
(np.partition / index -2 on a probability matrix with one column), while e.g.
'least_confident', 'entropy', Badge, Clue, MonteCarloEER run through.

Run from the worktree root.
"""
import os, sys, warnings
os.environ["OMP_NUM_THREADS"] = "1"; os.environ["OPENBLAS_NUM_THREADS"] = "1"
sys.path.insert(0, os.getcwd())
import numpy as np
from skactiveml.pool import UncertaintySampling, Falcun, FourDs, Badge
from skactiveml.classifier import ParzenWindowClassifier, MixtureModelClassifier

warnings.simplefilter("ignore")
rng = np.random.RandomState(0)
X = rng.randn(10, 2)
y_true = np.array([0, 0, 0, 1, 1, 0, 1, 2, 2, 1.])
bad = False
cases = [
    ("least_confident", UncertaintySampling(random_state=0), ParzenWindowClassifier),
    ("Badge", Badge(random_state=0), ParzenWindowClassifier),
    ("margin_sampling", UncertaintySampling(method="margin_sampling", random_state=0), ParzenWindowClassifier),
    ("Falcun", Falcun(random_state=0), ParzenWindowClassifier),
    ("FourDs", FourDs(random_state=0), MixtureModelClassifier),
]
for name, qs, Clf in cases:
    y = np.full(10, np.nan)
    y[:2] = y_true[:2]                     # both initial labels are class 0
    res = "ok, pool exhausted after 4 queries"
    for cycle in range(4):
        try:
            q = qs.query(X, y, Clf(random_state=0), batch_size=2)
        except Exception as e:
            res = f"cycle {cycle} raised {type(e).__name__}: {e}"
            bad = True
            break
        y[q] = y_true[q]
    print(f"{name:16s}: {res}")
print("DEFECT" if bad else "no defect")
sys.exit(1 if bad else 0)
