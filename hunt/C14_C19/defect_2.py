"""C19: IndexClassifierWrapper around a classifier with a native partial_fit
(SklearnClassifier(MultinomialNB), ignore_partial_fit=False): when the
samples of the first `fit` do not cover all of `classes`, every later
`partial_fit` destroys the model (falls back to the label frequencies of the
last batch) instead of behaving like a classifier retrained on all samples.

Run from the worktree root.
"""
import os, sys, warnings
os.environ["OMP_NUM_THREADS"] = "1"; os.environ["OPENBLAS_NUM_THREADS"] = "1"
sys.path.insert(0, os.getcwd())
import numpy as np
from sklearn.naive_bayes import MultinomialNB
from skactiveml.pool.utils import IndexClassifierWrapper
from skactiveml.pool import MonteCarloEER
from skactiveml.classifier import SklearnClassifier

warnings.simplefilter("ignore")
X = np.array([[1, 2], [2, 1], [3, 1], [.5, .5], [1, 4], [2, 2], [4, 1.]])
y = np.array([0, 2, 2, -1, 0, -1, -1])          # class 1 not observed yet
clf = SklearnClassifier(MultinomialNB(), classes=[0, 1, 2], missing_label=-1)

w = IndexClassifierWrapper(clf, X, y, missing_label=-1,
                           ignore_partial_fit=False)   # use native partial_fit
w.fit([0, 1, 2, 4], set_base_clf=True)
w.partial_fit([6], y=[0], use_base_clf=True)
got = w.predict_proba(np.arange(7))

ref = SklearnClassifier(MultinomialNB(), classes=[0, 1, 2], missing_label=-1)
ref.fit(X[[0, 1, 2, 4, 6]], [0, 2, 2, 0, 0])
want = ref.predict_proba(X)

print("retrained from scratch on {0,1,2,4,6}:\n", np.round(want, 3))
print("wrapper fit({0,1,2,4}) + partial_fit({6}):\n", np.round(got, 3))
bad = not np.allclose(got, want, atol=1e-6)

# The same through the public strategy: utilities must not depend on whether
# the (exact) native partial_fit or refitting is used.
u = []
for ipf in [True, False]:
    qs = MonteCarloEER(missing_label=-1, random_state=0)
    _, util = qs.query(X, y, clf, ignore_partial_fit=ipf,
                       return_utilities=True)
    u.append(util[0])
    print(f"MonteCarloEER utilities ignore_partial_fit={ipf}:",
          np.round(util[0], 4))
bad |= not np.allclose(u[0], u[1], equal_nan=True, atol=1e-6)
print("DEFECT" if bad else "no defect")
sys.exit(1 if bad else 0)
