"""C14: EpistemicUncertaintySampling with a ParzenWindowClassifier returns an
EMPTY query result once the class frequency estimates of the candidates get
large (n + p > ~1075, e.g. the last cycles of a pool of 2500 samples with
min-max scaled features).  `_pwc_ml_0/_pwc_ml_1` form
theta**p * (1-theta)**n / ((p/(n+p))**p * (n/(n+p))**n), numerator and
denominator underflow to 0, the utility is NaN and `simple_batch` skips all
NaN candidates -> the loop never labels the remaining samples.

Run from the worktree root.
"""
import os, sys, warnings
os.environ["OMP_NUM_THREADS"] = "1"; os.environ["OPENBLAS_NUM_THREADS"] = "1"
sys.path.insert(0, os.getcwd())
import numpy as np
from skactiveml.pool import EpistemicUncertaintySampling
from skactiveml.classifier import ParzenWindowClassifier

warnings.simplefilter("ignore")
rng = np.random.RandomState(0)
n = 2500
X = rng.rand(n, 2)                                   # features in [0, 1]^2
y_true = (X[:, 0] + 0.3 * rng.randn(n) > 0.5).astype(float)
y = y_true.copy()
y[-5:] = np.nan                                      # 5 unlabeled samples left
clf = ParzenWindowClassifier(classes=[0, 1])
print("class frequency estimates of the candidates:\n",
      clf.fit(X, y).predict_freq(X[-5:]).round(1))
q, u = None, None
q = EpistemicUncertaintySampling(random_state=0).query(X, y, clf, batch_size=2)
print("demanded: 2 of the indices", list(range(n - 5, n)))
print("observed:", np.asarray(q).tolist())
bad = len(q) != 2
print("DEFECT" if bad else "no defect")
sys.exit(1 if bad else 0)
