"""C12 - NICKernelRegressor (and NadarayaWatsonRegressor): weights of unlabeled
samples must be irrelevant, but with no labeled sample the mere presence of
`sample_weight` turns a valid (prior-only) fit into a ValueError, because the
check `np.sum(weights_of_labeled) == 0` is also true for the empty selection."""
import os, sys, warnings
os.environ.setdefault("OMP_NUM_THREADS", "1"); os.environ.setdefault("OPENBLAS_NUM_THREADS", "1")
sys.path.insert(0, os.getcwd())
warnings.filterwarnings("ignore")
import numpy as np
from skactiveml.regressor import NICKernelRegressor

X = np.array([[0.0], [1.0], [2.0]])
y = np.full(3, np.nan)
ref = NICKernelRegressor().fit(X, y).predict(X, return_std=True)
print("fit(X, y_all_missing)                      -> predict:", ref[0].tolist(), "std:", ref[1].round(3).tolist())
bad = False
try:
    out = NICKernelRegressor().fit(X, y, sample_weight=np.ones(3)).predict(X, return_std=True)
    print("fit(X, y_all_missing, sample_weight=ones)  -> predict:", out[0].tolist(), "std:", out[1].round(3).tolist())
    bad = not (np.allclose(out[0], ref[0]) and np.allclose(out[1], ref[1]))
except Exception as e:
    print("fit(X, y_all_missing, sample_weight=ones)  -> raises", type(e).__name__ + ":", e)
    bad = True
print("demanded: the same (prior) model in both cases")
print("DEFECT PRESENT" if bad else "ok")
sys.exit(1 if bad else 0)
