"""C12 - SklearnClassifier.partial_fit: a batch that contains no label is meant to
leave the fitted model untouched, but it overwrites `_label_counts` (with
zeros) before returning.  Whenever predict_proba has to fall back to the label
counts (the wrapped estimator returns NaN, e.g. GaussianNB in a stream that
started with a single labeled sample and has a declared, not yet observed
class), the purely unlabeled batch changes the predictions."""
import os, sys, warnings
os.environ.setdefault("OMP_NUM_THREADS", "1"); os.environ.setdefault("OPENBLAS_NUM_THREADS", "1")
sys.path.insert(0, os.getcwd())
warnings.filterwarnings("ignore")
import numpy as np
from sklearn.naive_bayes import GaussianNB
from skactiveml.classifier import SklearnClassifier

Xq = np.array([[0.2], [0.7]])
a = SklearnClassifier(GaussianNB(), classes=[0, 1, 2], random_state=0)
b = SklearnClassifier(GaussianNB(), classes=[0, 1, 2], random_state=0)
for clf in (a, b):
    clf.partial_fit([[0.1]], [0])
    clf.partial_fit([[0.5], [0.4]], [0, 1])
# stream `a` additionally sees a batch without any label (weights irrelevant)
a.partial_fit([[0.3], [0.9]], [np.nan, np.nan])
Pa, Pb = a.predict_proba(Xq), b.predict_proba(Xq)
print("labeled batches only          :", Pb.tolist(), "is_fitted_", b.is_fitted_)
print("plus one purely unlabeled batch:", Pa.tolist(), "is_fitted_", a.is_fitted_)
bad = not np.allclose(Pa, Pb)
print("demanded: identical predictions")
print("DEFECT PRESENT" if bad else "ok")
sys.exit(1 if bad else 0)
