"""C11 (minor, call history) - SlidingWindowClassifier: fit(X, y) without weights
followed by partial_fit(X, y, sample_weight=w) raises AttributeError, because
_add_samples replaces the weight deque by None and later calls None.extend."""
import os, sys, warnings
os.environ.setdefault("OMP_NUM_THREADS", "1"); os.environ.setdefault("OPENBLAS_NUM_THREADS", "1")
sys.path.insert(0, os.getcwd())
warnings.filterwarnings("ignore")
import numpy as np
from skactiveml.classifier import SlidingWindowClassifier, ParzenWindowClassifier

sw = SlidingWindowClassifier(ParzenWindowClassifier(classes=[0, 1]), classes=[0, 1])
sw.fit([[0.0, 1.0]], [0])
bad = False
try:
    sw.partial_fit([[1.0, 1.0]], [1], sample_weight=[2.0])
    P = sw.predict_proba([[0.0, 1.0]])
    print("predict_proba", P.tolist())
    bad = not (np.all(np.isfinite(P)) and np.allclose(P.sum(1), 1))
except Exception as e:
    print("partial_fit with sample_weight after an unweighted fit raises", type(e).__name__ + ":", e)
    bad = True
print("demanded: a fitted model with valid probabilities")
print("DEFECT PRESENT" if bad else "ok")
sys.exit(1 if bad else 0)
