"""C11 (minor) - ParzenWindowClassifier with the documented mean-bandwidth option
metric_dict={'gamma': 'mean'} cannot be fitted on an empty training set
(X=[], y=[] with declared classes), although the same call works for any other
bandwidth and is the supported 'no training data -> uniform' path."""
import os, sys, warnings
os.environ.setdefault("OMP_NUM_THREADS", "1"); os.environ.setdefault("OPENBLAS_NUM_THREADS", "1")
sys.path.insert(0, os.getcwd())
warnings.filterwarnings("ignore")
import numpy as np
from skactiveml.classifier import ParzenWindowClassifier

Xq = np.array([[0.0, 1.0]])
print("fixed bandwidth:", ParzenWindowClassifier(classes=[0, 1]).fit([], []).predict_proba(Xq).tolist())
bad = False
try:
    P = ParzenWindowClassifier(classes=[0, 1], metric_dict={"gamma": "mean"}).fit([], []).predict_proba(Xq)
    print("gamma='mean'   :", P.tolist())
    bad = not np.allclose(P, 0.5)
except Exception as e:
    print("gamma='mean'   : fit raises", type(e).__name__ + ":", e)
    bad = True
print("demanded: uniform distribution [[0.5, 0.5]]")
print("DEFECT PRESENT" if bad else "ok")
sys.exit(1 if bad else 0)
