"""C11 - AnnotatorLogisticRegression with sample weights: if all labels of one
sample have weight zero, the majority-vote initialisation divides 0/0, Alpha_
becomes NaN, and (depending on the documented `solver`) W_ and predict_proba are
NaN; with the default solver the model silently collapses to W_ = 0 (uniform
predictions) although all other samples are informative."""
import os, sys, warnings
os.environ.setdefault("OMP_NUM_THREADS", "1"); os.environ.setdefault("OPENBLAS_NUM_THREADS", "1")
sys.path.insert(0, os.getcwd())
warnings.filterwarnings("ignore")
import numpy as np
from skactiveml.classifier.multiannotator import AnnotatorLogisticRegression

bad = False
rng = np.random.RandomState(0)
X = rng.randn(20, 2)
yt = (X[:, 0] > 0).astype(float)
y = np.stack([yt, yt, 1 - yt], axis=1)
y[0, 1:] = np.nan                 # sample 0 is labeled by annotator 0 only ...
w = np.ones_like(y)
w[0, 0] = 0.0                     # ... and that single label has weight zero
Xq = np.array([[1.0, 0.0], [-1.0, 0.0]])
for solver in ["SLSQP", "Powell", "Newton-CG"]:
    ref = AnnotatorLogisticRegression(classes=[0, 1], solver=solver, random_state=0).fit(X, y)
    alr = AnnotatorLogisticRegression(classes=[0, 1], solver=solver, random_state=0).fit(X, y, sample_weight=w)
    P = alr.predict_proba(Xq)
    print(f"solver={solver}: unweighted predict_proba={ref.predict_proba(Xq).round(3).tolist()}")
    print(f"   one zero weight:   predict_proba={P.tolist()}  Alpha_ has NaN: {np.isnan(alr.Alpha_).any()}  W_={alr.W_.ravel().round(3).tolist()}")
    if not np.all(np.isfinite(P)) or np.isnan(alr.Alpha_).any():
        bad = True
print("demanded: finite probabilities with rows summing to one (and a model that still uses the 19 weighted samples)")
print("DEFECT PRESENT" if bad else "ok")
sys.exit(1 if bad else 0)
