"""C11 - MixtureModelClassifier(weight_mode='similarities') assumes a mixture with
covariance_type='full': it indexes mixture_model_.precisions_[j] as the
(d, d) precision of component j.  For covariance_type='tied' precisions_ is one
shared (d, d) matrix, so row j of it is used as 'VI' and, with more components
than features, predict_freq / predict_proba / predict raise IndexError after a
successful fit."""
import os, sys, warnings
os.environ.setdefault("OMP_NUM_THREADS", "1"); os.environ.setdefault("OPENBLAS_NUM_THREADS", "1")
sys.path.insert(0, os.getcwd())
warnings.filterwarnings("ignore")
import numpy as np
from sklearn.mixture import GaussianMixture
from skactiveml.classifier import MixtureModelClassifier

rng = np.random.RandomState(0)
X = rng.randn(30, 2)
y = (X[:, 0] > 0).astype(float)
gmm = GaussianMixture(n_components=3, covariance_type="tied", random_state=0)
mmc = MixtureModelClassifier(mixture_model=gmm, weight_mode="similarities", classes=[0, 1], random_state=0).fit(X, y)
bad = False
try:
    P = mmc.predict_proba(X[:3])
    print("predict_proba:", P.tolist())
    bad = not (np.all(np.isfinite(P)) and np.allclose(P.sum(1), 1))
except Exception as e:
    print("predict_proba after a successful fit raises", type(e).__name__ + ":", e)
    bad = True
print("demanded: finite (n_samples, n_classes) probabilities")
print("DEFECT PRESENT" if bad else "ok")
sys.exit(1 if bad else 0)
