"""C11 - ParzenWindowClassifier with a kernel that can take negative values
('linear', 'cosine', 'polynomial', 'sigmoid': all listed in
ParzenWindowClassifier.METRICS): predict_freq is negative and predict_proba
leaves [0, 1] (negative entries, entries > 1)."""
import os, sys, warnings
os.environ.setdefault("OMP_NUM_THREADS", "1"); os.environ.setdefault("OPENBLAS_NUM_THREADS", "1")
sys.path.insert(0, os.getcwd())
warnings.filterwarnings("ignore")
import numpy as np
from skactiveml.classifier import ParzenWindowClassifier

bad = False
X = np.array([[-1.0, 0.0], [1.0, 0.5], [2.0, 1.0], [-2.0, -1.0]])
y = [0, 1, 2, 0]
Xq = np.array([[1.0, 0.0], [-1.0, 0.0]])
for metric in ["cosine", "linear", "polynomial", "sigmoid"]:
    pwc = ParzenWindowClassifier(metric=metric, classes=[0, 1, 2], random_state=0).fit(X, y)
    F = pwc.predict_freq(Xq)
    P = pwc.predict_proba(Xq)
    ok = (F >= 0).all() and (P >= 0).all() and (P <= 1).all() and np.allclose(P.sum(1), 1)
    print(f"metric={metric!r}: predict_freq={F.round(3).tolist()} predict_proba={P.round(3).tolist()}  valid={ok}")
    if not ok:
        bad = True
print("DEFECT PRESENT" if bad else "ok")
sys.exit(1 if bad else 0)
