"""C11 - SlidingWindowClassifier silently ignores its own `classes` and
`cost_matrix` parameters (they are validated but never handed to the wrapped
estimator, and predict/predict_proba/classes_/cost_matrix_ are those of the
wrapped estimator)."""
import os, sys, warnings
os.environ.setdefault("OMP_NUM_THREADS", "1"); os.environ.setdefault("OPENBLAS_NUM_THREADS", "1")
sys.path.insert(0, os.getcwd())
warnings.filterwarnings("ignore")
import numpy as np
from skactiveml.classifier import SlidingWindowClassifier, ParzenWindowClassifier

bad = False
X = np.array([[-1.0, 0.0], [1.0, 0.5], [2.0, 1.0], [-2.0, -1.0]])
y = [0, 1, 1, 0]
Xq = np.array([[1.0, 0.0], [-1.0, 0.0], [0.0, 0.0]])

# (a) configured cost matrix is not used by predict
C = np.array([[0.0, 1.0], [100.0, 0.0]])
sw = SlidingWindowClassifier(ParzenWindowClassifier(classes=[0, 1]), classes=[0, 1], cost_matrix=C, random_state=0)
sw.fit(X, y)
P = sw.predict_proba(Xq)
demanded = np.array([0, 1])[(P @ C).argmin(1)]
got = sw.predict(Xq)
print("(a) predict_proba:", P.round(3).tolist())
print("(a) expected costs P @ C:", (P @ C).round(3).tolist(), "-> demanded", demanded, " library predict:", got)
print("(a) cost_matrix_ exposed by the fitted wrapper:", sw.cost_matrix_.tolist())
if not np.array_equal(demanded, got):
    bad = True

# (b) declared classes are ignored: class 2 declared but never observed
sw = SlidingWindowClassifier(ParzenWindowClassifier(), classes=[0, 1, 2], random_state=0).fit(X, y)
P = sw.predict_proba(Xq)
print("(b) declared classes [0, 1, 2]; classes_ =", sw.classes_, "predict_proba shape", P.shape, "(demanded (3, 3))")
if P.shape != (3, 3):
    bad = True

# (c) declared classes, no labels: demanded uniform distribution, library raises
sw = SlidingWindowClassifier(ParzenWindowClassifier(), classes=[0, 1, 2], random_state=0)
try:
    P = sw.fit(X, [np.nan] * 4).predict_proba(Xq)
    print("(c) predict_proba", P.tolist())
    if P.shape != (3, 3) or not np.allclose(P, 1 / 3):
        bad = True
except Exception as e:
    print("(c) fit with declared classes and no labels raises:", type(e).__name__, str(e)[:90])
    bad = True
print("DEFECT PRESENT" if bad else "ok")
sys.exit(1 if bad else 0)
