"""C11 - SklearnClassifier.predict (cost_matrix=None, estimator fitted) delegates to
estimator_.predict, which is not the arg-max of SklearnClassifier.predict_proba:
(a) when predict_proba falls back to the label counts because the estimator
    returns NaN, predict returns a class with a smaller (even zero) probability;
(b) for SVC(probability=True) predict and predict_proba disagree."""
import os, sys, warnings
os.environ.setdefault("OMP_NUM_THREADS", "1"); os.environ.setdefault("OPENBLAS_NUM_THREADS", "1")
sys.path.insert(0, os.getcwd())
warnings.filterwarnings("ignore")
import numpy as np
from sklearn.naive_bayes import GaussianNB
from sklearn.svm import SVC
from skactiveml.classifier import SklearnClassifier

bad = False
# (a1) duplicates in X: GaussianNB has zero variance -> NaN probabilities
X = np.array([[1.0], [1.0], [1.0]])
clf = SklearnClassifier(GaussianNB(), classes=[0, 1], random_state=0).fit(X, [0, 1, 1])
Xq = np.array([[1.0], [0.0], [2.0]])
P = clf.predict_proba(Xq)
pred = clf.predict(Xq)
print("(a1) is_fitted_", clf.is_fitted_, "predict_proba", P.tolist(), "predict", pred, "demanded", clf.classes_[P.argmax(1)])
if not np.array_equal(pred, clf.classes_[P.argmax(1)]):
    bad = True
# (a2) stream: first batch is a single sample, a declared class never observed
clf = SklearnClassifier(GaussianNB(), classes=[0, 4, 5], random_state=0).partial_fit([[0.5]], [4])
Xq = np.array([[0.2], [3.0]])
P = clf.predict_proba(Xq)
pred = clf.predict(Xq)
print("(a2) is_fitted_", clf.is_fitted_, "predict_proba", P.tolist(), "predict", pred, "demanded", clf.classes_[P.argmax(1)])
if not np.array_equal(pred, clf.classes_[P.argmax(1)]):
    bad = True
# (b) SVC with Platt scaling
rng = np.random.RandomState(0)
X = rng.randn(12, 2)
y = (X[:, 0] + 0.5 * rng.randn(12) > 0).astype(float)
Xq = rng.randn(200, 2)
clf = SklearnClassifier(SVC(probability=True, random_state=0), classes=[0, 1], random_state=0).fit(X, y)
P = clf.predict_proba(Xq)
pred = clf.predict(Xq)
margin = np.abs(P[:, 0] - P[:, 1])
dis = (pred != clf.classes_[P.argmax(1)]) & (margin > 1e-6)
print("(b) SVC: predict differs from argmax predict_proba on", dis.sum(), "of", len(Xq), "query points; e.g. P =",
      P[dis][:1].tolist(), "predict =", pred[dis][:1])
if dis.any():
    bad = True
print("DEFECT PRESENT" if bad else "ok")
sys.exit(1 if bad else 0)
