"""C11 - AnnotatorEnsembleClassifier cannot be fitted when `classes` is declared
on the ensemble AND on its member classifiers (a combination that
_validate_estimators explicitly checks and accepts) unless the classes happen
to be 0..n_classes-1: members keep their own `classes` but receive the
ensemble's *encoded* labels and missing_label=-1."""
import os, sys, warnings
os.environ.setdefault("OMP_NUM_THREADS", "1"); os.environ.setdefault("OPENBLAS_NUM_THREADS", "1")
sys.path.insert(0, os.getcwd())
warnings.filterwarnings("ignore")
import numpy as np
from skactiveml.classifier import ParzenWindowClassifier
from skactiveml.classifier.multiannotator import AnnotatorEnsembleClassifier

bad = False
X = np.array([[-1.0, 0.0], [1.0, 0.5], [2.0, 1.0], [-2.0, -1.0]])
Xq = np.array([[1.0, 0.0], [-1.0, 0.0]])
cases = [
    ([2, 5], np.nan, np.array([[2, 2], [5, 5], [5, 2], [2, np.nan]])),
    (["a", "b"], None, np.array([["a", "a"], ["b", "b"], ["b", "a"], ["a", None]], dtype=object)),
]
for classes, ml, y in cases:
    for voting in ["hard", "soft"]:
        ens = AnnotatorEnsembleClassifier(
            estimators=[(n, ParzenWindowClassifier(classes=classes, missing_label=ml)) for n in "xy"],
            classes=classes, missing_label=ml, voting=voting, random_state=0,
        )
        try:
            P = ens.fit(X, y).predict_proba(Xq)
            pred = ens.predict(Xq)
            ok = P.shape == (2, 2) and np.allclose(P.sum(1), 1) and np.all(np.isin(pred, ens.classes_))
            print(f"classes={classes} voting={voting}: predict_proba={P.tolist()} predict={pred} valid={ok}")
            bad |= not ok
        except Exception as e:
            print(f"classes={classes} voting={voting}: fit/predict raises {type(e).__name__}: {str(e)[:90]}")
            bad = True
print("demanded: a fitted ensemble with valid probabilities over classes_")
print("DEFECT PRESENT" if bad else "ok")
sys.exit(1 if bad else 0)
