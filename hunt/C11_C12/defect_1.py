"""C11 - SklearnClassifier.predict in fallback mode (wrapped estimator could not be
fitted) draws labels at random from the fallback distribution instead of
returning the class that minimises the expected cost (most probable class)."""
import os, sys, warnings
os.environ.setdefault("OMP_NUM_THREADS", "1"); os.environ.setdefault("OPENBLAS_NUM_THREADS", "1")
sys.path.insert(0, os.getcwd())
warnings.filterwarnings("ignore")
import numpy as np
from sklearn.naive_bayes import GaussianNB
from sklearn.discriminant_analysis import QuadraticDiscriminantAnalysis
from skactiveml.classifier import SklearnClassifier

bad = False
X = np.array([[0.0], [1.0], [2.0], [3.0]])
Xq = np.zeros((30, 1))

# (a) declared classes, no label at all, cost matrix configured
C = np.array([[0.0, 1.0], [10.0, 0.0]])
clf = SklearnClassifier(GaussianNB(), classes=[0, 1], cost_matrix=C, random_state=0)
clf.fit(X, [np.nan] * 4)
P = clf.predict_proba(Xq)
costs = P @ clf.cost_matrix_
demanded = clf.classes_[costs.argmin(1)]
got = clf.predict(Xq)
print("(a) predict_proba row      :", P[0])
print("(a) expected cost per class:", costs[0], "-> demanded prediction", demanded[0])
print("(a) library predict        :", got)
if not np.array_equal(got, demanded):
    bad = True

# (b) labels present, estimator cannot be fitted (QDA: class 1 has one sample)
clf = SklearnClassifier(QuadraticDiscriminantAnalysis(), classes=[0, 1], random_state=0)
clf.fit(X, [0, 0, 0, 1])
P = clf.predict_proba(Xq)
got = clf.predict(Xq)
print("(b) is_fitted_ =", clf.is_fitted_, " predict_proba row:", P[0], "-> demanded prediction 0 everywhere")
print("(b) library predict        :", got)
if clf.is_fitted_ is False and not np.all(got == clf.classes_[P.argmax(1)]):
    bad = True

print("DEFECT PRESENT" if bad else "ok")
sys.exit(1 if bad else 0)
