#!/bin/sh
# Builds /verif/.venv: a venv of /venv's interpreter that sees /venv's site-packages
# (repo deps) and /repo, plus z3-solver + jsonschema from the offline wheelhouse.
# Idempotent; every check calls it first.
set -e
V=/verif/.venv
HERE="$(cd "$(dirname "$0")" && pwd)"
V="$HERE/.venv"
if [ -x "$V/bin/python" ] && "$V/bin/python" -c "import z3, jsonschema, numpy, sklearn" 2>/dev/null; then
  exit 0
fi
rm -rf "$V"
/venv/bin/python -m venv "$V"
SP="$V/lib/python3.12/site-packages"
printf "import site; site.addsitedir('/venv/lib/python3.12/site-packages')\n" > "$SP/base.pth"
PIP_NO_INDEX=1 "$V/bin/pip" install -q --no-index --find-links /opt/veriftools/wheels z3-solver jsonschema >/dev/null
"$V/bin/python" -c "import z3, jsonschema, numpy, sklearn; print('verif venv ok: z3', z3.get_version_string())"
