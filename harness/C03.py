"""C03 — stream query is a pure simulation: it never changes strategy state.
One scenario function is executed twice: symbolically on the real code (every
condition is an SMT obligation) and concretely for replay. Run A interposes
extra query calls, run B does not; all later results and the final state must
coincide, repeated queries must agree and the fitted state must be unchanged by
query."""
from __future__ import annotations

import copy

import numpy as np
import z3

from harness import models
from harness import streamlib as sl
from harness.common import Harness, rec
from symx import arrays, core, facade
from symx.core import b_and, fresh_float, fresh_int

PID = "C03"
F = facade.FACADE


class Env:
    """uniform interface for the symbolic and the concrete (replay) execution"""

    def __init__(self, c=None):
        self.c = c
        self.sym = c is not None
        self.violated = {}

    def prove(self, cond, label, info=None):
        if self.sym:
            self.c.prove(cond, label, info)
        else:
            ok = cond if isinstance(cond, (bool, np.bool_)) else bool(cond)
            if not ok:
                self.violated.setdefault(label, info)

    def arr(self, x, dtype=float):
        return F.array(x, dtype=dtype) if self.sym else np.array(x, dtype=dtype)


def _same_result(r1, r2):
    i1, u1 = r1
    i2, u2 = r2
    if [int(i) for i in i1] != [int(i) for i in i2]:
        return False
    return sl.eq_value(u1 if isinstance(u1, np.ndarray) else np.asarray(u1), u2 if isinstance(u2, np.ndarray) else np.asarray(u2))


def _restored(before, after):
    """state value `after` equals `before`; for a nested manager only the attributes that existed before are compared
    (a manager that is consulted for the first time initialises its own state lazily, like the strategy does)"""
    if hasattr(before, "get_params") and hasattr(after, "get_params"):
        sb, sa = sl.bm_state(before), sl.bm_state(after)
        return core.b_and(*[_restored(v, sa[k]) if k in sa else False for k, v in sb.items() if k != "n_features_in_"])
    return sl.eq_value(before, after)


def scenario(env, make, query, update, chunks, relevant_skip=("n_features_in_",), update_only_twin=True):
    A = make()
    Bo = copy.deepcopy(A)
    Co = copy.deepcopy(A)
    # run B: no extra calls
    res_B = []
    for t, ch in enumerate(chunks):
        r = query(Bo, ch)
        res_B.append(r)
        if t < len(chunks) - 1:
            update(Bo, ch, r[0])
    # run A: extra queries interposed
    extra = chunks[-1]
    query(A, extra)
    res_A = []
    relevant = None
    for t, ch in enumerate(chunks):
        s0 = {k: copy.deepcopy(v) for k, v in sl.bm_state(A).items()}
        r1 = query(A, ch)
        s1 = {k: copy.deepcopy(v) for k, v in sl.bm_state(A).items()}
        if relevant is None:
            relevant = set(s1) - set(relevant_skip)
        # every attribute that existed before the call has the value it had before (attributes created lazily by the
        # first call are compared from then on)
        for k in sorted(relevant & set(s0)):
            env.prove(_restored(s0.get(k), s1.get(k)), f"query_restores_state:{k}", info=dict(step=t))
        r2 = query(A, ch)
        s2 = sl.bm_state(A)
        env.prove(_same_result(r1, r2), "repeated_query_same_result", info=dict(step=t))
        for k in sorted(relevant):
            env.prove(sl.eq_value(s1.get(k), s2.get(k)), f"query_leaves_state_unchanged:{k}", info=dict(step=t))
        res_A.append(r1)
        query(A, extra)
        if t < len(chunks) - 1:
            update(A, ch, r1[0])
    for t, (ra, rb) in enumerate(zip(res_A, res_B)):
        env.prove(_same_result(ra, rb), "later_results_unaffected_by_extra_queries", info=dict(step=t))
    sa, sb = sl.bm_state(A), sl.bm_state(Bo)
    for k in sorted((relevant or set())):
        env.prove(sl.eq_value(sa.get(k), sb.get(k)), f"final_state_unaffected_by_extra_queries:{k}")
    if update_only_twin and len(chunks) > 1:
        # run C: the same updates without a single query - "state advances only through update": whatever both objects
        # hold at the end must agree (a query that consumes the generator while it lazily creates state shows here)
        for t, ch in enumerate(chunks[:-1]):
            update(Co, ch, res_B[t][0])
        sc = sl.bm_state(Co)
        for k in sorted((relevant or set()) & set(sc) & set(sb)):
            env.prove(_restored(sc.get(k), sb.get(k)), f"state_equals_update_only_twin:{k}")
    return res_B


# ------------------------------------------------------------------ budget managers
def _bm_ops(cls, sym):
    def query(bm, ch):
        u = ch.copy()
        idx = bm.query_by_utility(u)
        return [int(i) for i in idx], ch

    def update(bm, ch, idx):
        n = len(ch)
        cands = F.zeros((n, 1)) if sym else np.zeros((n, 1))
        ia = F.array(idx, dtype=int) if sym else np.array(idx, dtype=int)
        if cls == "BalancedIncrementalQuantileFilter":
            bm.update(cands, ia, ch.copy())
        else:
            bm.update(cands, ia)
    return query, update


def sym_manager(c, cls, w, sizes, pre, budget=None):
    env = Env(c)
    B = sl.sym_budget(c, concrete=budget)
    nan = cls != "BalancedIncrementalQuantileFilter"
    chunks = []
    for t, n in enumerate(sizes):
        ch = sl.sym_utilities(c, n, name=f"util{t}_", nan=nan)
        rec(c, f"chunk{t}", ch)
        chunks.append(ch)

    def make():
        bm, st = sl.make_manager(c, cls, B, w=w, pre=pre)
        if pre == "arbitrary" and "u_t_" in st:
            c.assume(core.s_le(st["u_t_"], B * w + 1))
        if cls == "BalancedIncrementalQuantileFilter" and pre == "arbitrary":
            hist = sl.sym_utilities(c, 2, name="hist", nan=False)
            bm.history_sorted_.extend(list(arrays.raw(hist)))
        return bm
    q, u = _bm_ops(cls, True)
    res = scenario(env, make, q, u, chunks)
    c.witness(any(len(r[0]) for r in res), "some_granted")


def replay_manager(inputs, label, cls, w, sizes, pre, budget=None):
    if pre == "arbitrary":
        return None, "symbolic pre-state: candidate only"
    B = budget if budget is not None else inputs["budget"]
    chunks = [np.array(inputs[f"chunk{t}"], dtype=float) for t in range(len(sizes))]
    seeds = [int(inputs.get("seed", 0))] + ([] if inputs.get("__scripted__") else list(range(25)))
    q, u = _bm_ops(cls, False)
    for seed in seeds:
        env = Env()
        scenario(env, lambda: sl.real_manager(cls, B, w, {}, seed), q, u, chunks)
        if label in env.violated:
            return True, (f"{cls}(budget={B}, w={w}, random_state={seed}) chunks={[ch.tolist() for ch in chunks]}: "
                          f"{label} {env.violated[label]}")
    return False, "not reproduced"


# ------------------------------------------------------------------ stream strategies
STRATS = {
    "StreamRandomSampling": dict(kw=dict(allow_exceeding_budget=True), clf=False),
    "StreamRandomSampling_strict": dict(kw=dict(allow_exceeding_budget=False), clf=False, cls="StreamRandomSampling"),
    "PeriodicSampling": dict(kw={}, clf=False),
    "FixedUncertainty": dict(kw=dict(classes=[0, 1]), clf=True),
    "VariableUncertainty": dict(kw={}, clf=True),
    "RandomVariableUncertainty": dict(kw={}, clf=True),
    "Split": dict(kw={}, clf=True),
}


def _st_ops(name, clf):
    def query(qs, ch):
        if clf is None:
            idx, ut = qs.query(ch.copy(), return_utilities=True)
        else:
            idx, ut = qs.query(ch.copy(), clf, return_utilities=True)
        return [int(i) for i in idx], ut

    def update(qs, ch, idx):
        qs.update(ch.copy(), np.array(idx, dtype=int) if not isinstance(ch, arrays.SymNd) else F.array(idx, dtype=int))
    return query, update


def sym_strategy(c, name, sizes):
    env = Env(c)
    st = sl.st_mod()
    spec = STRATS[name]
    B = sl.sym_budget(c)
    seed = fresh_int("seed", 0, 2 ** 31 - 2)
    rec(c, "seed", seed)
    chunks = []
    for t, n in enumerate(sizes):
        xs = [fresh_float(f"x{t}_{i}") for i in range(n)]
        ch = arrays.SymNd(arrays._to_obj(xs), float).reshape(n, 1)
        rec(c, f"chunk{t}", ch)
        chunks.append(ch)
    clf = models.StubClassifier(classes=[0, 1], n_classes=2) if spec["clf"] else None
    K = getattr(st, spec.get("cls", name))

    def make():
        return K(budget=B, random_state=seed, **spec["kw"])
    q, u = _st_ops(name, clf)
    res = scenario(env, make, q, u, chunks)
    c.witness(any(len(r[0]) for r in res), "some_granted")
    c.witness(any(len(r[0]) < len(ch) for r, ch in zip(res, chunks)), "some_refused")


def replay_strategy(inputs, label, name, sizes):
    st = sl.st_mod()
    spec = STRATS[name]
    B = inputs["budget"]
    chunks = [np.array(inputs[f"chunk{t}"], dtype=float).reshape(-1, 1) for t in range(len(sizes))]
    table = [(row, p) for _, row, p in inputs.get("__clf__", [])]
    clf = models.real_table_classifier(table) if spec["clf"] else None
    K = getattr(st, spec.get("cls", name))
    seeds = [int(inputs.get("seed", 0))] + ([] if inputs.get("__scripted__") else list(range(25)))
    q, u = _st_ops(name, clf)
    for seed in seeds:
        env = Env()
        scenario(env, lambda: K(budget=B, random_state=seed, **spec["kw"]), q, u, chunks)
        if label in env.violated:
            return True, (f"{name}(budget={B}, random_state={seed}) chunks={[ch.ravel().tolist() for ch in chunks]}: "
                          f"{label} {env.violated[label]}")
    return False, "not reproduced"


# ------------------------------------------------------------------
def _cfg_manager(tier):
    out = []
    for cls in sl.ALL_MANAGERS:
        for pre in ("fresh", "arbitrary"):
            if cls == "BalancedIncrementalQuantileFilter":
                if pre == "arbitrary":
                    continue  # nonlinear real arithmetic (range * acq_left): does not finish within 4 min
                for wq in (1, 2, 3):   # small windows: the bounded history is full after one or two instances
                    out.append(dict(cls=cls, w=wq, sizes=[2, 1], pre=pre, budget=0.5))
                out.append(dict(cls=cls, w=1, sizes=[1, 2], pre=pre, budget=0.5))
                if tier == "thorough":
                    out.append(dict(cls=cls, w=3, sizes=[2, 2, 1], pre=pre, budget=0.1))
                continue
            if cls == "DensityBasedSplitBudgetManager" and pre == "arbitrary" and tier == "quick":
                out.append(dict(cls=cls, w=3, sizes=[1, 1], pre=pre))
                continue
            szs = [[2, 1], [1, 2]] if tier == "quick" else [[2, 1], [1, 2], [2, 2, 1], [3, 2]]
            if cls == "SplitBudgetManager" and tier == "thorough":
                szs = [[2, 1], [1, 2], [2, 1, 1]]
            for sizes in szs:
                for w in ([3] if tier == "quick" else [1, 3, 100]):
                    out.append(dict(cls=cls, w=w, sizes=sizes, pre=pre))
    return out


def _cfg_strategy(tier):
    out = []
    for name in STRATS:
        szs = [[2, 1], [1, 2]] if tier == "quick" else [[2, 1], [1, 2], [2, 2, 1]]
        if name == "Split" and tier == "thorough":
            szs = [[2, 1], [1, 2], [2, 1, 1]]
        for sizes in szs:
            out.append(dict(name=name, sizes=sizes))
    return out


HARNESSES = [
    Harness("manager_purity", sym_manager, replay_manager, _cfg_manager,
            [sl.BM_UNITS[k] for k in sl.ALL_MANAGERS], required_witnesses=("some_granted",)),
    Harness("strategy_purity", sym_strategy, replay_strategy, _cfg_strategy,
            ["skactiveml.stream._stream_baselines:StreamRandomSampling", "skactiveml.stream._stream_baselines:PeriodicSampling",
             "skactiveml.stream._uncertainty_zliobaite:UncertaintyZliobaite", "skactiveml.stream._uncertainty_zliobaite:FixedUncertainty",
             "skactiveml.stream._uncertainty_zliobaite:VariableUncertainty",
             "skactiveml.stream._uncertainty_zliobaite:RandomVariableUncertainty", "skactiveml.stream._uncertainty_zliobaite:Split",
             "skactiveml.utils._validation:check_budget_manager", "skactiveml.utils._validation:check_random_state",
             "skactiveml.base:SingleAnnotatorStreamQueryStrategy._validate_data"],
            required_witnesses=("some_granted", "some_refused")),
]

from harness import density as _density  # noqa: E402
HARNESSES = HARNESSES + _density.harnesses_c03()
from harness import spal as _spal  # noqa: E402
HARNESSES = HARNESSES + _spal.harnesses_c03()

BOUNDS = dict(quick="scenarios of 2 chunks (sizes 2+1 and 1+2) with 1-3 interposed extra queries per step, w=3, symbolic budget, "
                    "symbolic utilities/features, symbolic seed; managers also from an arbitrary (symbolic) pre-state",
              thorough="scenarios up to 3 chunks (2+2+1, 3+2), w in {1,3,100}",
              outside="StreamDensityBasedAL, CognitiveDual*, StreamProbabilisticAL (see DESIGN.md); rounding")
ASSUMPTIONS = [
    "classifier = stub whose predict_proba is an uninterpreted function of the feature row on the probability simplex",
    "RandomState draws = uninterpreted functions of (seed, run-length history); get_state/set_state save/restore the history",
    "behaviour-relevant state = the trailing-underscore attributes that exist after the first query (n_features_in_ excluded)",
    "exact real arithmetic",
]
