"""Strategy-level stream scenarios for StreamDensityBasedAL and the
CognitiveDualQueryStrategy family (used by C03, C04, C10). Dual scenarios: the
real query/update with their real default budget managers, symbolic features,
stub classifier, symbolic budget / seed."""
from __future__ import annotations

import copy

import numpy as np

from harness import models
from harness import streamlib as sl
from harness.common import dual_harness
from symx import arrays, core

NAMES = {
    "StreamDensityBasedAL": {},
    "StreamDensityBasedAL[window_size=1]": dict(window_size=1),      # the sliding window is full after one instance
    "CognitiveDualQueryStrategyRan": {},
    "CognitiveDualQueryStrategyRan[force_full_budget]": dict(force_full_budget=True),
    "CognitiveDualQueryStrategyFixUn": dict(classes=[0, 1]),
    "CognitiveDualQueryStrategyVarUn": {},
    "CognitiveDualQueryStrategyRanVarUn": {},
}
UNITS = ["skactiveml.stream._density_uncertainty:StreamDensityBasedAL.query", "skactiveml.stream._density_uncertainty:StreamDensityBasedAL.update",
         "skactiveml.stream._density_uncertainty:StreamDensityBasedAL._calculate_ldf",
         "skactiveml.stream._density_uncertainty:CognitiveDualQueryStrategy.query",
         "skactiveml.stream._density_uncertainty:CognitiveDualQueryStrategy.update",
         "skactiveml.stream._density_uncertainty:CognitiveDualQueryStrategy._calculate_ldf",
         "skactiveml.stream.budgetmanager._threshold_budget:DensityBasedSplitBudgetManager"]


# configurations used by the chunking scenario only
EXTRA_NAMES = {
    "CognitiveDualQueryStrategyFixUn[force_full_budget]": dict(classes=[0, 1], force_full_budget=True),
    "CognitiveDualQueryStrategyVarUn[force_full_budget]": dict(force_full_budget=True),
}


def _make(d, name, B, seed):
    import skactiveml.stream as st
    K = getattr(st, name.split("[")[0])
    return K(budget=B, random_state=seed, **(NAMES[name] if name in NAMES else EXTRA_NAMES[name]))


def _clf(d):
    if d.sym:
        c = models.StubClassifier(classes=[0, 1], n_classes=2, gen=5)
    else:
        c = models.real_table_classifier([(row, p) for g, row, p in d.inputs.get("__clf__", [])], n_classes=2)
    c.classes_ = np.arange(2)
    return c


def _chunks(d, sizes):
    out = []
    for t, m in enumerate(sizes):
        out.append(d.arr([[d.fl(f"x{t}_{i}", lo=-4.0, hi=4.0)] for i in range(m)], shape=(m, 1)))
    return out


def _budget(d, concrete=None):
    if concrete is not None:
        return float(concrete)
    B = d.fl("budget", lo=0.0, hi=1.0)
    if d.sym:
        d.c.assume(core.s_lt(0, B))
    elif B <= 0:
        B = 0.5
    return B


def _idx_ok(idl, m):
    return all(0 <= i < m for i in idl) and all(a < b for a, b in zip(idl, idl[1:]))


# ---------------------------------------------------------------- C10: update accepts what query returned
def sc_accepts(d, name, sizes):
    B = _budget(d)
    seed = d.integer("seed", 0, 2 ** 31 - 2)
    qs = _make(d, name, B, seed)
    clf = _clf(d)
    total = 0
    for t, ch in enumerate(_chunks(d, sizes)):
        idx, ut = qs.query(ch.copy(), clf, return_utilities=True)
        idl = [int(i) for i in idx]
        d.prove(_idx_ok(idl, len(ch)), "indices_strictly_increasing_in_range", info=dict(chunk=t, got=idl))
        d.prove(tuple(np.shape(ut)) == (len(ch),), "one_utility_per_candidate", info=dict(chunk=t))
        try:
            qs.update(ch.copy(), d.arr(idl, dtype=int))
        except (core.Unencodable, core.PathAbort):
            raise
        except Exception as e:
            d.prove(False, "update_accepts_query_result", info=dict(chunk=t, indices=idl, error=repr(e)[:160]))
            return
        total += len(idl)
    d.witness(total >= 1, "some_granted")


# ---------------------------------------------------------------- C10: chunking invariance at the strategy level
def sc_chunking(d, name, n, comp):
    """the stream x_0..x_{n-1} one by one and in the chunks of `comp`: the same instances are granted a label"""
    B = _budget(d)
    seed = d.integer("seed", 0, 2 ** 31 - 2)
    clf = _clf(d)
    xs = [d.fl(f"x{i}", lo=-4.0, hi=4.0) for i in range(n)]

    def run(sizes):
        qs = _make(d, name, B, seed)
        pos, granted = 0, []
        for m in sizes:
            ch = d.arr([[xs[pos + i]] for i in range(m)], shape=(m, 1))
            idl = [int(i) for i in qs.query(ch.copy(), clf)]
            try:
                qs.update(ch.copy(), d.arr(idl, dtype=int))
            except (core.Unencodable, core.PathAbort):
                raise
            except (IndexError, ValueError) as e:
                # update refusing the result of query: `density_cognitive_accepts_own_result`
                if d.sym:
                    raise core.PathAbort("update rejected the result of query: " + repr(e)[:80])
                return None
            granted += [pos + i for i in idl]
            pos += m
        return granted
    ref = run([1] * n)
    got = run(list(comp))
    if ref is None or got is None:
        return
    d.prove(ref == got, "decisions_independent_of_chunking", info=dict(one_by_one=ref, chunked=got, chunks=list(comp)))
    d.witness(len(ref) >= 1, "some_granted")


def harnesses_c10_chunking():
    return [dual_harness("density_cognitive_chunking", sc_chunking,
                         # (the cognitive strategies without force_full_budget reject their own result for chunks > 1 -
                         #  the open finding of density_cognitive_accepts_own_result - and cannot be compared)
                         #  StreamDensityBasedAL's default manager consumes normal draws: the property claims no chunking
                         #  invariance for it)
                         lambda tier: [dict(name=nm, n=n, comp=c) for nm in list(NAMES) + list(EXTRA_NAMES)
                                       if "force_full_budget" in nm for n, c in
                                       ([(2, [2])] if tier == "quick" else [(2, [2]), (3, [3]), (3, [1, 2])])],
                         UNITS, required_witnesses=("some_granted",), product_abstraction=False, timeout_ms=20000)]


# ---------------------------------------------------------------- C04: strategy-level label bound of StreamDensityBasedAL
def sc_density_bound(d, sizes):
    B = _budget(d)
    seed = d.integer("seed", 0, 2 ** 31 - 2)
    qs = _make(d, "StreamDensityBasedAL", B, seed)
    clf = _clf(d)
    n = 0
    k = 0
    for t, ch in enumerate(_chunks(d, sizes)):
        idx = [int(i) for i in qs.query(ch.copy(), clf)]
        for j in range(len(ch)):
            n += 1
            k += 1 if j in idx else 0
            d.prove(d.le(k, B * n + 1), "label_bound_prefix", info=dict(chunk=t, labels=k, instances=n))
        qs.update(ch.copy(), d.arr(idx, dtype=int))
    d.witness(k >= 1, "some_granted")


# ---------------------------------------------------------------- C03: purity
def sc_purity(d, name, sizes):
    from harness.C03 import scenario

    class Env:
        sym = d.sym

        @staticmethod
        def prove(cond, label, info=None):
            d.prove(cond, label, info)
    B = _budget(d)
    seed = d.integer("seed", 0, 2 ** 31 - 2)
    clf = _clf(d)
    chunks = _chunks(d, sizes)

    def query(qs, ch):
        idx, ut = qs.query(ch.copy(), clf, return_utilities=True)
        return [int(i) for i in idx], ut

    class _UpdateRejected(Exception):
        pass

    def update(qs, ch, idx):
        try:
            qs.update(ch.copy(), d.arr(idx, dtype=int))
        except (core.Unencodable, core.PathAbort):
            raise
        except (IndexError, ValueError) as e:
            # update refusing the result of query is the subject of C10 (open known finding for the cognitive
            # strategies); the purity scenario cannot continue on such a history
            raise _UpdateRejected(repr(e))
    try:
        res = scenario(Env, lambda: _make(d, name, B, seed), query, update, chunks)
    except _UpdateRejected as e:
        if d.sym:
            raise core.PathAbort("update rejected the result of query (C10): " + str(e))
        return
    d.witness(any(len(r[0]) for r in res), "some_granted")


def harnesses_c10():
    return [dual_harness("density_cognitive_accepts_own_result", sc_accepts,
                         lambda tier: [dict(name=n, sizes=s) for n in NAMES for s in ([[2], [1, 2]] if tier == "quick" else [[2], [1, 2], [3], [2, 2]])],
                         UNITS, required_witnesses=("some_granted",), product_abstraction=True, timeout_ms=20000)]


def harnesses_c04():
    return [dual_harness("density_strategy_bound", sc_density_bound,
                         lambda tier: [dict(sizes=s) for s in ([[1, 1], [2], [3]] if tier == "quick" else [[1, 1], [2], [3], [1, 2], [2, 2]])],
                         UNITS[:3] + UNITS[6:], required_witnesses=("some_granted",), product_abstraction=True)]


def harnesses_c03():
    return [dual_harness("density_cognitive_purity", sc_purity,
                         lambda tier: [dict(name=n, sizes=s) for n in NAMES for s in ([[1, 1]] if tier == "quick" else [[1, 1], [2, 1]])],
                         UNITS, required_witnesses=("some_granted",), product_abstraction=True)]
