"""C09 — results do not depend on how labels and missing labels are encoded.
Self-composition over encodings: the label PATTERN is chosen by the explorer and
materialised in several encodings with their real dtypes (float/NaN, int/-1,
str/'nan', object/None; order-preserving class names), missing_label / classes
set consistently; all continuous data (features, kernels, model outputs, draws)
is shared symbolic data. The real code runs once per encoding; outputs must
coincide. Dual scenarios (symbolic + concrete replay)."""
from __future__ import annotations

import numpy as np
import z3

from harness import models
from harness import poollib as pl
from harness.common import dual_harness
from symx import arrays, core

PID = "C09"
NAN = float("nan")
ENC = {
    "float_nan": dict(classes=[0.0, 1.0, 2.0], missing=NAN, dtype=float),
    "int_m1": dict(classes=[10, 20, 30], missing=-1, dtype=int),
    "str_nan": dict(classes=["a", "b", "c"], missing="nan", dtype="<U3"),
    "obj_none": dict(classes=["a", "b", "c"], missing=None, dtype=object),
    "objnum_none": dict(classes=[10, 20, 30], missing=None, dtype=object),     # numbers in an object array, sentinel None
}


def encode(d, idx, enc):
    e = ENC[enc]
    vals = [e["missing"] if k < 0 else e["classes"][k] for k in idx]
    if e["dtype"] is object:
        a = np.empty(len(vals), dtype=object)
        for i, v in enumerate(vals):
            a[i] = v
    elif e["dtype"] == "<U3":
        a = np.array(vals)          # the width numpy infers (<U1 when every sample is labeled)
    else:
        a = np.array(vals, dtype=e["dtype"])
    return arrays.SymNd(a, a.dtype) if d.sym else a


def class_index(v, enc, K):
    e = ENC[enc]
    for k, cv in enumerate(e["classes"][:K]):
        try:
            if (isinstance(v, float) and isinstance(cv, float) and v == cv) or (not isinstance(cv, float) and v == cv):
                return k
            if isinstance(cv, float) and float(v) == cv:
                return k
        except (TypeError, ValueError):
            continue
    return None


def _stub_clf(d, enc, K, gen=7):
    e = ENC[enc]
    if d.sym:
        c = models.StubClassifier(classes=e["classes"][:K], missing_label=e["missing"], n_classes=K, gen=gen)
    else:
        c = models.real_table_classifier([(row, p) for g, row, p in d.inputs.get("__clf__", []) if g == gen], n_classes=K)
        c.classes, c.missing_label = e["classes"][:K], e["missing"]
    c.classes_ = np.array(e["classes"][:K], dtype=e["dtype"] if e["dtype"] is not object else object)
    return c


# ---------------------------------------------------------------- pool strategies
def _pool_call(d, name, enc, seed, X, y, K, b, cand=None):
    P = pl.pool()
    m = ENC[enc]["missing"]
    if name == "RandomSampling":
        return P.RandomSampling(missing_label=m, random_state=seed).query(X, y, candidates=cand, batch_size=b, return_utilities=True)
    if name.startswith("UncertaintySampling"):
        method = name.split("[")[1][:-1]
        return P.UncertaintySampling(method=method, missing_label=m, random_state=seed).query(
            X, y, _stub_clf(d, enc, K), fit_clf=False, candidates=cand, batch_size=b, return_utilities=True)
    if name == "CoreSet":
        return P.CoreSet(missing_label=m, random_state=seed).query(X, y, candidates=cand, batch_size=b, return_utilities=True)
    if name == "GreedySamplingX":
        return P.GreedySamplingX(missing_label=m, random_state=seed).query(X, y, candidates=cand, batch_size=b, return_utilities=True)
    if name == "QueryByCommittee[vote_entropy]":
        # hard votes of the members are class labels: strings under the string encodings
        ens = [_stub_clf(d, enc, K, gen=1), _stub_clf(d, enc, K, gen=2)]
        return P.QueryByCommittee(method="vote_entropy", missing_label=m, random_state=seed).query(
            X, y, ens, fit_ensemble=False, candidates=cand, batch_size=b, return_utilities=True)
    if name == "QueryByCommittee":
        ens = [_stub_clf(d, enc, K, gen=1), _stub_clf(d, enc, K, gen=2)]
        return P.QueryByCommittee(missing_label=m, random_state=seed).query(X, y, ens, fit_ensemble=False, candidates=cand,
                                                                          batch_size=b, return_utilities=True)
    if name == "ProbabilisticAL[metric=rbf]":
        # the strategy builds its own ParzenWindowClassifier (label density) from the handed classifier's classes and sentinel
        return P.ProbabilisticAL(metric="rbf", metric_dict={"gamma": 0.5}, missing_label=m, random_state=seed).query(
            X, y, _stub_clf(d, enc, K), fit_clf=False, candidates=cand, batch_size=b, return_utilities=True)
    if name.startswith("DiscriminativeAL"):
        greedy = name.endswith("[greedy]")
        if d.sym:
            disc = _stub_clf(d, enc, 2, gen=3)
        else:
            # concrete replay: a discriminator that really learns from the labeled-vs-unlabeled targets it is handed
            from skactiveml.classifier import ParzenWindowClassifier
            disc = ParzenWindowClassifier(classes=[0, 1], missing_label=m, random_state=0)
        return P.DiscriminativeAL(greedy_selection=greedy, missing_label=m, random_state=seed).query(
            X, y, disc, candidates=cand, batch_size=b, return_utilities=True)
    raise ValueError(name)


def sc_pool(d, name, n, K, encs, b, rows=False):
    idx = [d.choose(f"label{i}", [-1] + list(range(K))) for i in range(n)]
    if all(k >= 0 for k in idx) and not rows:
        if d.sym:
            raise core.PathAbort("no candidate")
        return
    X = d.arr([[d.fl(f"x{i}", lo=-4.0, hi=4.0)] for i in range(n)], shape=(n, 1))
    # candidates given as feature rows (the label array may then be fully labeled)
    cand = d.arr([[d.fl(f"c{i}", lo=-4.0, hi=4.0)] for i in range(2)], shape=(2, 1)) if rows else None
    seed = d.integer("seed", 0, 2 ** 31 - 2)
    outs = []
    for enc in encs:
        try:
            outs.append(_pool_call(d, name, enc, seed, X, encode(d, idx, enc), K, b, cand))
        except (core.Unencodable, core.PathAbort):
            raise
        except Exception as e:
            d.prove(False, "query_succeeds_under_every_encoding", info=dict(encoding=enc, error=repr(e)[:160]))
            return
    ref = outs[0]
    for enc, o in zip(encs[1:], outs[1:]):
        d.prove([int(i) for i in o[0]] == [int(i) for i in ref[0]], "same_indices_under_every_encoding",
                info=dict(encoding=enc, got=[int(i) for i in o[0]], reference=[int(i) for i in ref[0]]))
        d.prove(d.eq_arr(o[1], ref[1], 1e-9), "same_utilities_under_every_encoding", info=dict(encoding=enc))
    d.witness(sum(1 for k in idx if k < 0) >= 2 or (rows and all(k >= 0 for k in idx)), "two_candidates")


# ---------------------------------------------------------------- ParzenWindowClassifier
def sc_pwc(d, n, nq, K, encs):
    from skactiveml.classifier import ParzenWindowClassifier
    idx = [d.choose(f"label{i}", [-1] + list(range(K))) for i in range(n)]
    ks = [[d.fl(f"k{i}_{j}", lo=0.0) for j in range(n)] for i in range(nq)]
    Kq = d.arr(ks, shape=(nq, n))
    seed = d.integer("seed", 0, 2 ** 31 - 2)
    res = []
    for enc in encs:
        e = ENC[enc]
        clf = ParzenWindowClassifier(metric="precomputed", classes=e["classes"][:K], missing_label=e["missing"], random_state=seed)
        try:
            clf.fit(d.zeros((n, 1)), encode(d, idx, enc))
            res.append((clf.predict_proba(Kq), clf.predict(Kq)))
        except (core.Unencodable, core.PathAbort):
            raise
        except Exception as ex:
            d.prove(False, "fit_predict_succeed_under_every_encoding", info=dict(encoding=enc, error=repr(ex)[:160]))
            return
    for enc, (P, pred) in zip(encs[1:], res[1:]):
        d.prove(d.eq_arr(P, res[0][0], 1e-12), "same_probabilities_under_every_encoding", info=dict(encoding=enc))
        a = [class_index(v, encs[0], K) for v in (list(arrays.raw(arrays.asnd(res[0][1]))) if d.sym else list(res[0][1]))]
        bb = [class_index(v, enc, K) for v in (list(arrays.raw(arrays.asnd(pred))) if d.sym else list(pred))]
        d.prove(a == bb and None not in a, "predictions_are_the_re_encoded_originals", info=dict(encoding=enc, reference=a, got=bb))
    d.witness(all(k < 0 for k in idx), "no_labels")


def sc_pwc_rbf_mean(d, n, K, encs):
    """rbf kernel with the 'mean' bandwidth heuristic (the bandwidth is computed from the number of labeled samples)"""
    from skactiveml.classifier import ParzenWindowClassifier
    idx = [d.choose(f"label{i}", [-1] + list(range(K))) for i in range(n)]
    X = d.arr([[d.fl(f"x{i}", lo=-2.0, hi=2.0)] for i in range(n)], shape=(n, 1))
    Xq = d.arr([[d.fl("q", lo=-2.0, hi=2.0)]], shape=(1, 1))
    res = []
    for enc in encs:
        e = ENC[enc]
        clf = ParzenWindowClassifier(metric="rbf", metric_dict={"gamma": "mean"}, classes=e["classes"][:K], missing_label=e["missing"])
        try:
            clf.fit(X, encode(d, idx, enc))
            res.append((clf.predict_freq(Xq), clf.metric_dict_["gamma"]))
        except (core.Unencodable, core.PathAbort):
            raise
        except Exception as ex:
            d.prove(False, "fit_predict_succeed_under_every_encoding", info=dict(encoding=enc, error=repr(ex)[:160]))
            return
    for enc, (Fq, g) in zip(encs[1:], res[1:]):
        d.prove(d.eq(g, res[0][1], 1e-12), "same_bandwidth_under_every_encoding", info=dict(encoding=enc))
        d.prove(d.eq_arr(Fq, res[0][0], 1e-9), "same_frequencies_under_every_encoding", info=dict(encoding=enc))
    d.witness(any(k < 0 for k in idx) and any(k >= 0 for k in idx), "mixed_labels")


# ---------------------------------------------------------------- GreedySamplingTarget (regression: NaN vs -1 sentinel)
def make_stub_regressor(d, missing):
    from skactiveml.base import SkactivemlRegressor

    class StubReg(SkactivemlRegressor):
        def __init__(self, missing_label=NAN, random_state=None):
            super().__init__(missing_label=missing_label, random_state=random_state)

        def fit(self, X, y, sample_weight=None):
            return self

        def predict(self, X):
            if d.sym:
                X = arrays.asnd(X)
                f = models._fn("regF", X.shape[1])
                out = [core.SymFloat(f(z3.IntVal(0), z3.IntVal(0), *models._row_terms(list(r)))) for r in arrays.raw(X)]
                if not hasattr(d.c, "inputs"):
                    d.c.inputs = {}
                d.c.inputs.setdefault("__reg__", []).extend([[list(r), o] for r, o in zip(arrays.raw(X), out)])
                return arrays.SymNd(arrays._to_obj(out) if out else np.empty(0, dtype=object), float)
            X = np.asarray(X, dtype=float)
            tab = d.inputs.get("__reg__", [])
            out = np.zeros(len(X))
            for i, r in enumerate(X):
                for row, v in tab:
                    if np.array_equal(np.asarray(row, dtype=float), r):
                        out[i] = v
            return out
    return StubReg(missing_label=missing)


def sc_gst(d, n, b, method):
    P = pl.pool()
    miss = [d.choose(f"missing{i}", [0, 1]) for i in range(n)]
    if not any(miss):
        if d.sym:
            raise core.PathAbort("no candidate")
        return
    X = d.arr([[d.fl(f"x{i}", lo=-4.0, hi=4.0)] for i in range(n)], shape=(n, 1))
    ys = [None if miss[i] else d.fl(f"y{i}", lo=0.0, hi=4.0) for i in range(n)]   # targets differ from the sentinel -1
    seed = d.integer("seed", 0, 2 ** 31 - 2)
    outs = []
    for sentinel in (NAN, -1.0):
        y = d.arr([sentinel if v is None else v for v in ys])
        qs = P.GreedySamplingTarget(method=method, missing_label=sentinel, random_state=seed)
        try:
            outs.append(qs.query(X, y, make_stub_regressor(d, sentinel), fit_reg=False, batch_size=b, return_utilities=True))
        except (core.Unencodable, core.PathAbort):
            raise
        except Exception as e:
            d.prove(False, "query_succeeds_under_every_encoding", info=dict(sentinel=sentinel, error=repr(e)[:160]))
            return
    d.prove([int(i) for i in outs[0][0]] == [int(i) for i in outs[1][0]], "same_indices_under_every_encoding",
            info=dict(nan=[int(i) for i in outs[0][0]], minus_one=[int(i) for i in outs[1][0]]))
    d.prove(d.eq_arr(outs[0][1], outs[1][1], 1e-9), "same_utilities_under_every_encoding")
    d.witness(sum(miss) < n, "some_labeled")


# ---------------------------------------------------------------- ValueOfInformationEER end to end (refits inside the strategy)
def sc_eer_voi(d, n, K, encs, subtract_current, consider_unlabeled=True, normalize=False):
    """symbolic run: stub classifier whose fitted model is a function of (X, encoded y, weights) - the real
    SkactivemlClassifier._validate_data encodes the labels, so equal training sets under two encodings give the same
    model; concrete replay: the real ParzenWindowClassifier"""
    P = pl.pool()
    idx = [d.choose(f"label{i}", [-1] + list(range(K))) for i in range(n)]
    if all(k >= 0 for k in idx):
        if d.sym:
            raise core.PathAbort("no candidate")
        return
    X = d.arr([[d.fl(f"x{i}", lo=-4.0, hi=4.0)] for i in range(n)], shape=(n, 1))
    seed = d.integer("seed", 0, 2 ** 31 - 2)
    outs = []
    for enc in encs:
        e = ENC[enc]
        if d.sym:
            clf = models.StubClassifier(classes=e["classes"][:K], missing_label=e["missing"], n_classes=K, gen=11, validate=True)
        else:
            from skactiveml.classifier import ParzenWindowClassifier
            clf = ParzenWindowClassifier(classes=e["classes"][:K], missing_label=e["missing"])
        qs = P.ValueOfInformationEER(subtract_current=subtract_current, consider_unlabeled=consider_unlabeled, normalize=normalize,
                                     missing_label=e["missing"], random_state=seed)
        try:
            outs.append(qs.query(X, encode(d, idx, enc), clf, fit_clf=True, batch_size=1, return_utilities=True))
        except (core.Unencodable, core.PathAbort):
            raise
        except Exception as ex:
            d.prove(False, "query_succeeds_under_every_encoding", info=dict(encoding=enc, error=repr(ex)[:160]))
            return
    ref = outs[0]
    for enc, o in zip(encs[1:], outs[1:]):
        d.prove(d.eq_arr(o[1], ref[1], 1e-9), "same_utilities_under_every_encoding", info=dict(encoding=enc))
    d.witness(any(k >= 0 for k in idx), "some_labeled")


# ---------------------------------------------------------------- AnnotatorEnsembleClassifier (one member per annotator)
def sc_annot_ensemble(d, n, A, K, encs, voting, member_classes=False):
    """symbolic run: members are stub classifiers (fitted model = function of their training data, which the ensemble
    hands over in encoded form); concrete replay: real ParzenWindowClassifier members"""
    from skactiveml.classifier.multiannotator import AnnotatorEnsembleClassifier
    idx = [[d.choose(f"label{i}_{a}", [-1] + list(range(K))) for a in range(A)] for i in range(n)]
    X = d.arr([[d.fl(f"x{i}", lo=-4.0, hi=4.0)] for i in range(n)], shape=(n, 1))
    Xq = d.arr([[d.fl("q0", lo=-4.0, hi=4.0)]], shape=(1, 1))
    seed = d.integer("seed", 0, 2 ** 31 - 2)
    res = []
    for enc in encs:
        e = ENC[enc]
        flat = encode(d, [k for row in idx for k in row], enc)
        Y = flat.reshape(n, A)
        mc = dict(classes=e["classes"][:K]) if member_classes else {}     # classes declared on the members as well
        if d.sym:
            members = [(f"m{a}", models.StubClassifier(missing_label=e["missing"], n_classes=K, gen=20 + a, validate=member_classes, **mc)) for a in range(A)]
        else:
            from skactiveml.classifier import ParzenWindowClassifier
            members = [(f"m{a}", ParzenWindowClassifier(missing_label=e["missing"], random_state=int(seed) + a, **mc)) for a in range(A)]
        clf = AnnotatorEnsembleClassifier(estimators=members, classes=e["classes"][:K], missing_label=e["missing"], voting=voting,
                                          random_state=seed)
        try:
            clf.fit(X, Y)
            res.append((clf.predict_proba(Xq), clf.predict(Xq)))
        except (core.Unencodable, core.PathAbort):
            raise
        except Exception as ex:
            d.prove(False, "fit_predict_succeed_under_every_encoding", info=dict(encoding=enc, error=repr(ex)[:160]))
            return
    for enc, (Pq, pr) in zip(encs[1:], res[1:]):
        d.prove(d.eq_arr(Pq, res[0][0], 1e-9), "same_probabilities_under_every_encoding", info=dict(encoding=enc))
        a0 = class_index(d.flat(res[0][1])[0], encs[0], K)
        a1 = class_index(d.flat(pr)[0], enc, K)
        d.prove(a0 is not None and a0 == a1, "predictions_are_reencoded_originals", info=dict(encoding=enc, first=a0, other=a1))
    d.witness(any(k >= 0 for row in idx for k in row), "some_labeled")


# ---------------------------------------------------------------- SklearnClassifier / MixtureModelClassifier across encodings
def sc_classifiers(d, kind, n, K, encs, cost):
    """kind 'sklearn': SklearnClassifier around a stub scikit-learn estimator (concrete replay: GaussianNB);
    kind 'mixture': MixtureModelClassifier around the stub mixture model of C11"""
    from harness import C11
    idx = [d.choose(f"label{i}", [-1] + list(range(K))) for i in range(n)]
    X = d.arr([[float(i)] for i in range(n)], shape=(n, 1))
    Xq = d.arr([[float(d.choose("query_row", [0, 5]))]], shape=(1, 1))
    seed = d.integer("seed", 0, 2 ** 31 - 2)
    C = [[0.0 if a == b else float(1 + ((2 * a + b) % 3)) for b in range(K)] for a in range(K)] if cost else None
    res = []
    mix = C11._stub_mixture(d, 2) if kind == "mixture" else None      # one mixture model (one responsibility table) for all encodings
    for enc in encs:
        e = ENC[enc]
        if kind == "sklearn_unfittable":
            # the wrapped estimator raises in fit: predict_proba falls back to the label frequencies
            from sklearn.base import BaseEstimator, ClassifierMixin
            from skactiveml.classifier import SklearnClassifier

            class Unfittable(ClassifierMixin, BaseEstimator):
                def fit(self, X, y, sample_weight=None):
                    raise ValueError("this estimator cannot be fitted")

                def predict_proba(self, X):
                    raise NotImplementedError

                def predict(self, X):
                    raise NotImplementedError
            clf = SklearnClassifier(Unfittable(), classes=e["classes"][:K], missing_label=e["missing"], cost_matrix=C, random_state=seed)
        elif kind == "sklearn":
            from skactiveml.classifier import SklearnClassifier
            if d.sym:
                est = C11.make_stub_estimator()()
            else:
                from sklearn.naive_bayes import GaussianNB
                est = GaussianNB()
            clf = SklearnClassifier(est, classes=e["classes"][:K], missing_label=e["missing"], cost_matrix=C, random_state=seed)
        else:
            from skactiveml.classifier import MixtureModelClassifier
            clf = MixtureModelClassifier(mixture_model=mix, classes=e["classes"][:K], missing_label=e["missing"],
                                         cost_matrix=C, random_state=seed)
        try:
            clf.fit(X, encode(d, idx, enc))
            res.append((clf.predict_proba(Xq), clf.predict(Xq)))
        except (core.Unencodable, core.PathAbort):
            raise
        except Exception as ex:
            d.prove(False, "fit_predict_succeed_under_every_encoding", info=dict(encoding=enc, error=repr(ex)[:160]))
            return
    for enc, (Pq, pr) in zip(encs[1:], res[1:]):
        d.prove(d.eq_arr(Pq, res[0][0], 1e-9), "same_probabilities_under_every_encoding", info=dict(encoding=enc))
        a0 = class_index(d.flat(res[0][1])[0], encs[0], K)
        a1 = class_index(d.flat(pr)[0], enc, K)
        if kind != "sklearn_unfittable":       # (the fallback prediction is a random draw from the label frequencies)
            d.prove(a0 is not None and a0 == a1, "predictions_are_reencoded_originals", info=dict(encoding=enc, first=a0, other=a1))
    d.witness(any(k >= 0 for k in idx), "some_labeled")


# ---------------------------------------------------------------- EER sample concatenation
def sc_eer_concat(d, n, K, enc, with_eval):
    P = pl.pool()
    from skactiveml.utils import is_unlabeled
    e = ENC[enc]
    idx = [d.choose(f"label{i}", [-1] + list(range(K))) for i in range(n)]
    X = d.arr([[d.fl(f"x{i}")] for i in range(n)], shape=(n, 1))
    cand = d.arr([[d.fl("c0")], [d.fl("c1")]], shape=(2, 1))
    Xe = d.arr([[d.fl("e0")]], shape=(1, 1)) if with_eval else None
    y = encode(d, idx, enc)
    qs = P.MonteCarloEER(missing_label=e["missing"])
    qs.missing_label_ = e["missing"]
    try:
        X_full, y_full, w_full, w_eval, idx_train, idx_cand, idx_eval = qs._concatenate_samples(X, y, None, cand, None, Xe, None)
        unl = is_unlabeled(y_full, missing_label=e["missing"])
    except (core.Unencodable, core.PathAbort):
        raise
    except Exception as ex:
        d.prove(False, "concatenation_succeeds_under_every_encoding", info=dict(error=repr(ex)[:160]))
        return
    ul = d.flat(unl)
    m = n + 2 + (1 if with_eval else 0)
    d.prove(len(ul) == m, "concatenated_length")
    for i in range(n, min(m, len(ul))):
        d.prove(bool(ul[i]) if not d.sym else ul[i], "appended_rows_are_unlabeled_under_the_sentinel", info=dict(pos=i))
    for i in range(n):
        d.prove((bool(ul[i]) if not d.sym else ul[i]) == (idx[i] < 0) if not d.sym else core.b_eq(core.boolexpr(ul[i]), idx[i] < 0),
                "training_rows_keep_their_label_status", info=dict(pos=i))
    d.witness(True, "ran")


# ---------------------------------------------------------------- aggregation
def sc_votes(d, n, A, K, encs):
    import skactiveml.utils as U
    idx = [[d.choose(f"label{i}_{a}", [-1] + list(range(K))) for a in range(A)] for i in range(n)]
    ws = [[d.fl(f"w{i}_{a}", lo=0.0) for a in range(A)] for i in range(n)]
    seed = d.integer("seed", 0, 2 ** 31 - 2)
    res = []
    for enc in encs:
        e = ENC[enc]
        Y = encode(d, [k for row in idx for k in row], enc).reshape(n, A)
        V = U.compute_vote_vectors(Y, w=d.arr(ws, shape=(n, A)), classes=e["classes"][:K], missing_label=e["missing"])
        mv = U.majority_vote(Y, w=d.arr(ws, shape=(n, A)), classes=e["classes"][:K], missing_label=e["missing"], random_state=seed)
        res.append((V, [class_index(v, enc, K) for v in (list(arrays.raw(arrays.asnd(mv))) if d.sym else list(mv))]))
    for enc, (V, mv) in zip(encs[1:], res[1:]):
        d.prove(d.eq_arr(V, res[0][0], 1e-12), "same_vote_vectors_under_every_encoding", info=dict(encoding=enc))
        d.prove(mv == res[0][1], "majority_votes_are_the_re_encoded_originals", info=dict(encoding=enc, got=mv, reference=res[0][1]))
    d.witness(True, "ran")


# ----------------------------------------------------------------
PAIRS_Q = [["float_nan", "int_m1"], ["float_nan", "str_nan"], ["float_nan", "obj_none"]]


def _cfg_pool(tier):
    out = []
    names = ["RandomSampling", "UncertaintySampling[least_confident]", "UncertaintySampling[entropy]", "CoreSet", "GreedySamplingX",
             "QueryByCommittee", "DiscriminativeAL", "DiscriminativeAL[greedy]", "ProbabilisticAL[metric=rbf]"]
    for name in names:
        for encs in (PAIRS_Q if tier == "quick" else PAIRS_Q + [["int_m1", "str_nan", "obj_none"]]):
            if name in ("QueryByCommittee", "UncertaintySampling[entropy]", "DiscriminativeAL", "DiscriminativeAL[greedy]",
                        "ProbabilisticAL[metric=rbf]") and tier == "quick" and encs != PAIRS_Q[0]:
                continue
            out.append(dict(name=name, n=3, K=2, encs=encs, b=2))
    out.append(dict(name="QueryByCommittee[vote_entropy]", n=2, K=2, encs=["float_nan", "str_nan"], b=1))
    # candidates as feature rows, incl. fully labeled label arrays (whose string dtype is narrower than the sentinel)
    for name in ("CoreSet", "GreedySamplingX", "UncertaintySampling[least_confident]", "RandomSampling"):
        for encs in ([PAIRS_Q[1]] if tier == "quick" else PAIRS_Q):
            out.append(dict(name=name, n=2, K=2, encs=encs, b=2, rows=True))
    return out


UNITS = pl.BASE_UNITS + ["skactiveml.utils._label:is_unlabeled", "skactiveml.utils._label_encoder:ExtLabelEncoder",
                         "skactiveml.utils._aggregation:compute_vote_vectors", "skactiveml.utils._aggregation:majority_vote",
                         "skactiveml.classifier._parzen_window_classifier:ParzenWindowClassifier.fit",
                         "skactiveml.base:SkactivemlClassifier._validate_data", "skactiveml.base:SkactivemlClassifier.predict",
                         "skactiveml.pool._greedy_sampling:GreedySamplingTarget.query",
                         "skactiveml.pool._expected_error_reduction:ExpectedErrorReduction._concatenate_samples",
                         "skactiveml.pool._uncertainty_sampling:UncertaintySampling.query", "skactiveml.pool._core_set:CoreSet.query"]
# ---------------------------------------------------------------- SingleAnnotatorWrapper: aggregated labels under encodings
def sc_saw(d, n, A, encs):
    """the wrapper aggregates the annotators' labels (majority vote) before it asks the wrapped strategy: a sentinel other
    than NaN must not take part in that vote"""
    P = __import__("skactiveml.pool.multiannotator", fromlist=["SingleAnnotatorWrapper"])
    K = 2
    idx = [[d.choose(f"label{i}_{a}", [-1, 0, 1]) for a in range(A)] for i in range(n)]
    if all(k >= 0 for r in idx for k in r):
        if d.sym:
            raise core.PathAbort("no missing label")
        return
    X = d.arr([[d.fl(f"x{i}", lo=-4.0, hi=4.0)] for i in range(n)], shape=(n, 1))
    seed = d.integer("seed", 0, 2 ** 31 - 2)
    outs = []
    for enc in encs:
        e = ENC[enc]
        vals = [[e["missing"] if k < 0 else e["classes"][k] for k in r] for r in idx]
        y = d.arr(vals, dtype=e["dtype"], shape=(n, A)) if e["dtype"] is not object else d.arr(vals, dtype=object, shape=(n, A))
        inner = pl.pool().RandomSampling(random_state=seed, missing_label=e["missing"])
        w = P.SingleAnnotatorWrapper(strategy=inner, random_state=seed, missing_label=e["missing"])
        try:
            outs.append(w.query(X, y, batch_size=2, return_utilities=True))
        except (core.Unencodable, core.PathAbort):
            raise
        except Exception as ex:
            d.prove(False, "query_succeeds_under_every_encoding", info=dict(encoding=enc, error=repr(ex)[:160]))
            return
    ref = outs[0]
    flat = lambda o: [int(v) for v in (arrays.raw(arrays.asnd(o[0])).reshape(-1) if d.sym else np.asarray(o[0]).reshape(-1))]
    for enc, o in zip(encs[1:], outs[1:]):
        d.prove(flat(o) == flat(ref), "same_pairs_under_every_encoding", info=dict(encoding=enc, got=flat(o), reference=flat(ref)))
        d.prove(d.eq_arr(o[1], ref[1], 1e-9) if np.shape(o[1]) == np.shape(ref[1]) else False, "same_utilities_under_every_encoding",
                info=dict(encoding=enc))
    d.witness(any(k >= 0 for r in idx for k in r), "some_labels")


# ---------------------------------------------------------------- check_X_y (validation helper of the cost-embedding strategy)
_NAN_SPELLINGS = {"np.nan": np.nan, "float('nan')": float("nan"), "math.nan": __import__("math").nan, "np.float64('nan')": np.float64("nan"),
                  "np.float32('nan')": np.float32("nan")}


def sc_check_x_y(d, n, enc, spelling=None):
    """a label array that uses the sentinel handed as missing_label passes the validation and comes back unchanged - for
    every encoding and, for NaN, for every object that spells it (a NaN sentinel is recognised by value, not by identity)"""
    from skactiveml.utils import check_X_y
    e = ENC[enc]
    K = 2
    idx = [d.choose(f"label{i}", [-1] + list(range(K))) for i in range(n)]
    missing = _NAN_SPELLINGS[spelling] if spelling else e["missing"]
    X = d.arr([[d.fl(f"x{i}", lo=-4.0, hi=4.0)] for i in range(n)], shape=(n, 1))
    y = encode(d, idx, enc)
    try:
        out = check_X_y(X, y, missing_label=missing)
    except (core.Unencodable, core.PathAbort):
        raise
    except Exception as ex:
        d.prove(False, "labels_with_the_sentinel_are_accepted", info=dict(encoding=enc, sentinel=spelling or repr(missing), error=repr(ex)[:160]))
        return
    yo = out[1]
    got = [class_index(v, enc, K) for v in (list(arrays.raw(arrays.asnd(yo))) if d.sym else list(yo))]
    d.prove(got == [k if k >= 0 else None for k in idx], "labels_returned_unchanged", info=dict(got=got, given=idx))
    d.witness(any(k < 0 for k in idx), "some_missing")


HARNESSES = [
    dual_harness("pool_strategies", sc_pool, _cfg_pool, UNITS, required_witnesses=("two_candidates",), product_abstraction=True, resample=12),
    dual_harness("parzen_window", sc_pwc,
                 lambda tier: [dict(n=2, nq=1, K=K, encs=e) for K in ((2,) if tier == "quick" else (2, 3)) for e in PAIRS_Q],
                 UNITS[8:16], required_witnesses=("no_labels",)),
    dual_harness("parzen_window_rbf_mean_bandwidth", sc_pwc_rbf_mean,
                 lambda tier: [dict(n=n, K=2, encs=e) for n in ((2, 3) if tier == "quick" else (2, 3, 4)) for e in PAIRS_Q],
                 UNITS[8:16], required_witnesses=("mixed_labels",), product_abstraction=True),
    dual_harness("greedy_sampling_target", sc_gst,
                 lambda tier: [dict(n=n, b=b, method=m) for n in ((3,) if tier == "quick" else (3, 4)) for b in (1, 2) for m in ("GSy", "GSi")],
                 UNITS[:9] + UNITS[15:16], required_witnesses=("some_labeled",), product_abstraction=True),
    dual_harness("eer_value_of_information", sc_eer_voi,
                 lambda tier: [dict(n=3, K=2, encs=e, subtract_current=sc) for sc in (False, True)
                               for e in ([PAIRS_Q[0]] if tier == "quick" else PAIRS_Q)]
                 # only the labeled samples are evaluated and the error is normalised by their number - also when there is none
                 + [dict(n=2, K=2, encs=PAIRS_Q[0], subtract_current=True, consider_unlabeled=False, normalize=True)],
                 UNITS[:9] + ["skactiveml.pool._expected_error_reduction:ExpectedErrorReduction.query",
                              "skactiveml.pool._expected_error_reduction:ValueOfInformationEER._estimate_error_for_candidate",
                              "skactiveml.pool._expected_error_reduction:ValueOfInformationEER._estimate_current_error",
                              "skactiveml.pool.utils:IndexClassifierWrapper.fit", "skactiveml.pool.utils:IndexClassifierWrapper.partial_fit"],
                 required_witnesses=("some_labeled",), product_abstraction=True, timeout_ms=30000, resample=20),
    dual_harness("annotator_ensemble", sc_annot_ensemble,
                 lambda tier: [dict(n=2, A=2, K=2, encs=e, voting=v) for v in ("hard", "soft")
                               for e in ([PAIRS_Q[0]] if tier == "quick" else PAIRS_Q)]
                 + [dict(n=2, A=2, K=2, encs=PAIRS_Q[0], voting="soft", member_classes=True)],
                 ["skactiveml.classifier.multiannotator._annotator_ensemble_classifier:AnnotatorEnsembleClassifier.fit",
                  "skactiveml.classifier.multiannotator._annotator_ensemble_classifier:AnnotatorEnsembleClassifier.predict_proba",
                  "skactiveml.base:SkactivemlClassifier._validate_data", "skactiveml.base:SkactivemlClassifier.predict",
                  "skactiveml.utils._aggregation:compute_vote_vectors"],
                 required_witnesses=("some_labeled",), product_abstraction=True, timeout_ms=30000),
    dual_harness("classifiers_under_encodings", sc_classifiers,
                 lambda tier: [dict(kind=k, n=2, K=K, encs=e, cost=cm) for k in ("sklearn", "sklearn_unfittable", "mixture") for K in (2, 3)
                               for cm in (False, True) for e in ([PAIRS_Q[0]] if tier == "quick" else PAIRS_Q)
                               if tier != "quick" or (K, cm) in ((2, False), (3, True))]
                 + [dict(kind="sklearn", n=2, K=2, encs=["float_nan", "objnum_none"], cost=False)],
                 ["skactiveml.classifier._wrapper:SklearnClassifier._fit", "skactiveml.classifier._wrapper:SklearnClassifier.predict_proba",
                  "skactiveml.classifier._wrapper:SklearnClassifier.predict",
                  "skactiveml.classifier._mixture_model_classifier:MixtureModelClassifier.fit",
                  "skactiveml.classifier._mixture_model_classifier:MixtureModelClassifier.predict_freq",
                  "skactiveml.base:SkactivemlClassifier._validate_data", "skactiveml.base:SkactivemlClassifier.predict"],
                 required_witnesses=("some_labeled",), timeout_ms=30000),
    dual_harness("eer_concatenate_samples", sc_eer_concat,
                 lambda tier: [dict(n=2, K=2, enc=e, with_eval=w) for e in ENC for w in (False, True)], UNITS[8:10] + UNITS[16:17],
                 required_witnesses=("ran",)),
    dual_harness("aggregation", sc_votes,
                 lambda tier: [dict(n=1, A=2, K=2, encs=e) for e in PAIRS_Q] + ([dict(n=2, A=2, K=2, encs=PAIRS_Q[0])] if tier == "thorough" else []),
                 UNITS[8:12], required_witnesses=("ran",)),
    dual_harness("check_X_y_sentinels", sc_check_x_y,
                 lambda tier: [dict(n=2, enc=e) for e in ENC] + [dict(n=2, enc="float_nan", spelling=sp) for sp in _NAN_SPELLINGS],
                 ["skactiveml.utils._validation:check_X_y"], required_witnesses=("some_missing",)),
    dual_harness("single_annotator_wrapper_aggregation", sc_saw,
                 lambda tier: [dict(n=2, A=2, encs=["float_nan", "int_m1"])],
                 ["skactiveml.pool.multiannotator._wrapper:SingleAnnotatorWrapper.query", "skactiveml.utils._aggregation:majority_vote"],
                 required_witnesses=("some_labels",)),
]
BOUNDS = dict(quick="n = 3 samples / K = 2 classes for the pool strategies (RandomSampling, UncertaintySampling x2, CoreSet, GreedySamplingX, "
                    "QueryByCommittee), n = 2 for ParzenWindowClassifier and EER sample concatenation, 1x2 label matrices for aggregation; "
                    "every label/missing pattern; encoding pairs float/NaN vs int/-1, str/'nan', object/None; GreedySamplingTarget with "
                    "sentinel NaN vs -1",
              thorough="K = 3 for PWC, n = 4 for GreedySamplingTarget, all four encodings at once",
              outside="stream strategies, FourDs, other pool strategies, classifiers other than ParzenWindowClassifier")
ASSUMPTIONS = [
    "order-preserving class names (0,1,2 <-> 10,20,30 <-> 'a','b','c'); missing_label and classes set consistently on strategy and models",
    "models are pre-fitted stubs (uninterpreted functions of the feature row) shared by all encodings",
    "regression targets differ from the numeric sentinel -1 (they lie in [0,4])",
]
