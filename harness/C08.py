"""C08 — a sample's utility does not depend on how candidates are addressed.
Paired symbolic runs of the real query() on the same symbolic (X, y): candidates
None vs. the unlabeled indices vs. their feature rows, candidate subsets, and row
permutations. Models are pre-fitted stubs (uninterpreted function of the feature
row), so "same sample => same score" is available to the solver while all index
bookkeeping is the strategy's real code. Dual scenarios (symbolic + replay)."""
from __future__ import annotations

import itertools

import numpy as np

from harness import models
from harness import poollib as pl
from harness.common import dual_harness
from symx import arrays, core

PID = "C08"
NAN = float("nan")


def _clf(d, table, gen=7, K=2, validate=False, partial=False):
    if partial and not d.sym:
        # replay: a real incremental learner (what the model becomes depends on every batch it has absorbed)
        from sklearn.naive_bayes import GaussianNB
        from skactiveml.classifier import SklearnClassifier
        return SklearnClassifier(GaussianNB(), classes=list(range(K)))
    if d.sym:
        c = models.StubClassifier(classes=list(range(K)), n_classes=K, gen=gen, validate=validate, partial=partial)
    else:
        c = models.real_table_classifier([(row, p) for g, row, p in (table or []) if validate or g == gen], n_classes=K, validate=validate)
    c.classes_ = np.arange(K)
    return c


LAST = {}


def _call(d, name, seed, X, y, cand):
    P = pl.pool()
    table = d.inputs.get("__clf__")
    if name == "RandomSampling":
        return P.RandomSampling(random_state=seed).query(X, y, candidates=cand, batch_size=1, return_utilities=True)
    if name.startswith("UncertaintySampling"):
        method = name.split("[")[1][:-1]
        LAST["qs"] = P.UncertaintySampling(method=method, random_state=seed)
        return LAST["qs"].query(X, y, _clf(d, table), fit_clf=False, candidates=cand, batch_size=1, return_utilities=True)
    if name == "QueryByCommittee":
        ens = [_clf(d, table, gen=1), _clf(d, table, gen=2)]
        return P.QueryByCommittee(random_state=seed).query(X, y, ens, fit_ensemble=False, candidates=cand, batch_size=1,
                                                          return_utilities=True)
    if name == "CoreSet":
        return P.CoreSet(random_state=seed).query(X, y, candidates=cand, batch_size=1, return_utilities=True)
    if name == "GreedySamplingX":
        return P.GreedySamplingX(random_state=seed).query(X, y, candidates=cand, batch_size=1, return_utilities=True)
    if name == "Quire":
        return P.Quire(classes=[0.0, 1.0], metric="precomputed", random_state=seed).query(
            X, y, candidates=cand, batch_size=1, return_utilities=True)
    if name.startswith("SubSamplingWrapper"):
        # sub-sample at least as large as the candidate set: the wrapper must then be the wrapped strategy, whatever the
        # candidate form and whether or not the other unlabeled samples are excluded from the reduced training set
        inner = P.UncertaintySampling(method="margin_sampling", random_state=seed)
        w = P.SubSamplingWrapper(query_strategy=inner, max_candidates=10, exclude_non_subsample=name.endswith("[exclude]"), random_state=seed)
        return w.query(X, y, clf=_clf(d, table), fit_clf=False, candidates=cand, batch_size=1, return_utilities=True)
    if name.startswith("ContrastiveAL"):
        # (two neighbours among the labeled samples: the number of candidates must not enter the neighbourhood size)
        return P.ContrastiveAL(random_state=seed, nearest_neighbors_dict={"n_neighbors": 2}).query(
            X, y, _clf(d, table), fit_clf=False, candidates=cand, batch_size=1, return_utilities=True)
    if name == "ValueOfInformationEER[partial_fit]":
        # an incremental learner whose own partial_fit is used for the simulated labels (ignore_partial_fit=False)
        return P.ValueOfInformationEER(random_state=seed).query(
            X, y, _clf(d, table, validate=True, partial=True), fit_clf=True, ignore_partial_fit=False, candidates=cand,
            batch_size=1, return_utilities=True)
    if name in ("ValueOfInformationEER", "MonteCarloEER"):
        K = getattr(P, name)
        return K(random_state=seed).query(X, y, _clf(d, table, validate=True), fit_clf=True, candidates=cand, batch_size=1, return_utilities=True)
    raise ValueError(name)


SPEC = {  # name: (independent scorer, supports feature-row candidates)
    "RandomSampling": (True, True), "UncertaintySampling[least_confident]": (True, True),
    "UncertaintySampling[margin_sampling]": (True, True), "UncertaintySampling[entropy]": (True, True),
    "QueryByCommittee": (True, True), "CoreSet": (False, True), "GreedySamplingX": (False, True), "Quire": (False, False),
    "ValueOfInformationEER": (False, False), "MonteCarloEER": (False, False), "ValueOfInformationEER[partial_fit]": (False, False),
    "SubSamplingWrapper": (True, True), "SubSamplingWrapper[exclude]": (True, False),
    "ContrastiveAL[n_neighbors=2]": (True, True),
}


def _data(d, name, n):
    lab = [d.choose(f"labeled{i}", [0, 1]) for i in range(n)]
    if name == "Quire":
        # precomputed symmetric kernel matrix with unit diagonal
        K = [[None] * n for _ in range(n)]
        for i in range(n):
            for j in range(i, n):
                K[i][j] = K[j][i] = 1.0 if i == j else d.fl(f"k{i}_{j}", lo=0.0, hi=0.5)
        X = d.arr(K, shape=(n, n))
    else:
        X = d.arr([[d.fl(f"x{i}", lo=-4.0, hi=4.0)] for i in range(n)], shape=(n, 1))
    yv = [float(i % 2) if lab[i] else NAN for i in range(n)]
    return lab, X, yv, d.arr(yv)


def _row0(d, out):
    return d.flat(out[1])[: np.shape(out[1])[1]]


def _is_nan(d, v):
    return pl.is_nan_z(v) if d.sym else bool(np.isnan(v))


def _eq_or_both_nan(d, a, b):
    return d.eq(a, b, 1e-9)


def sc_representation(d, name, n):
    independent, rows_ok = SPEC[name]
    if d.sym and name == "Quire":
        d.c.assume_nonzero_div = True   # K + lambda*I is positive definite: determinants / inverse diagonals are non-zero
    lab, X, yv, y = _data(d, name, n)
    unl = [i for i in range(n) if not lab[i]]
    if not unl or (name in ("Quire",) and len(unl) == n):
        if d.sym:
            raise core.PathAbort("needs unlabeled (and for Quire labeled) samples")
        return
    seed = d.integer("seed", 0, 2 ** 31 - 2)
    o_none = _call(d, name, seed, X, y, None)
    qs_none = LAST.get("qs")
    o_idx = _call(d, name, seed, X, y, list(unl))
    u0, u1 = _row0(d, o_none), _row0(d, o_idx)
    for i in range(n):
        d.prove(_eq_or_both_nan(d, u0[i], u1[i]), "none_vs_unlabeled_indices_same_utilities", info=dict(sample=i))
    d.prove([int(v) for v in o_none[0]] == [int(v) for v in o_idx[0]], "none_vs_unlabeled_indices_same_selection")
    if rows_ok:
        Xr = X[d.arr(unl, dtype=int)] if d.sym else X[np.array(unl, dtype=int)]
        o_rows = _call(d, name, seed, X, y, Xr)
        ur = _row0(d, o_rows)
        d.prove(len(ur) == len(unl), "feature_rows_utilities_length")
        if len(ur) == len(unl):
            for j, i in enumerate(unl):
                d.prove(_eq_or_both_nan(d, ur[j], u0[i]), "feature_rows_same_utilities", info=dict(sample=i))
            # same selection whenever the best candidate is unique
            pick_none = int(o_none[0][0])
            pick_rows = unl[int(o_rows[0][0])] if 0 <= int(o_rows[0][0]) < len(unl) else -1
            if d.sym:
                uniq = core.b_and(*[core.boolexpr(core.s_lt(u0[i], u0[pick_none])) for i in unl if i != pick_none])
                d.prove(core.b_or(core.b_not(uniq), pick_rows == pick_none), "feature_rows_same_selection_if_best_unique")
            else:
                uniq = all(u0[i] < u0[pick_none] for i in unl if i != pick_none)
                d.prove((not uniq) or pick_rows == pick_none, "feature_rows_same_selection_if_best_unique")
    # restriction to a candidate subset leaves the first-step utilities of the remaining candidates unchanged
    # (first-step utilities of CoreSet / GreedySamplingX are distances to the labeled set resp. to all samples:
    # they do not depend on the candidate set either)
    if len(unl) >= 2:
        for sub in itertools.combinations(unl, len(unl) - 1):
            o_sub = _call(d, name, seed, X, y, list(sub))
            if name.startswith("UncertaintySampling") and qs_none is not None:
                # index candidates: utilities have one entry per sample, so the same number of draws was taken for
                # tie-breaking - the generators the two calls derived from (seed, y) are then in the same state, i.e. the
                # derived generator does not depend on how many candidates were named
                from harness import streamlib as sl
                d.prove(sl.eq_value(qs_none.random_state_, LAST["qs"].random_state_), "derived_generator_independent_of_candidates",
                        info=dict(subset=list(sub)))
            us = _row0(d, o_sub)
            for i in sub:
                d.prove(_eq_or_both_nan(d, us[i], u0[i]), "restriction_keeps_utilities", info=dict(subset=list(sub), sample=i))
            for i in range(n):
                if i not in sub:
                    d.prove(_is_nan(d, us[i]), "restriction_nan_outside_subset", info=dict(subset=list(sub), sample=i))
    d.witness(len(unl) >= 2, "two_candidates")


def sc_permutation(d, name, n, perm):
    lab, X, yv, y = _data(d, name, n)
    unl = [i for i in range(n) if not lab[i]]
    if not unl:
        if d.sym:
            raise core.PathAbort("no candidate")
        return
    seed = d.integer("seed", 0, 2 ** 31 - 2)
    o = _call(d, name, seed, X, y, None)
    p = list(perm)
    Xp = X[d.arr(p, dtype=int)] if d.sym else X[np.array(p)]
    yp = d.arr([yv[i] for i in p])
    op = _call(d, name, seed, Xp, yp, None)
    u, up = _row0(d, o), _row0(d, op)
    for j, i in enumerate(p):
        d.prove(_eq_or_both_nan(d, up[j], u[i]), "row_permutation_permutes_utilities", info=dict(perm=p, sample=i))
    d.witness(True, "ran")


def _cfg_quire(tier):
    return [dict(name="Quire", n=3)]


def _cfg_eer(tier):
    # (MonteCarloEER's misclassification loss forks on the maximum of every predicted row for every simulated label: its
    #  exploration does not finish within 20 minutes for n = 3 and is left out)
    return [dict(name="ValueOfInformationEER", n=n) for n in ((3,) if tier == "quick" else (3, 4))] + \
        [dict(name="ValueOfInformationEER[partial_fit]", n=3)]


def _cfg_rep(tier):
    out = []
    for name in SPEC:
        if name in ("Quire", "ValueOfInformationEER", "MonteCarloEER", "ValueOfInformationEER[partial_fit]"):
            continue
        if name.startswith("SubSamplingWrapper") and tier != "quick":
            out.append(dict(name=name, n=3))
            continue
        if name.startswith("ContrastiveAL"):
            out.append(dict(name=name, n=4))      # two labeled neighbours and a candidate subset of size one need four samples
            continue
        for n in ((3,) if tier == "quick" else (3, 4)):
            if name == "Quire" and n > 3:
                continue
            out.append(dict(name=name, n=n))
    return out


def _cfg_perm(tier):
    out = []
    for name, (indep, _) in SPEC.items():
        if not indep:
            continue
        for perm in ([(1, 0, 2), (2, 0, 1)] if tier == "quick" else list(itertools.permutations(range(3)))[1:]):
            out.append(dict(name=name, n=3, perm=list(perm)))
    return out


UNITS = pl.BASE_UNITS + ["skactiveml.pool._random_sampling:RandomSampling.query", "skactiveml.pool._uncertainty_sampling:UncertaintySampling.query",
                         "skactiveml.pool._query_by_committee:QueryByCommittee.query", "skactiveml.pool._core_set:CoreSet.query",
                         "skactiveml.pool._core_set:k_greedy_center", "skactiveml.pool._greedy_sampling:GreedySamplingX.query",
                         "skactiveml.pool._greedy_sampling:_greedy_sampling", "skactiveml.pool._quire:Quire.query",
                         "skactiveml.pool._quire:_del_i_inv", "skactiveml.pool._quire:_L_aa_inv"]
HARNESSES = [
    dual_harness("representation_equivalence", sc_representation, _cfg_rep, UNITS, required_witnesses=("two_candidates",),
                 product_abstraction=True, timeout_ms=30000),
    dual_harness("quire_representation", sc_representation, _cfg_quire, UNITS, required_witnesses=("two_candidates",),
                 product_abstraction=True, timeout_ms=30000),
    dual_harness("eer_representation", sc_representation, _cfg_eer,
                 UNITS[:8] + ["skactiveml.pool._expected_error_reduction:ExpectedErrorReduction.query",
                              "skactiveml.pool._expected_error_reduction:ExpectedErrorReduction._concatenate_samples",
                              "skactiveml.pool._expected_error_reduction:ValueOfInformationEER._estimate_error_for_candidate",
                              "skactiveml.pool._expected_error_reduction:MonteCarloEER._estimate_error_for_candidate",
                              "skactiveml.pool.utils:IndexClassifierWrapper.fit", "skactiveml.pool.utils:IndexClassifierWrapper.partial_fit"],
                 required_witnesses=("two_candidates",), product_abstraction=True, timeout_ms=30000),
    dual_harness("permutation_equivariance", sc_permutation, _cfg_perm, UNITS[:11], required_witnesses=("ran",), product_abstraction=True),
]
BOUNDS = dict(quick="n = 3 samples, every labeled/unlabeled pattern; candidates None vs unlabeled indices vs their feature rows; every "
                    "candidate subset of size u-1; 2 row permutations; strategies: RandomSampling, UncertaintySampling x3, "
                    "QueryByCommittee, CoreSet, GreedySamplingX, Quire (precomputed symbolic 3x3 kernel, closed-form inverses)",
              thorough="n in {3,4}, all 5 non-trivial permutations of 3 rows",
              outside="other pool strategies; EER _concatenate_samples; n > 4; Quire with n > 3")
ASSUMPTIONS = [
    "classifiers / committee members are pre-fitted stubs: predict_proba = uninterpreted function of the feature row (fit_clf=False)",
    "products / quotients of symbolic terms are abstracted by uninterpreted functions: equal arguments => equal results proves the "
    "equivalences when the index bookkeeping is right; a differing argument list yields a candidate that must replay concretely",
    "numpy.linalg.inv of small symbolic matrices by the adjugate formula; Quire: symbolic divisors (determinants, diagonal of the "
    "inverse) are assumed non-zero (K + lambda*I is positive definite)",
]
