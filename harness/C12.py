"""C12 — unlabeled samples do not influence supervised models.
Recording stubs make the claim decidable without modelling any learner: the
wrapped estimator's fit records its (symbolic) arguments, which must be exactly
the labeled sub-sequence of the inputs; for ParzenWindowClassifier and
NICKernelRegressor the fitted state / estimates of a fit on (X, y) and of a fit
on the labeled subset are proven equal. Every scenario runs twice: symbolically
and (for replay) concretely on the unpatched code."""
from __future__ import annotations

import numpy as np

from harness.common import dual_harness
from symx import arrays, core

PID = "C12"
NAN = float("nan")
CLASSES = [20.0, 10.0, 30.0]


def make_recording_classifier(npm, nan_proba=False):
    from sklearn.base import BaseEstimator, ClassifierMixin

    class RecClf(ClassifierMixin, BaseEstimator):
        def fit(self, X, y, sample_weight=None):
            self.fit_log_ = [(X, y, sample_weight)]
            self.classes_ = npm.unique(y)
            return self

        def partial_fit(self, X, y, classes=None, sample_weight=None):
            self.fit_log_ = getattr(self, "fit_log_", []) + [(X, y, sample_weight)]
            self.classes_ = npm.unique(classes)
            return self

        def predict_proba(self, X):
            if nan_proba:
                # an estimator whose probabilities are undefined (e.g. GaussianNB after a single sample): the wrapper
                # then answers with its label statistics
                return npm.full((len(X), len(self.classes_)), float("nan"))
            raise NotImplementedError
    return RecClf()


def make_recording_regressor(npm):
    from sklearn.base import BaseEstimator, RegressorMixin

    class RecReg(RegressorMixin, BaseEstimator):
        def fit(self, X, y, sample_weight=None):
            self.fit_log_ = [(X, y, sample_weight)]
            return self

        def partial_fit(self, X, y, sample_weight=None):
            self.fit_log_ = getattr(self, "fit_log_", []) + [(X, y, sample_weight)]
            return self

        def predict(self, X, return_std=False):
            raise NotImplementedError
    return RecReg()


def _data(d, n, weights, classification, K=2, missing=NAN):
    """missing: the sentinel for unlabeled samples (NaN or the number -1; targets are then kept different from -1)"""
    xs = [d.fl(f"x{i}") for i in range(n)]
    X = d.arr([[x] for x in xs], shape=(n, 1))
    if classification:
        idx = [d.choose(f"label{i}", [-1] + list(range(K))) for i in range(n)]
        yv = [missing if k < 0 else CLASSES[k] for k in idx]
        lab = [i for i in range(n) if idx[i] >= 0]
    else:
        miss = [d.choose(f"missing{i}", [0, 1]) for i in range(n)]
        yv = [missing if miss[i] else d.fl(f"y{i}", lo=(None if missing != missing else 0.0)) for i in range(n)]
        lab = [i for i in range(n) if not miss[i]]
    y = d.arr(yv)
    ws = [d.fl(f"w{i}", lo=0.0) for i in range(n)] if weights else None
    sw = d.arr(ws) if weights else None
    return xs, X, yv, y, ws, sw, lab


def sc_skclf(d, n, K, fitfn, weights, missing=NAN):
    from skactiveml.classifier import SklearnClassifier
    xs, X, yv, y, ws, sw, lab = _data(d, n, weights, True, K, missing)
    clf = SklearnClassifier(make_recording_classifier(d.np), classes=CLASSES[:K], missing_label=missing)
    getattr(clf, fitfn)(X, y, sample_weight=sw)
    log = getattr(clf.estimator_, "fit_log_", [])
    if not lab:
        d.prove(len(log) == 0 and clf.is_fitted_ is False, "estimator_not_fitted_without_labels")
        d.witness(True, "no_labels")
        return
    d.prove(len(log) == 1, "estimator_fitted_once")
    if len(log) != 1:
        return
    Xr, yr, wr = log[0]
    d.prove(d.eq_arr(Xr, d.arr([[xs[i]] for i in lab], shape=(len(lab), 1))), "estimator_sees_exactly_labeled_rows")
    d.prove(d.eq_arr(yr, d.arr([yv[i] for i in lab])), "estimator_sees_exactly_labeled_targets")
    if weights:
        d.prove(wr is not None and d.eq_arr(wr, d.arr([ws[i] for i in lab])), "estimator_sees_exactly_labeled_weights")
    else:
        d.prove(wr is None, "estimator_sees_exactly_labeled_weights")
    d.witness(len(lab) < n, "some_unlabeled")


def sc_skreg(d, n, fitfn, weights, normal, missing=NAN):
    import skactiveml.regressor as R
    xs, X, yv, y, ws, sw, lab = _data(d, n, weights, False, missing=missing)
    Kc = R.SklearnNormalRegressor if normal else R.SklearnRegressor
    reg = Kc(make_recording_regressor(d.np), missing_label=missing)
    getattr(reg, fitfn)(X, y, sample_weight=sw)
    log = getattr(reg.estimator_, "fit_log_", [])
    d.prove(len(log) == 1, "estimator_fitted_once")
    if len(log) != 1:
        return
    Xr, yr, wr = log[0]
    d.prove(d.eq_arr(Xr, d.arr([[xs[i]] for i in lab], shape=(len(lab), 1))), "estimator_sees_exactly_labeled_rows")
    d.prove(d.eq_arr(yr, d.arr([yv[i] for i in lab])), "estimator_sees_exactly_labeled_targets")
    if weights:
        d.prove(wr is not None and d.eq_arr(wr, d.arr([ws[i] for i in lab])), "estimator_sees_exactly_labeled_weights")
    d.witness(0 < len(lab) < n, "some_unlabeled")


def sc_pwc(d, n, nq, K, weights):
    from skactiveml.classifier import ParzenWindowClassifier
    xs, X, yv, y, ws, sw, lab = _data(d, n, weights, True, K)
    ks = [[d.fl(f"k{i}_{j}", lo=0.0) for j in range(n)] for i in range(nq)]
    Kq = d.arr(ks, shape=(nq, n))
    cls = CLASSES[:K]
    sw0 = sw.copy() if sw is not None else None
    full = ParzenWindowClassifier(metric="precomputed", classes=cls).fit(d.zeros((n, 1)), y, sw)
    if sw is not None:
        # the weight array is the caller's (it is reused when further labels are revealed): fit must not write into it
        d.prove(d.eq_arr(sw, sw0), "fit_leaves_sample_weight_unchanged")
    Ff = full.predict_freq(Kq)
    if not lab:
        d.prove(all(bool(d.eq(v, 0.0)) if not d.sym else True for v in d.flat(Ff)) if not d.sym else
                core.b_and(*[d.eq(v, 0.0) for v in d.flat(Ff)]), "no_frequency_without_labels")
        return
    sub = ParzenWindowClassifier(metric="precomputed", classes=cls).fit(
        d.zeros((len(lab), 1)), d.arr([yv[i] for i in lab]), None if sw is None else d.arr([ws[i] for i in lab]))
    Ksub = d.arr([[ks[i][j] for j in lab] for i in range(nq)], shape=(nq, len(lab)))
    d.prove(d.eq_arr(Ff, sub.predict_freq(Ksub), 1e-12), "frequencies_equal_fit_on_labeled_subset")
    d.prove(d.eq_arr(full.predict_proba(Kq), sub.predict_proba(Ksub), 1e-12), "probabilities_equal_fit_on_labeled_subset")
    if weights and len(lab) < n:
        # any weight at all for the unlabeled samples (NaN and +-inf are accepted by the validation)
        w2 = [ws[i] if i in lab else d.fl(f"v{i}", nan=True, inf=True) for i in range(n)]
        alt = ParzenWindowClassifier(metric="precomputed", classes=cls).fit(d.zeros((n, 1)), y, d.arr(w2))
        d.prove(d.eq_arr(Ff, alt.predict_freq(Kq), 1e-12), "weights_of_unlabeled_samples_irrelevant")
    d.witness(0 < len(lab) < n, "some_unlabeled")


def sc_nic(d, n, weights, missing=NAN):
    from skactiveml.regressor import NICKernelRegressor
    xs, X, yv, y, ws, sw, lab = _data(d, n, weights, False, missing=missing)
    if weights and not lab:
        if d.sym:
            raise core.PathAbort("NICKernelRegressor rejects weights whose labeled part sums to zero (documented)")
        return
    if weights and d.sym:
        tot = np.float64(0.0)
        for i in lab:
            tot = core.s_add(tot, ws[i])
        d.c.assume(core.s_lt(0, tot))
    reg = NICKernelRegressor(missing_label=missing).fit(X, y, sw)
    d.prove(d.eq_arr(reg.X_, d.arr([[xs[i]] for i in lab], shape=(len(lab), 1))), "stores_exactly_labeled_rows")
    d.prove(d.eq_arr(reg.y_, d.arr([yv[i] for i in lab])), "stores_exactly_labeled_targets")
    if weights:
        d.prove(d.eq_arr(reg.weights_, d.arr([ws[i] for i in lab])), "stores_exactly_labeled_weights")
    if lab:
        sub = NICKernelRegressor(missing_label=missing).fit(d.arr([[xs[i]] for i in lab], shape=(len(lab), 1)), d.arr([yv[i] for i in lab]),
                                       None if sw is None else d.arr([ws[i] for i in lab]))
        xq = d.arr([[d.fl("q")]], shape=(1, 1))
        a = reg._estimate_ml_params(xq)
        b = sub._estimate_ml_params(xq)
        for u, v, nm in zip(a, b, ("N", "mu_ml", "var_ml")):
            d.prove(d.eq_arr(u, v, 1e-9), f"ml_estimate_equal_fit_on_labeled_subset:{nm}")
    d.witness(0 < len(lab) < n, "some_unlabeled")


def sc_skreg_unfittable(d, n, normal, missing=NAN):
    """the wrapped estimator cannot be fitted: the fallback prediction of fit(X, y) equals that of a fit on the labeled
    subset (unlabeled targets - whatever their sentinel - do not enter the label statistics)"""
    import skactiveml.regressor as R
    from harness.C15 import make_unfittable
    xs, X, yv, y, ws, sw, lab = _data(d, n, False, False, missing=missing)
    Kc = R.SklearnNormalRegressor if normal else R.SklearnRegressor
    Xq = d.arr([[d.fl("q0")]], shape=(1, 1))
    try:
        full = Kc(make_unfittable(d.np), missing_label=missing).fit(X, y)
        pf = full.predict(Xq)
        if lab:
            sub = Kc(make_unfittable(d.np), missing_label=missing).fit(d.arr([[xs[i]] for i in lab], shape=(len(lab), 1)),
                                                                    d.arr([yv[i] for i in lab]))
            ps = sub.predict(Xq)
    except (core.Unencodable, core.PathAbort):
        raise
    except Exception as e:
        d.prove(False, "fallback_fit_predict_succeed", info=dict(error=repr(e)[:160]))
        return
    if lab:
        d.prove(d.eq_arr(pf, ps, 1e-12), "fallback_prediction_equals_fit_on_labeled_subset", info=dict(labeled=len(lab)))
    else:
        d.prove(d.eq(d.flat(pf)[0], 0.0), "fallback_prediction_zero_without_labels")
    d.witness(0 < len(lab) < n, "some_unlabeled")


def sc_skclf_unfittable(d, n, classes):
    """the wrapped classifier cannot be fitted: the fallback probabilities of fit(X, y) equal those of a fit on the labeled
    subset - the unlabeled samples do not enter the label statistics, whatever the class labels look like (a class
    labelled -1 coincides with the library's internal code for a missing label)"""
    from sklearn.base import BaseEstimator, ClassifierMixin
    from skactiveml.classifier import SklearnClassifier

    class Unfittable(ClassifierMixin, BaseEstimator):
        def fit(self, X, y, sample_weight=None):
            raise ValueError("this estimator cannot be fitted")

        def predict_proba(self, X):
            raise NotImplementedError

        def predict(self, X):
            raise NotImplementedError
    K = len(classes)
    idx = [d.choose(f"label{i}", [-1] + list(range(K))) for i in range(n)]
    lab = [i for i in range(n) if idx[i] >= 0]
    xs = [d.fl(f"x{i}") for i in range(n)]
    X = d.arr([[x] for x in xs], shape=(n, 1))
    y = d.arr([NAN if k < 0 else float(classes[k]) for k in idx])
    Xq = d.arr([[d.fl("q0")]], shape=(1, 1))
    try:
        full = SklearnClassifier(Unfittable(), classes=list(classes), random_state=0).fit(X, y)
        pf = full.predict_proba(Xq)
        if lab:
            sub = SklearnClassifier(Unfittable(), classes=list(classes), random_state=0).fit(
                d.arr([[xs[i]] for i in lab], shape=(len(lab), 1)), d.arr([float(classes[idx[i]]) for i in lab]))
            ps = sub.predict_proba(Xq)
    except (core.Unencodable, core.PathAbort):
        raise
    except Exception as e:
        d.prove(False, "fallback_fit_predict_succeed", info=dict(error=repr(e)[:160]))
        return
    if lab:
        d.prove(d.eq_arr(pf, ps, 1e-12), "fallback_probabilities_equal_fit_on_labeled_subset", info=dict(labeled=len(lab)))
    else:
        d.prove(d.eq_arr(pf, d.arr([[1.0 / K] * K], shape=(1, K)), 1e-12), "fallback_uniform_without_labels")
    d.witness(0 < len(lab) < n, "some_unlabeled")


# ---------------------------------------------------------------- partial_fit streams: batches without labels
def sc_partial_stream(d, kind, n1, n2):
    """partial_fit on a batch with labels, then on a batch whose labels are all missing (adding unlabeled samples), then on
    another labeled batch: the wrapped estimator is the SAME incremental model throughout, it is handed exactly the labeled
    rows of the labeled batches, and the unlabeled batch neither reaches it nor un-fits the wrapper"""
    from skactiveml.classifier import SklearnClassifier
    import skactiveml.regressor as R
    clf = kind == "classifier"
    if clf:
        w = SklearnClassifier(make_recording_classifier(d.np, nan_proba=True), classes=CLASSES[:2])
    else:
        w = (R.SklearnNormalRegressor if kind == "normal_regressor" else R.SklearnRegressor)(make_recording_regressor(d.np))
    x1, X1, yv1, y1, _, _, lab1 = _data_named(d, "a", n1, clf)
    x3, X3, yv3, y3, _, _, lab3 = _data_named(d, "c", n1, clf)
    if not lab1 or not lab3:
        if d.sym:
            raise core.PathAbort("the labeled batches need a label")
        return
    X2 = d.arr([[d.fl(f"b{i}")] for i in range(n2)], shape=(n2, 1))
    y2 = d.arr([NAN] * n2)
    w.partial_fit(X1, y1)
    est = w.estimator_
    log1 = list(getattr(est, "fit_log_", []))
    d.prove(len(log1) == 1, "first_batch_reaches_the_estimator")
    Xq = d.arr([[0.0]], shape=(1, 1))
    p_before = w.predict_proba(Xq) if clf else None
    try:
        w.partial_fit(X2, y2)
    except (core.Unencodable, core.PathAbort):
        raise
    except Exception as e:
        d.prove(False, "unlabeled_batch_is_accepted", info=dict(error=repr(e)[:160]))
        return
    d.prove(w.estimator_ is est, "unlabeled_batch_keeps_the_fitted_estimator")
    d.prove(len(getattr(w.estimator_, "fit_log_", [])) == 1, "unlabeled_batch_does_not_reach_the_estimator")
    if clf:
        d.prove(getattr(w, "is_fitted_", None) is True, "unlabeled_batch_does_not_unfit_the_wrapper")
        d.prove(d.eq_arr(w.predict_proba(Xq), p_before, 1e-12), "unlabeled_batch_leaves_the_probabilities_unchanged")
    w.partial_fit(X3, y3)
    d.prove(w.estimator_ is est, "partial_fit_continues_the_same_estimator")
    log = getattr(w.estimator_, "fit_log_", [])
    d.prove(len(log) == 2, "every_labeled_batch_reaches_the_estimator_once", info=dict(calls=len(log)))
    if len(log) == 2:
        d.prove(d.eq_arr(log[1][0], d.arr([[x3[i]] for i in lab3], shape=(len(lab3), 1))), "estimator_sees_exactly_labeled_rows")
    d.witness(True, "some_unlabeled")


def _data_named(d, tag, n, classification):
    xs = [d.fl(f"x{tag}{i}") for i in range(n)]
    X = d.arr([[x] for x in xs], shape=(n, 1))
    if classification:
        idx = [d.choose(f"label{tag}{i}", [-1, 0, 1]) for i in range(n)]
        yv = [NAN if k < 0 else CLASSES[k] for k in idx]
        lab = [i for i in range(n) if idx[i] >= 0]
    else:
        miss = [d.choose(f"missing{tag}{i}", [0, 1]) for i in range(n)]
        yv = [NAN if miss[i] else d.fl(f"y{tag}{i}") for i in range(n)]
        lab = [i for i in range(n) if not miss[i]]
    return xs, X, yv, d.arr(yv), None, None, lab


# ---------------------------------------------------------------- AnnotatorLogisticRegression (two EM iterations)
class _OneStepResult:
    def __init__(self, x):
        self.x = x


def _one_gradient_step(fun, x0, method=None, tol=None, jac=None, hessp=None, options=None, **kw):
    """scipy.optimize.minimize by a bounded stand-in: one gradient step from x0. (The real optimiser sees the training data
    only through `fun`; a data set that changes loss or gradient at x0 changes this result.)"""
    loss, grad = fun(x0)
    return _OneStepResult(x0 - grad)


def _sym_softmax(x, axis=None):
    from symx.facade import FACADE as F_
    e = F_.exp(arrays.asnd(x))
    return e / F_.sum(e, axis=axis, keepdims=True)


from symx import stubs as _stubs  # noqa: E402
_ALR = "skactiveml.classifier.multiannotator._annotator_logistic_regression"
_stubs.MODULE_STUBS[(_ALR, "minimize")] = _one_gradient_step
_stubs.MODULE_STUBS[(_ALR, "softmax")] = _sym_softmax


def sc_alr(d, n, A, weights=False):
    """AnnotatorLogisticRegression (max_iter=2: majority-vote initialisation, one M-step, one full E/M step): samples
    without any label do not enter the fit - weights and confusion matrices equal those of a fit on the rows that carry
    at least one label"""
    from skactiveml.classifier.multiannotator import AnnotatorLogisticRegression
    K = 2
    idx = [[d.choose(f"label{i}_{a}", [-1, 0, 1]) for a in range(A)] for i in range(n)]
    rows = [i for i in range(n) if any(k >= 0 for k in idx[i])]
    if not rows or len(rows) == n:
        if d.sym:
            raise core.PathAbort("needs labeled and unlabeled rows")
        return
    xs = [d.fl(f"x{i}", lo=-2.0, hi=2.0) for i in range(n)]
    X = d.arr([[x] for x in xs], shape=(n, 1))
    y = d.arr([[NAN if k < 0 else float(k) for k in r] for r in idx], shape=(n, A))
    kw = dict(classes=[0, 1], max_iter=2, fit_intercept=False, random_state=0)
    ws = [[d.fl(f"w{i}_{a}", lo=0.25, hi=4.0) for a in range(A)] for i in range(n)] if weights else None
    try:
        full = AnnotatorLogisticRegression(**kw).fit(X, y, None if ws is None else d.arr(ws, shape=(n, A)))
        sub = AnnotatorLogisticRegression(**kw).fit(d.arr([[xs[i]] for i in rows], shape=(len(rows), 1)),
                                                    d.arr([[NAN if k < 0 else float(k) for k in idx[i]] for i in rows], shape=(len(rows), A)),
                                                    None if ws is None else d.arr([ws[i] for i in rows], shape=(len(rows), A)))
    except (core.Unencodable, core.PathAbort):
        raise
    except Exception as e:
        d.prove(False, "fit_succeeds", info=dict(error=repr(e)[:160]))
        return
    d.prove(d.eq_arr(full.W_, sub.W_, 1e-9), "weights_equal_fit_on_rows_with_labels")
    d.prove(d.eq_arr(full.Alpha_, sub.Alpha_, 1e-9), "confusion_matrices_equal_fit_on_rows_with_labels")
    d.witness(True, "some_unlabeled")


def sc_nic_int(d, n):
    """count targets handed over as an INTEGER array with the sentinel -1: the regressor stores exactly the labeled rows"""
    from skactiveml.regressor import NICKernelRegressor
    miss = [d.choose(f"missing{i}", [0, 1]) for i in range(n)]
    lab = [i for i in range(n) if not miss[i]]
    xs = [d.fl(f"x{i}") for i in range(n)]
    X = d.arr([[x] for x in xs], shape=(n, 1))
    vals = [-1 if miss[i] else 3 + 2 * i for i in range(n)]
    y = d.arr(vals, dtype=int)
    reg = NICKernelRegressor(missing_label=-1).fit(X, y)
    d.prove(d.eq_arr(reg.X_, d.arr([[xs[i]] for i in lab], shape=(len(lab), 1))), "stores_exactly_labeled_rows")
    d.prove([float(v) for v in d.flat(reg.y_)] == [float(vals[i]) for i in lab], "stores_exactly_labeled_targets",
            info=dict(stored=[float(v) for v in d.flat(reg.y_)]))
    d.witness(0 < len(lab) < n, "some_unlabeled")


UNITS = ["skactiveml.classifier._wrapper:SklearnClassifier._fit", "skactiveml.regressor._wrapper:SklearnRegressor._fit",
         "skactiveml.classifier._parzen_window_classifier:ParzenWindowClassifier.fit",
         "skactiveml.classifier._parzen_window_classifier:ParzenWindowClassifier.predict_freq",
         "skactiveml.regressor._nic_kernel_regressor:NICKernelRegressor.fit",
         "skactiveml.regressor._nic_kernel_regressor:NICKernelRegressor._estimate_ml_params",
         "skactiveml.utils._aggregation:compute_vote_vectors", "skactiveml.utils._label:is_labeled",
         "skactiveml.base:SkactivemlRegressor._validate_data", "skactiveml.base:SkactivemlClassifier._validate_data"]


def _ns(tier):
    return (2, 3) if tier == "quick" else (2, 3, 4)


HARNESSES = [
    dual_harness("sklearn_classifier_fit", sc_skclf,
                 lambda tier: [dict(n=n, K=2, fitfn=f, weights=w) for n in _ns(tier) for f in ("fit", "partial_fit") for w in (False, True)]
                 + [dict(n=2, K=2, fitfn=f, weights=True, missing=-1.0) for f in ("fit", "partial_fit")],
                 [UNITS[0], UNITS[7], UNITS[9]], required_witnesses=("some_unlabeled", "no_labels")),
    dual_harness("sklearn_regressor_fit", sc_skreg,
                 lambda tier: [dict(n=n, fitfn=f, weights=w, normal=nm) for n in _ns(tier) for f in ("fit", "partial_fit")
                               for w in (False, True) for nm in (False, True)]
                 + [dict(n=2, fitfn=f, weights=True, normal=nm, missing=-1.0) for f in ("fit", "partial_fit") for nm in (False, True)],
                 [UNITS[1], UNITS[7], UNITS[8]],
                 required_witnesses=("some_unlabeled",)),
    dual_harness("parzen_window_subset", sc_pwc,
                 lambda tier: [dict(n=n, nq=1, K=2, weights=w) for n in _ns(tier) for w in (False, True)],
                 UNITS[2:4] + UNITS[6:8], required_witnesses=("some_unlabeled",)),
    dual_harness("nic_kernel_regressor_subset", sc_nic,
                 lambda tier: [dict(n=n, weights=w) for n in _ns(tier) for w in (False, True)] + [dict(n=2, weights=True, missing=-1.0)],
                 UNITS[4:6] + UNITS[7:9], required_witnesses=("some_unlabeled",), product_abstraction=True),
]


def _refit(d, kind, n1, n2):
    from harness.C13 import sc_refit
    return sc_refit(d, kind, n1, n2)


HARNESSES.append(dual_harness(
    "nic_integer_targets", sc_nic_int, lambda tier: [dict(n=n) for n in _ns(tier)],
    UNITS[4:5] + UNITS[7:9], required_witnesses=("some_unlabeled",)))
HARNESSES.append(dual_harness(
    "sklearn_regressor_unfittable", sc_skreg_unfittable,
    lambda tier: [dict(n=n, normal=nm, missing=ms) for n in _ns(tier) for nm in (False, True) for ms in (NAN, -1.0)],
    [UNITS[1], UNITS[7], UNITS[8], "skactiveml.regressor._wrapper:SklearnRegressor.predict"], required_witnesses=("some_unlabeled",)))
HARNESSES.append(dual_harness(
    "sklearn_classifier_unfittable", sc_skclf_unfittable,
    lambda tier: [dict(n=n, classes=cs) for n in _ns(tier) for cs in ([0, 1], [-1, 1], [1, -1, 0])],
    [UNITS[0], UNITS[7], "skactiveml.classifier._wrapper:SklearnClassifier.predict_proba"], required_witnesses=("some_unlabeled",)))
HARNESSES.append(dual_harness(
    "partial_fit_stream", sc_partial_stream,
    lambda tier: [dict(kind=k, n1=2, n2=n2) for k in ("classifier", "regressor", "normal_regressor") for n2 in ((1,) if tier == "quick" else (1, 2))],
    [UNITS[0], UNITS[1]], required_witnesses=("some_unlabeled",)))
HARNESSES.append(dual_harness(
    "annotator_logistic_regression", sc_alr, lambda tier: [dict(n=2, A=2), dict(n=2, A=2, weights=True)] + ([dict(n=3, A=2)] if tier != "quick" else []),
    ["skactiveml.classifier.multiannotator._annotator_logistic_regression:AnnotatorLogisticRegression.fit",
     "skactiveml.utils._aggregation:compute_vote_vectors"], required_witnesses=("some_unlabeled",), product_abstraction=True, resample=10))
HARNESSES.append(dual_harness(
    "refit_sees_only_labeled", _refit,
    lambda tier: [dict(kind=k, n1=2, n2=2) for k in ("classifier", "regressor")],
    [UNITS[0], UNITS[1]], required_witnesses=("both_fits_with_labels",)))
BOUNDS = dict(quick="n <= 3 training samples, every missing-label pattern, symbolic features / targets / weights / kernel values; fit and "
                    "partial_fit of the wrappers",
              thorough="n <= 4",
              outside="AnnotatorLogisticRegression beyond two EM iterations / with the real optimiser (scipy's minimize is replaced by one "
                      "gradient step from the zero vector: the optimiser sees the data only through the objective); the learning "
                      "algorithm of the wrapped estimators (only what they are handed is checked)")
ASSUMPTIONS = [
    "wrapped estimators are recording stubs (fit/partial_fit store their arguments)",
    "kernels: 'precomputed' (PWC, symbolic input) / uninterpreted symmetric kernel function (NICKernelRegressor, rbf in the replay)",
    "AnnotatorLogisticRegression: 2 samples x 2 annotators x 2 classes, one feature, max_iter=2, fit_intercept=False; exp / log are "
    "uninterpreted functions with their sign and monotonicity facts; the replay runs the real optimiser",
]
