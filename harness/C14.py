"""C14 — a pool active-learning loop labels every sample exactly once.
The README loop (query, reveal, repeat) is executed symbolically on the real
strategies: every cycle sees fresh symbolic model outputs, the oracle's labels
are arbitrary classes."""
from __future__ import annotations

import math

import numpy as np

from harness import poollib as pl
from harness.common import Harness, rec
from symx import arrays, core, facade

PID = "C14"
F = facade.FACADE
NAN = float("nan")


def _loop(env, a, X, lab, b, seed, sym, inputs=None, K=2, oracle=None):
    n = len(lab)
    lab = list(lab)
    u0 = sum(1 for v in lab if not v)
    expected_cycles = math.ceil(u0 / b)
    queried = []
    qs = a.make(seed, sym=sym, inputs=inputs)   # one strategy object for the whole loop (keeps its own state)
    cycles = 0
    while any(not v for v in lab):
        if cycles > expected_cycles + 1:
            env.prove(False, "pool_exhausted_after_ceil_u_over_b_queries", info=dict(cycles=cycles))
            return
        yv = [float((i + cycles) % K) if lab[i] else NAN for i in range(n)]
        s = pl.Scenario()
        s.n, s.K, s.X = n, K, X
        s.y = arrays.SymNd(np.array(yv, dtype=float)) if sym else np.array(yv, dtype=float)
        s.cand, s.mode = None, "none"
        s.unl = [i for i in range(n) if not lab[i]]
        s.cand_set, s.ncols = list(s.unl), n
        try:
            out = a.call(qs, s, b, sym, table=(inputs or {}).get("__clf__"), return_utilities=False)
        except (core.Unencodable, core.PathAbort):
            raise
        except Exception as e:
            env.prove(False, "every_query_succeeds", info=dict(cycle=cycles, error=repr(e)[:200], labeled=list(lab)))
            return
        ok = isinstance(out, np.ndarray) and out.ndim == 1
        env.prove(ok, "query_returns_1d_array", info=dict(cycle=cycles))
        if not ok:
            return
        idl = [int(i) for i in out]
        env.prove(len(idl) == min(b, len(s.unl)), "batch_length", info=dict(cycle=cycles, got=idl, unlabeled=s.unl))
        env.prove(all(i in s.unl for i in idl), "only_unlabeled_samples_returned", info=dict(cycle=cycles, got=idl, unlabeled=s.unl))
        env.prove(len(set(idl)) == len(idl) and not (set(idl) & set(queried)), "no_sample_queried_twice",
                  info=dict(cycle=cycles, got=idl, before=list(queried)))
        if not idl or not all(0 <= i < n for i in idl):
            env.prove(False, "pool_exhausted_after_ceil_u_over_b_queries", info=dict(cycle=cycles, got=idl))
            return
        for i in idl:
            lab[i] = 1
        queried += idl
        cycles += 1
    env.prove(cycles == expected_cycles, "pool_exhausted_after_ceil_u_over_b_queries", info=dict(cycles=cycles, expected=expected_cycles))
    return cycles


class ASubSamplingFraction(pl.AUncertainty):
    """SubSamplingWrapper with a fractional max_candidates around UncertaintySampling: the documented sub-sample size
    ceil(max_candidates * #candidates) never drops to zero while candidates are left"""

    def __init__(self):
        super().__init__("least_confident")
        self.name = "SubSamplingWrapper[max_candidates=0.5]"
        self.batches = [1]     # (a batch larger than the sub-sample is clipped to it: documented, not part of this property)
        self.units = ["skactiveml.pool._wrapper:SubSamplingWrapper.query"]

    def make(self, seed, sym=True, inputs=None, **kw):
        P = pl.pool()
        inner = P.UncertaintySampling(method="least_confident", random_state=seed)
        return P.SubSamplingWrapper(query_strategy=inner, max_candidates=0.5, random_state=seed)

    def call(self, qs, s, b, sym, table=None, return_utilities=True):
        return qs.query(s.X, s.y, clf=self.clf(sym, table, s.K), fit_clf=False, candidates=s.cand, batch_size=b,
                        return_utilities=return_utilities)


LOOP_ADAPTERS = {k: v for k, v in pl.ADAPTERS.items() if getattr(v, "loop", True)}
LOOP_ADAPTERS["SubSamplingWrapper[max_candidates=0.5]"] = ASubSamplingFraction()


def sym(c, strat, n, b):
    a = LOOP_ADAPTERS[strat]
    xs = [core.fresh_float(f"x{i}") for i in range(n)]
    X = arrays.SymNd(arrays._to_obj(xs), float).reshape(n, 1)
    rec(c, "X", X)
    lab = [c.choose([(0, True), (1, True)], f"labeled[{i}]") for i in range(n)]
    if all(lab):
        raise core.PathAbort("nothing to label")
    rec(c, "labeled", list(lab))
    seed = core.fresh_int("seed", 0, 2 ** 31 - 2)
    rec(c, "seed", seed)
    cyc = _loop(pl.Env(c), a, X, lab, b, seed, True)
    c.witness(cyc is not None and cyc >= 2, "two_cycles")
    c.witness(sum(1 for v in lab if not v) == n, "cold_start")


def replay(inputs, label, strat, n, b):
    a = LOOP_ADAPTERS[strat]
    X = np.array(inputs["X"], dtype=float).reshape(n, 1)
    lab = [int(v) for v in inputs["labeled"]]
    tables = [inputs] + ([dict(inputs, __clf__=[])] if a.needs_clf else [])
    seeds = [int(inputs.get("seed", 0))] + ([] if inputs.get("__scripted__") else list(range(30)))
    for inp in tables:
        for seed in seeds:
            env = pl.Env()
            _loop(env, a, X, lab, b, seed, False, inputs=inp)
            if label in env.violated:
                return True, (f"AL loop with {strat}(random_state={seed}), X={X.ravel().tolist()}, initially labeled={lab}, "
                              f"batch_size={b}: {label} {env.violated[label]}")
    return False, "not reproduced"


def validate(inputs, strat, n, b):
    a = LOOP_ADAPTERS[strat]
    X = np.array(inputs["X"], dtype=float).reshape(n, 1)
    lab = [int(v) for v in inputs["labeled"]]
    env = pl.Env()
    _loop(env, a, X, lab, b, int(inputs.get("seed", 0)), False, inputs=inputs)
    return sorted(env.violated)


def _cfg_for(name):
    def cfg(tier):
        a = LOOP_ADAPTERS[name]
        out = []
        for n in (([3] if tier == "quick" else [3, 4]) if not getattr(a, "n", None) else [a.n]):
            for b in getattr(a, "batches", [1, 2, 3]):
                if getattr(a, "slow", False) and (n > 3 or tier == "quick" and b > 2):
                    continue
                if name.startswith("QueryByCommittee[v") and (b == 1 or n > 3):
                    continue    # vote-based committees fork on every member's prediction in every cycle: 3-cycle loops explode
                if n == 4 and (b == 1 or name in ("BatchBALD", "GreedyBALD", "TypiClust") or name.startswith("Clue")):
                    continue    # thorough: 4-sample pools with batches of 2-3 (at most 2 cycles) for the cheaper adapters
                out.append(dict(strat=name, n=n, b=b))
        return out
    return cfg


HARNESSES = [Harness(f"loop[{name}]", sym, replay, _cfg_for(name), pl.BASE_UNITS + a.units,
                     product_abstraction=a.product_abstraction, required_witnesses=("two_cycles", "cold_start"))
             for name, a in LOOP_ADAPTERS.items()]
for _h in HARNESSES:
    _h.validate = validate
BOUNDS = dict(quick="pools of n = 3 samples, every initial labeling (0..n-1 labels), batch sizes 1-3, the whole loop until "
                    "exhaustion, one strategy object across cycles, fresh symbolic model outputs per cycle",
              thorough="n = 3 as quick plus b = 3 everywhere; n = 4 with batch sizes 2-3 for the adapters whose loops do not explode",
              outside="strategies not in the adapter list (ProbCover / EpistemicUS caches are therefore not covered); n > 4")
ASSUMPTIONS = list(__import__("harness.C01", fromlist=["ASSUMPTIONS"]).ASSUMPTIONS) + [
    "the oracle's labels are arbitrary classes (they only enter through the stubbed models)"]
