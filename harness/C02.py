"""C02 — returned utilities agree with the returned selection."""
from harness import poollib as pl
from harness.common import Harness

PID = "C02"
PROP = "C02"


def sym(c, strat, n, mode, b, feats=1, enc="float"):
    pl.sym_query(c, PROP, strat, n, mode, b, feats, enc)


def replay(inputs, label, strat, n, mode, b, feats=1, enc="float"):
    return pl.replay_query(inputs, label, PROP, strat, n, mode, b, feats, enc)


def validate(inputs, strat, n, mode, b, feats=1, enc="float"):
    return pl.validate_query(inputs, PROP, strat, n, mode, b, feats, enc)


def _cfg_for(name):
    def cfg(tier):
        a = pl.ADAPTERS[name]
        out = []
        ns = [3] if tier == "quick" else [3, 4]
        if getattr(a, "n", None):
            ns = [a.n]          # adapters that fix their own pool size (DropQuery: 2)
        slow = getattr(a, "slow", False)
        heavy = slow or name.startswith("QueryByCommittee[v") or name in ("BatchBALD", "GreedyBALD", "TypiClust")
        for n in ns:
            for mode in ("none", "idx", "rows"):
                if mode == "rows" and not a.supports_rows:
                    continue
                for b in ([1, 2, 4] if tier == "quick" else [1, 2, 3, n + 1]):
                    if slow and tier == "quick" and (b > 2 or (mode == "rows" and b > 1)):
                        continue
                    if n == 4 and (heavy or mode == "idx" or b == 3):
                        continue    # thorough: 4 samples for the cheaper adapters, candidates None / rows, b in {1, 2, 5}
                    if tier != "quick" and slow and n == 3 and b == 3 and mode != "none":
                        continue
                    out.append(dict(strat=name, n=n, mode=mode, b=b))
        # (GreedySamplingX with two features runs under C01 only: its utility obligations over sums of squares take z3's
        #  nonlinear solver minutes per path)
        if name in ("RandomSampling", "UncertaintySampling[margin_sampling]", "QueryByCommittee[KL_divergence]"):
            # two features: feature-row candidates are then a matrix whose size differs from its length
            out.append(dict(strat=name, n=3, mode="rows", b=4, feats=2))
        if name in ("RandomSampling", "CoreSet", "GreedySamplingX", "TypiClust"):
            # integer labels with the sentinel -1 (strategies that need no model): the sentinel handed to the strategy
            # must reach every helper that decides what is labeled
            for mode in ("none", "idx", "rows"):
                if mode == "rows" and not a.supports_rows:
                    continue
                out.append(dict(strat=name, n=3, mode=mode, b=2, enc="int"))
        return out
    return cfg


def harnesses():
    hs = []
    for name, a in pl.ADAPTERS.items():
        hs.append(Harness(f"query[{name}]", sym, replay, _cfg_for(name), pl.BASE_UNITS + a.units,
                          product_abstraction=a.product_abstraction, required_witnesses=("batch_of_two",),
                          timeout_ms=20000))
        hs[-1].validate = validate
    return hs


HARNESSES = harnesses()
BOUNDS = dict(quick="n = 3 samples (1 symbolic feature), every labeled/unlabeled pattern, candidate modes None / every index "
                    "subset / 2 feature rows, batch sizes 1, 2 and 4 (> #candidates), symbolic seed, model outputs symbolic",
              thorough="n = 3 with batch sizes 1,2,3,4; n = 4 (candidates None / feature rows, batch sizes 1,2,5) for the adapters "
                       "whose paths do not explode (not Falcun, expected_average_precision, ProbCover, ContrastiveAL, vote committees, BALD, TypiClust)",
              outside="strategies not in the adapter list (named in DESIGN.md); n > 4; more than one feature")
ASSUMPTIONS = [
    "classifiers / ensembles / clusterers are stubs: predict_proba is an uninterpreted function of the feature row on the "
    "probability simplex (equal rows => equal outputs, nothing else)",
    "sklearn validators, clone, RandomState by documented contract (symx/stubs.py, symx/facade.py)",
    "product abstraction (uninterpreted product of two symbolic factors) for entropy / expected_average_precision: "
    "over-approximation, proofs remain proofs, counterexamples must replay",
    "exact real arithmetic",
]
