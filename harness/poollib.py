"""Shared pool scenario generator, strategy adapters and the C01/C02 batch
obligations (used by C01, C02, C05, C06, C08, C14, C20)."""
from __future__ import annotations

import numpy as np
import z3

from harness import models
from harness.common import rec
from symx import arrays, core, facade
from symx.core import b_and, b_not, b_or, boolexpr, fresh_float, fresh_int, s_eq, s_le, s_lt

F = facade.FACADE
NAN = float("nan")


def pool():
    import skactiveml.pool as p
    return p


# --------------------------------------------------------------------------
# scenario
# --------------------------------------------------------------------------
class Scenario:
    pass


def gen_scenario(c, n, mode, b, independent=True, n_rows=2, K=2, features="sym", min_unlabeled=0, n_features=1):
    """X (n, n_features) symbolic features, y with an explorer-chosen labeled mask, candidates per mode."""
    s = Scenario()
    s.n, s.mode, s.b, s.K = n, mode, b, K
    if features == "sym":
        xs = [fresh_float(f"x{i}" if n_features == 1 else f"x{i}_{f}") for i in range(n) for f in range(n_features)]
        s.X = arrays.SymNd(arrays._to_obj(xs), float).reshape(n, n_features)
    else:
        s.X = F.arange(n).astype(float).reshape(n, 1)
    rec(c, "X", s.X)
    if mode == "none" or not independent:
        s.lab = [c.choose([(0, True), (1, True)], f"labeled[{i}]") for i in range(n)]
    else:
        # with explicit candidates the labeled pattern only enters through y's validation: two patterns suffice
        pat = c.choose([(0, True), (1, True), (2, True)], "label_pattern")
        if pat == 2:
            s.lab = [1] * n        # fully labeled pool (the seed multiplier n_unlabeled + 1 is then 1)
        else:
            s.lab = [pat] + [0] * (n - 2) + ([1] if n > 1 else [])
    if sum(1 for v in s.lab if not v) < min_unlabeled:
        raise core.PathAbort("not enough unlabeled samples")
    rec(c, "labeled", list(s.lab))
    yv = [float(i % K) if s.lab[i] else NAN for i in range(n)]
    s.y = arrays.SymNd(np.array(yv, dtype=float))
    s.unl = [i for i in range(n) if not s.lab[i]]
    if mode == "none":
        if not s.unl:
            raise core.PathAbort("no candidate at all: outside the property (the AL loop stops when the pool is exhausted)")
        s.cand = None
        s.cand_set = list(s.unl)
        s.ncols = n
    elif mode == "idx":
        allowed = list(range(n)) if independent else list(s.unl)
        sub = [i for i in allowed if c.choose([(1, True), (0, True)], f"cand[{i}]")]
        if not sub:
            raise core.PathAbort("empty candidate set")
        # unsorted, and with one index listed twice: check_indices sorts and de-duplicates
        s.cand = list(reversed(sub)) + ([sub[0]] if len(sub) >= 2 else [])
        s.cand_set = sorted(sub)
        s.ncols = n
    elif mode == "rows":
        m = n_rows
        rs = [fresh_float(f"r{i}" if n_features == 1 else f"r{i}_{f}") for i in range(m) for f in range(n_features)]
        s.cand = arrays.SymNd(arrays._to_obj(rs), float).reshape(m, n_features)
        rec(c, "cand_rows", s.cand)
        s.cand_set = list(range(m))
        s.ncols = m
    else:
        raise ValueError(mode)
    rec(c, "cand", s.cand if mode != "rows" else "rows")
    s.seed = fresh_int("seed", 0, 2 ** 31 - 2)
    rec(c, "seed", s.seed)
    return s


def real_scenario(inputs, n, mode, K=2):
    s = Scenario()
    s.n, s.mode, s.K = n, mode, K
    s.X = np.array(inputs["X"], dtype=float).reshape(n, -1)
    s.lab = [int(v) for v in inputs["labeled"]]
    s.y = np.array([float(i % K) if s.lab[i] else NAN for i in range(n)], dtype=float)
    s.unl = [i for i in range(n) if not s.lab[i]]
    if mode == "none":
        s.cand, s.cand_set, s.ncols = None, list(s.unl), n
    elif mode == "idx":
        s.cand = [int(i) for i in inputs["cand"]]
        s.cand_set, s.ncols = sorted(set(s.cand)), n
    else:
        s.cand = np.array(inputs["cand_rows"], dtype=float).reshape(-1, s.X.shape[1])
        s.cand_set, s.ncols = list(range(len(s.cand))), len(s.cand)
    s.seed = int(inputs.get("seed", 0))
    return s


# --------------------------------------------------------------------------
# obligations of C01 / C02 on a query result
# --------------------------------------------------------------------------
def is_nan_z(v):
    return boolexpr(core.s_isnan(v)) if core.is_floatish(v) else False


def check_result(env, prop, out, s, b, selection="max", return_utilities=True):
    """env.prove(cond, label). prop in {'C01','C02','both'}"""
    if return_utilities:
        ok = isinstance(out, tuple) and len(out) == 2
        if prop in ("C01", "both"):
            env.prove(ok, "returns_pair_with_utilities")
        if not ok:
            return None
        idx, ut = out
    else:
        idx, ut = out, None
    k_exp = min(b, len(s.cand_set))
    okarr = isinstance(idx, np.ndarray) and idx.ndim == 1
    if prop in ("C01", "both"):
        env.prove(okarr, "indices_1d_array", info=dict(got=type(idx).__name__))
    if not okarr:
        return None
    if prop in ("C01", "both"):
        env.prove(np.dtype(idx.dtype).kind in "iu", "indices_integer_dtype", info=dict(dtype=str(idx.dtype)))
    idl = [int(i) for i in idx]
    if prop in ("C01", "both"):
        env.prove(len(idl) == k_exp, "batch_length", info=dict(got=idl, expected=k_exp))
        env.prove(len(set(idl)) == len(idl), "indices_distinct", info=dict(got=idl))
        env.prove(all(i in s.cand_set for i in idl), "indices_are_candidates", info=dict(got=idl, candidates=s.cand_set))
    if ut is not None and prop in ("C02", "both"):
        shp = tuple(np.shape(ut))
        env.prove(shp == (len(idl), s.ncols), "utilities_shape", info=dict(shape=shp, expected=(len(idl), s.ncols)))
        if shp != (len(idl), s.ncols):
            return idl
        ru = arrays.raw(arrays.asnd(ut)) if env.sym else np.asarray(ut, dtype=float)
        for t in range(len(idl)):
            for p in range(s.ncols):
                vn = is_nan_z(ru[t, p]) if env.sym else bool(np.isnan(ru[t, p]))
                selectable = p in s.cand_set and p not in idl[:t]
                if selectable:
                    if selection == "proportional" or p == idl[t]:
                        pass
                    # a selectable candidate carries a number, unless the strategy's score itself is undefined;
                    # the property fixes NaN only for the non-selectable positions and the pick
                else:
                    env.prove(vn, "row_nan_at_non_selectable", info=dict(step=t, pos=p))
            if 0 <= idl[t] < s.ncols:
                pick = ru[t, idl[t]]
                pn = is_nan_z(pick) if env.sym else bool(np.isnan(pick))
                env.prove(b_not(pn) if env.sym else not pn, "pick_is_a_number", info=dict(step=t))
                if selection == "max":
                    conds = []
                    for p in range(s.ncols):
                        v = ru[t, p]
                        if env.sym:
                            conds.append(b_or(is_nan_z(v), boolexpr(s_le(v, pick))))
                        else:
                            conds.append(bool(np.isnan(v) or v <= pick))
                    env.prove(b_and(*conds) if env.sym else all(conds), "pick_attains_row_maximum", info=dict(step=t))
                elif selection == "proportional":
                    env.prove(s_lt(0, pick) if env.sym else bool(pick > 0), "pick_has_positive_mass", info=dict(step=t))
            # every still selectable candidate is not NaN (it could have been chosen)
            for p in s.cand_set:
                if p not in idl[:t] and p < s.ncols:
                    vn = is_nan_z(ru[t, p]) if env.sym else bool(np.isnan(ru[t, p]))
                    env.prove(b_not(vn) if env.sym else not vn, "row_number_at_selectable", info=dict(step=t, pos=p))
    return idl


class Env:
    def __init__(self, c=None):
        self.c = c
        self.sym = c is not None
        self.violated = {}

    def prove(self, cond, label, info=None):
        if self.sym:
            self.c.prove(cond, label, info)
        else:
            if not bool(cond):
                self.violated.setdefault(label, info)


def reproduced(env, label):
    """label of the violation the concrete run shows for a solver counterexample: the same predicate, or - when the
    symbolic run ended in an exception (e.g. the facade refuses a cast that numpy performs silently) - any predicate of
    the same oracle that the real run violates"""
    if label in env.violated:
        return label
    if env.violated and (label in ("query_succeeds", "query_terminates_without_error") or label.startswith("unexpected_exception")):
        return sorted(env.violated)[0]
    return None


# --------------------------------------------------------------------------
# strategy adapters
# --------------------------------------------------------------------------
class Adapter:
    name = ""
    independent = True      # scores samples independently => arbitrary index sets are supported
    supports_rows = True
    selection = "max"
    needs_clf = False
    product_abstraction = False
    units = []
    min_unlabeled = 0

    def make(self, seed, sym=True, inputs=None, **kw):
        raise NotImplementedError

    def call(self, qs, s, b, sym, table=None, return_utilities=True):
        raise NotImplementedError

    def clf(self, sym, table=None, K=2):
        if sym:
            return models.StubClassifier(classes=list(range(K)), n_classes=K)
        return models.real_table_classifier([(row, p) for _, row, p in (table or [])], n_classes=K)


class ARandom(Adapter):
    name = "RandomSampling"
    selection = "proportional"
    units = ["skactiveml.pool._random_sampling:RandomSampling.query"]

    def make(self, seed, sym=True, inputs=None, **kw):
        return pool().RandomSampling(random_state=seed, **kw)

    def call(self, qs, s, b, sym, table=None, return_utilities=True):
        return qs.query(s.X, s.y, candidates=s.cand, batch_size=b, return_utilities=return_utilities)


class AUncertainty(Adapter):
    needs_clf = True

    def __init__(self, method, cost=False, freq=False):
        self.method = method
        self.cost = cost
        self.freq = freq       # classifier = class-frequency estimator: the real ClassFrequencyEstimator.predict_proba runs
        self.name = f"UncertaintySampling[{method}{',cost' if cost else ''}{',freq' if freq else ''}]"
        self.slow = method == "expected_average_precision"
        self.product_abstraction = method in ("entropy", "expected_average_precision")
        self.units = ["skactiveml.pool._uncertainty_sampling:UncertaintySampling.query",
                      "skactiveml.pool._uncertainty_sampling:uncertainty_scores"]
        if method == "expected_average_precision":
            self.units.append("skactiveml.pool._uncertainty_sampling:expected_average_precision")

    def make(self, seed, sym=True, inputs=None, **kw):
        self._inputs = inputs
        cm = [[0.0, 1.0], [2.0, 0.0]] if self.cost else None
        return pool().UncertaintySampling(method=self.method, cost_matrix=cm, random_state=seed, **kw)

    def clf(self, sym, table=None, K=2):
        if not self.freq:
            return Adapter.clf(self, sym, table, K)
        if sym:
            return models.StubFreqClassifier(classes=list(range(K)), n_classes=K)
        return models.real_table_freq_classifier([(row, fr) for _, row, fr in (self._inputs or {}).get("__freq__", [])], n_classes=K)

    def call(self, qs, s, b, sym, table=None, return_utilities=True):
        return qs.query(s.X, s.y, self.clf(sym, table, s.K), candidates=s.cand, batch_size=b,
                        return_utilities=return_utilities)


ADAPTERS = {}


def register(a):
    ADAPTERS[a.name] = a
    return a


register(ARandom())
for _m in ("least_confident", "margin_sampling", "entropy", "expected_average_precision"):
    register(AUncertainty(_m))
register(AUncertainty("least_confident", cost=True))
register(AUncertainty("margin_sampling", cost=True))
register(AUncertainty("least_confident", freq=True))

BASE_UNITS = ["skactiveml.base:PoolQueryStrategy._validate_data",
              "skactiveml.base:SingleAnnotatorPoolQueryStrategy._validate_data",
              "skactiveml.base:SingleAnnotatorPoolQueryStrategy._transform_candidates",
              "skactiveml.utils._selection:simple_batch", "skactiveml.utils._selection:rand_argmax",
              "skactiveml.utils._validation:check_indices", "skactiveml.utils._validation:check_random_state",
              "skactiveml.utils._label:is_unlabeled"]


# --------------------------------------------------------------------------
def encode_int(s, sym):
    """the scenario's labels as an integer array with the sentinel -1 (instead of floats with NaN)"""
    vals = np.array([(i % s.K) if s.lab[i] else -1 for i in range(s.n)], dtype=int)
    s.y = arrays.SymNd(vals) if sym else vals


def sym_query(c, prop, strat, n, mode, b, feats=1, enc="float"):
    a = ADAPTERS[strat]
    s = gen_scenario(c, n, mode, b, independent=a.independent, min_unlabeled=a.min_unlabeled, n_features=feats)
    env = Env(c)
    if enc == "int":
        encode_int(s, True)
        qs = a.make(s.seed, sym=True, missing_label=-1)
    else:
        qs = a.make(s.seed, sym=True)
    xs0 = s.X.copy()
    y0 = s.y.copy()
    try:
        out = a.call(qs, s, b, True)
    except (core.Unencodable, core.PathAbort):
        raise
    except Exception as e:
        if prop in ("C01", "both"):
            env.prove(False, "query_terminates_without_error", info=dict(error=repr(e)[:300]))
        return s, None
    idl = check_result(env, prop, out, s, b, selection=a.selection)
    if idl is not None:
        c.witness(len(idl) >= 2, "batch_of_two")
        c.witness(len(idl) < b, "batch_clipped")
    return s, out


def replay_query(inputs, label, prop, strat, n, mode, b, feats=1, enc="float"):
    a = ADAPTERS[strat]
    s = real_scenario(inputs, n, mode)
    mkw = {}
    if enc == "int":
        encode_int(s, False)
        mkw = dict(missing_label=-1)
    seeds = [s.seed] + ([] if inputs.get("__scripted__") else list(range(30)))
    tables = [inputs.get("__clf__")]
    if a.needs_clf:
        tables.append([])  # second attempt: uniform probabilities for every row (all utilities tie)
    for seed, table in [(sd, tb) for tb in tables for sd in seeds]:
        env = Env()
        qs = a.make(seed, sym=False, inputs=inputs, **mkw)
        try:
            out = a.call(qs, s, b, False, table=table)
        except Exception as e:
            if label == "query_terminates_without_error":
                return True, f"{strat} n={n} mode={mode} b={b}: {e!r}"
            raise
        check_result(env, prop, out, s, b, selection=a.selection)
        got = reproduced(env, label)
        if got:
            return True, (f"{strat}(random_state={seed}).query(X={s.X.ravel().tolist()}, labeled={s.lab}, "
                          f"candidates={s.cand if mode != 'rows' else s.cand.ravel().tolist()}, batch_size={b}) -> "
                          f"{_short(out)} violates {got} {env.violated[got]}")
    return False, "not reproduced"


def validate_query(inputs, prop, strat, n, mode, b, feats=1, enc="float"):
    """translator validation: the real query on the inputs of a proven symbolic path (the model's seed and stub-model
    table); returns the predicates the real run violates (expected: none)"""
    a = ADAPTERS[strat]
    s = real_scenario(inputs, n, mode)
    env = Env()
    if enc == "int":
        encode_int(s, False)
        qs = a.make(s.seed, sym=False, inputs=inputs, missing_label=-1)
    else:
        qs = a.make(s.seed, sym=False, inputs=inputs)
    out = a.call(qs, s, b, False, table=inputs.get("__clf__"))
    check_result(env, prop, out, s, b, selection=a.selection)
    return sorted(env.violated)


def _short(out):
    try:
        if isinstance(out, tuple):
            return (np.asarray(out[0]).tolist(), np.round(np.asarray(out[1], dtype=float), 4).tolist())
        return np.asarray(out).tolist()
    except Exception:
        return repr(out)[:200]


# --------------------------------------------------------------------------
# more adapters
# --------------------------------------------------------------------------
class AQBC(Adapter):
    needs_clf = True
    product_abstraction = True

    def __init__(self, method="KL_divergence"):
        self.method = method
        self.name = f"QueryByCommittee[{method}]"
    units = ["skactiveml.pool._query_by_committee:QueryByCommittee.query",
             "skactiveml.pool._query_by_committee:QueryByCommittee._aggregate_predict_probas",
             "skactiveml.pool._query_by_committee:average_kl_divergence",
             "skactiveml.pool._query_by_committee:_check_ensemble"]

    def make(self, seed, sym=True, inputs=None, **kw):
        return pool().QueryByCommittee(method=self.method, random_state=seed, **kw)

    def ensemble(self, sym, table, K):
        if sym:
            return [models.StubClassifier(classes=list(range(K)), n_classes=K, gen=g) for g in (1, 2)]
        t1 = [(row, p) for g, row, p in (table or []) if g % 2 == 1]
        t2 = [(row, p) for g, row, p in (table or []) if g % 2 == 0]
        return [models.real_table_classifier(t1, n_classes=K), models.real_table_classifier(t2, n_classes=K)]

    def call(self, qs, s, b, sym, table=None, return_utilities=True):
        return qs.query(s.X, s.y, self.ensemble(sym, table, s.K), candidates=s.cand, batch_size=b,
                        return_utilities=return_utilities)


class ACoreSet(Adapter):
    name = "CoreSet"
    independent = False
    units = ["skactiveml.pool._core_set:CoreSet.query", "skactiveml.pool._core_set:k_greedy_center",
             "skactiveml.pool._core_set:_update_distances"]

    def make(self, seed, sym=True, inputs=None, **kw):
        return pool().CoreSet(random_state=seed, **kw)

    def call(self, qs, s, b, sym, table=None, return_utilities=True):
        return qs.query(s.X, s.y, candidates=s.cand, batch_size=b, return_utilities=return_utilities)


class AGreedyX(Adapter):
    name = "GreedySamplingX"
    independent = False
    units = ["skactiveml.pool._greedy_sampling:GreedySamplingX.query", "skactiveml.pool._greedy_sampling:_greedy_sampling",
             "skactiveml.pool._greedy_sampling:_measure_distance"]

    def make(self, seed, sym=True, inputs=None, **kw):
        return pool().GreedySamplingX(random_state=seed, **kw)

    def call(self, qs, s, b, sym, table=None, return_utilities=True):
        return qs.query(s.X, s.y, candidates=s.cand, batch_size=b, return_utilities=return_utilities)


class ADiscriminative(Adapter):
    independent = False
    supports_rows = False
    needs_clf = True

    def __init__(self, greedy):
        self.greedy = greedy
        self.name = f"DiscriminativeAL[greedy_selection={greedy}]"
        self.units = ["skactiveml.pool._discriminative_al:DiscriminativeAL.query"]

    def make(self, seed, sym=True, inputs=None, **kw):
        return pool().DiscriminativeAL(greedy_selection=self.greedy, random_state=seed, **kw)

    def call(self, qs, s, b, sym, table=None, return_utilities=True):
        return qs.query(s.X, s.y, self.clf(sym, table, 2), candidates=s.cand, batch_size=b,
                        return_utilities=return_utilities)


def make_stub_clusterer():
    """KMeans-like clusterer by contract: fit_predict returns a label in range(n_clusters) per sample
    (arbitrary; chosen by the solver / explorer). random_state=None draws from the global generator."""
    class StubClusterer:
        calls = []

        def __init__(self, n_clusters=2, random_state=None, **kw):
            self.n_clusters = n_clusters
            self.random_state = random_state

        def fit_predict(self, X, y=None):
            c = core.ctx()
            n = len(X)
            labs = [c.choose([(k, True) for k in range(self.n_clusters)], f"cluster[{i}]") for i in range(n)]
            if not hasattr(c, "inputs"):
                c.inputs = {}
            c.inputs.setdefault("__clusters__", []).append(list(labs))     # one label list per clustering call
            return arrays.SymNd(np.array(labs, dtype=int))

        def fit(self, X, y=None):
            self.labels_ = self.fit_predict(X)
            return self
    return StubClusterer


def real_table_clusterer(labels):
    """replay clusterer: the k-th fit_predict call returns the k-th recorded label list (a flat list = every call)"""
    calls = labels if labels and isinstance(labels[0], (list, tuple)) else [labels]
    state = dict(k=0)

    class TableClusterer:
        def __init__(self, n_clusters=2, random_state=None, **kw):
            self.n_clusters = n_clusters

        def fit_predict(self, X, y=None):
            lab = calls[min(state["k"], len(calls) - 1)]
            state["k"] += 1
            out = np.zeros(len(X), dtype=int)
            for i in range(min(len(X), len(lab))):
                out[i] = min(int(lab[i]), self.n_clusters - 1)
            return out
    return TableClusterer


def _typicality_stub(X, uncovered_samples_mapping, k, eps=1e-7):
    """contract of skactiveml.pool._typi_clust._typicality: -inf outside the cluster, a positive finite
    value for every sample of the cluster"""
    c = core.ctx()
    n = X.shape[0]
    out = F.full(n, -np.inf)
    members = [int(i) for i in arrays.cidx(arrays.asnd(uncovered_samples_mapping))]
    tag = "_".join(map(str, members))
    for i in members:
        t = core.fresh_float(f"typi[{tag}]_{i}")   # a function of (cluster membership, sample): same call => same value
        c.add(t.r > 0)
        out[int(i)] = t
    return out


class ATypiClust(Adapter):
    name = "TypiClust"
    independent = False
    supports_rows = False
    units = ["skactiveml.pool._typi_clust:TypiClust.query"]

    def make(self, seed, sym=True, inputs=None, **kw):
        if sym:
            clusterer = make_stub_clusterer()
        else:
            clusterer = real_table_clusterer((inputs or {}).get("__clusters__", [0] * 16))
        return pool().TypiClust(random_state=seed, cluster_algo=clusterer, k=1, **kw)

    def call(self, qs, s, b, sym, table=None, return_utilities=True):
        return qs.query(s.X, s.y, candidates=s.cand, batch_size=b, return_utilities=return_utilities)


class ABald(Adapter):
    needs_clf = True
    product_abstraction = True

    def __init__(self, greedy):
        self.greedy = greedy
        self.name = "GreedyBALD" if greedy else "BatchBALD"
        self.units = ["skactiveml.pool._bald:_GeneralBALD.query", "skactiveml.pool._bald:batch_bald",
                      "skactiveml.pool._query_by_committee:QueryByCommittee._aggregate_predict_probas"]

    def make(self, seed, sym=True, inputs=None, **kw):
        K = pool().GreedyBALD if self.greedy else pool().BatchBALD
        return K(random_state=seed, **kw)

    def call(self, qs, s, b, sym, table=None, return_utilities=True):
        ens = AQBC().ensemble(sym, table, s.K)
        return qs.query(s.X, s.y, ens, candidates=s.cand, batch_size=b, return_utilities=return_utilities)


class _JointEntropyStub:
    """contract of skactiveml.pool._bald._DynamicJointEntropy: compute_batch returns one finite real per sample
    (an uninterpreted function of the batch chosen so far and of the sample's position)"""

    def __init__(self, M, max_N, K, C, random_state):
        self.added = 0

    def add_variables(self, log_probs):
        self.added += log_probs.shape[0]
        return self

    def compute_batch(self, log_probs_B_K_C):
        c = core.ctx()
        B = log_probs_B_K_C.shape[0]
        vals = [core.fresh_float(f"jointH_{self.added}_{i}") for i in range(B)]
        if not hasattr(c, "inputs"):
            c.inputs = {}
        c.inputs.setdefault("__jointH__", []).append(vals)
        return arrays.SymNd(arrays._to_obj(vals), float)


def _cond_entropy_stub(log_probs_N_K_C):
    N = log_probs_N_K_C.shape[0]
    return arrays.SymNd(arrays._to_obj([core.fresh_float(f"condH_{i}") for i in range(N)]), float)


from symx import stubs as _stubs  # noqa: E402
_stubs.MODULE_STUBS[("skactiveml.pool._typi_clust", "_typicality")] = _typicality_stub
_stubs.MODULE_STUBS[("skactiveml.pool._bald", "_DynamicJointEntropy")] = _JointEntropyStub
_stubs.MODULE_STUBS[("skactiveml.pool._bald", "_compute_conditional_entropy")] = _cond_entropy_stub

class AFalcun(Adapter):
    slow = True
    needs_clf = True
    selection = "proportional"
    product_abstraction = True
    units = ["skactiveml.pool._falcun:Falcun.query", "skactiveml.pool._uncertainty_sampling:uncertainty_scores"]

    def __init__(self, gamma=1):
        self.gamma = gamma          # gamma=0: documented as plain random sampling (relevance**0 = 1)
        self.name = f"Falcun[gamma={gamma}]"

    def make(self, seed, sym=True, inputs=None, **kw):
        return pool().Falcun(gamma=self.gamma, random_state=seed, **kw)

    def call(self, qs, s, b, sym, table=None, return_utilities=True):
        return qs.query(s.X, s.y, self.clf(sym, table, s.K), candidates=s.cand, batch_size=b,
                        return_utilities=return_utilities)


for _a in (AFalcun(1), AFalcun(0), AQBC(), ACoreSet(), AGreedyX(), ADiscriminative(True), ADiscriminative(False), ATypiClust(), ABald(True),
           ABald(False)):
    register(_a)


# --------------------------------------------------------------------------
# cluster- / neighbour-based strategies (second batch of adapters)
# --------------------------------------------------------------------------
def make_stub_transform_clusterer():
    """KMeans-like clusterer by contract: fit_transform returns one finite non-negative distance per (sample, centroid);
    nothing else is assumed. Values are solver variables named by call position, so they are a deterministic function
    of the call."""
    class StubTransformClusterer:
        def __init__(self, n_clusters=2, random_state=None, **kw):
            self.n_clusters = n_clusters
            self.random_state = random_state

        def fit_transform(self, X, y=None, sample_weight=None):
            c = core.ctx()
            n = len(X)
            rows = []
            for i in range(n):
                row = []
                for k in range(self.n_clusters):
                    t = core.fresh_float(f"cdist_{n}_{self.n_clusters}_{i}_{k}")
                    c.add(t.r >= 0)
                    row.append(t)
                rows.append(row)
            if not hasattr(c, "inputs"):
                c.inputs = {}
            c.inputs["__cdist__"] = rows
            return arrays.SymNd(arrays._to_obj(rows).reshape(n, self.n_clusters), float)
    return StubTransformClusterer


def real_table_transform_clusterer(rows):
    class TableTransformClusterer:
        def __init__(self, n_clusters=2, random_state=None, **kw):
            self.n_clusters = n_clusters

        def fit_transform(self, X, y=None, sample_weight=None):
            out = np.zeros((len(X), self.n_clusters))
            for i in range(len(X)):
                for k in range(self.n_clusters):
                    try:
                        out[i, k] = float(rows[i][k])
                    except (IndexError, TypeError):
                        pass
            return out
    return TableTransformClusterer


class AClue(Adapter):
    needs_clf = True
    independent = False
    supports_rows = False

    def __init__(self, method="entropy"):
        self.method = method
        self.name = f"Clue[{method}]"
        self.product_abstraction = method == "entropy"
        self.units = ["skactiveml.pool._clue:Clue.query", "skactiveml.pool._uncertainty_sampling:uncertainty_scores"]

    def make(self, seed, sym=True, inputs=None, **kw):
        if sym:
            clusterer = make_stub_transform_clusterer()
        else:
            clusterer = real_table_transform_clusterer((inputs or {}).get("__cdist__", []))
        return pool().Clue(random_state=seed, cluster_algo=clusterer, method=self.method, **kw)

    def call(self, qs, s, b, sym, table=None, return_utilities=True):
        return qs.query(s.X, s.y, self.clf(sym, table, s.K), fit_clf=False, candidates=s.cand, batch_size=b,
                        return_utilities=return_utilities)


def _sym_abs_distances(X):
    """exact pairwise distances of one-feature rows: |x_i - x_j|"""
    X = arrays.asnd(X)
    n = X.shape[0]
    out = np.empty((n, n), dtype=object)
    r = arrays.raw(X)
    for i in range(n):
        for j in range(n):
            if i == j:
                out[i, j] = 0.0
            elif j < i:
                out[i, j] = out[j, i]
            else:
                dsum = 0.0
                for f in range(X.shape[1]):
                    dsum = core.s_add(dsum, F.abs(core.s_sub(r[i, f], r[j, f])))
                out[i, j] = dsum
    return arrays.SymNd(out, float)


class AProbCover(Adapter):
    name = "ProbCover"
    slow = True
    independent = False
    supports_rows = False
    units = ["skactiveml.pool._prob_cover:ProbCover.query"]

    def make(self, seed, sym=True, inputs=None, **kw):
        if sym:
            return pool().ProbCover(random_state=seed, cluster_algo=make_stub_clusterer(), deltas=[0.5, 1.0],
                                    distance_func=_sym_abs_distances, **kw)
        clusterer = real_table_clusterer((inputs or {}).get("__clusters__", [0] * 16))
        return pool().ProbCover(random_state=seed, cluster_algo=clusterer, deltas=[0.5, 1.0], **kw)

    def call(self, qs, s, b, sym, table=None, return_utilities=True):
        return qs.query(s.X, s.y, candidates=s.cand, batch_size=b, return_utilities=return_utilities)


class _NearestNeighborsStub:
    """sklearn.neighbors.NearestNeighbors by contract (exact for the L1/L2 metric on the rows handed over): kneighbors
    returns, per query row, the indices of the n_neighbors closest fitted rows in ascending distance (stable)."""

    def __init__(self, n_neighbors=5, **kw):
        self.n_neighbors = n_neighbors

    def fit(self, X, y=None):
        self.X_ = arrays.asnd(X)
        return self

    def kneighbors(self, X, n_neighbors=None, return_distance=True):
        X = arrays.asnd(X)
        k = self.n_neighbors if n_neighbors is None else n_neighbors
        rows = []
        rl, rq = arrays.raw(self.X_), arrays.raw(X)
        for i in range(X.shape[0]):
            ds = []
            for j in range(self.X_.shape[0]):
                dsum = 0.0
                for f in range(X.shape[1]):
                    dsum = core.s_add(dsum, F.abs(core.s_sub(rq[i, f], rl[j, f])))
                ds.append(dsum)
            order = F.argsort(arrays.SymNd(arrays._to_obj(ds), float), kind="stable")
            rows.append([int(v) for v in order][:k])
        idx = np.array(rows, dtype=int).reshape(X.shape[0], k)
        if return_distance:
            raise core.Unencodable("kneighbors(return_distance=True)")
        return idx


_stubs.MODULE_STUBS[("skactiveml.pool._contrastive_al", "NearestNeighbors")] = _NearestNeighborsStub


class AContrastive(Adapter):
    needs_clf = True
    slow = True
    product_abstraction = True

    def __init__(self, k=None):
        self.k = k
        self.name = "ContrastiveAL" if k is None else f"ContrastiveAL[n_neighbors={k}]"
        self.units = ["skactiveml.pool._contrastive_al:ContrastiveAL.query"]

    def make(self, seed, sym=True, inputs=None, **kw):
        d = None if self.k is None else {"n_neighbors": self.k}
        return pool().ContrastiveAL(random_state=seed, nearest_neighbors_dict=d, **kw)

    def call(self, qs, s, b, sym, table=None, return_utilities=True):
        return qs.query(s.X, s.y, self.clf(sym, table, s.K), fit_clf=False, candidates=s.cand, batch_size=b,
                        return_utilities=return_utilities)


for _a in (AQBC("vote_entropy"), AQBC("variation_ratios"), AClue("least_confident"), AClue("entropy"), AProbCover(), AContrastive(), AContrastive(1)):
    register(_a)


# --------------------------------------------------------------------------
# GreedySamplingTarget (regression strategy; labels of the scenario are used as targets)
# --------------------------------------------------------------------------
def make_stub_regressor(sym, inputs=None, missing=NAN, keyed=False):
    """regressor by contract: predict is an uninterpreted function of the feature row (finite real)"""
    import z3
    from skactiveml.base import SkactivemlRegressor

    class StubReg(SkactivemlRegressor):
        def __init__(self, missing_label=NAN, random_state=None):
            super().__init__(missing_label=missing_label, random_state=random_state)

        def fit(self, X, y, sample_weight=None):
            if keyed:
                # the fitted model is a function of the training data: one uninterpreted predictor per training set
                if sym:
                    self.gen_ = models._train_key(0, X, y, sample_weight)
                else:
                    self.gen_ = _concrete_key(X, y)
            return self

        def predict(self, X):
            gen = getattr(self, "gen_", 0)
            if sym:
                c = core.ctx()
                X = arrays.asnd(X)
                f = models._fn("regF", X.shape[1])
                out = [core.SymFloat(f(z3.IntVal(gen), z3.IntVal(0), *models._row_terms(list(r)))) for r in arrays.raw(X)]
                if not hasattr(c, "inputs"):
                    c.inputs = {}
                c.inputs.setdefault("__reg__", []).extend([[list(r), o] for r, o in zip(arrays.raw(X), out)])
                return arrays.SymNd(arrays._to_obj(out) if out else np.empty(0, dtype=object), float)
            X = np.asarray(X, dtype=float)
            out = np.zeros(len(X))
            for i, r in enumerate(X):
                if keyed and gen:
                    # concrete replay: a fixed, training-set dependent affine predictor (any function of the training set
                    # satisfies the contract)
                    out[i] = (gen % 7 - 3) * 0.5 + (gen % 5 - 2) * 0.25 * float(np.sum(r))
                    continue
                for row, v in (inputs or {}).get("__reg__", []):
                    if np.array_equal(np.asarray(row, dtype=float), r):
                        out[i] = v
            return out
    return StubReg(missing_label=missing)


def _concrete_key(X, y):
    import zlib
    a = np.ascontiguousarray(np.asarray(X, dtype=float)).tobytes() + np.ascontiguousarray(np.asarray(y, dtype=float)).tobytes()
    return 1 + zlib.crc32(a) % 1000003


class AGreedyTarget(Adapter):
    independent = False
    product_abstraction = True

    def __init__(self, method, n_gsx):
        self.method = method
        self.n_gsx = n_gsx
        self.name = f"GreedySamplingTarget[{method}+{n_gsx}GSx]"
        self.units = ["skactiveml.pool._greedy_sampling:GreedySamplingTarget.query", "skactiveml.pool._greedy_sampling:_greedy_sampling",
                      "skactiveml.pool._greedy_sampling:_measure_distance"]

    def make(self, seed, sym=True, inputs=None, **kw):
        self._inputs = inputs
        return pool().GreedySamplingTarget(method=self.method, n_GSx_samples=self.n_gsx, random_state=seed, **kw)

    def call(self, qs, s, b, sym, table=None, return_utilities=True):
        reg = make_stub_regressor(sym, getattr(self, "_inputs", None))
        return qs.query(s.X, s.y, reg, fit_reg=False, candidates=s.cand, batch_size=b, return_utilities=return_utilities)


for _a in (AGreedyTarget("GSy", 1), AGreedyTarget("GSi", 2)):
    register(_a)


# --------------------------------------------------------------------------
# ExpectedModelChangeMaximization: bootstrap learners (clones of the regressor fitted on index draws of the strategy's
# generator) against the regressor's own prediction; |difference| x feature norm
# --------------------------------------------------------------------------
class AEMCM(Adapter):
    name = "ExpectedModelChangeMaximization"
    n = 2          # two samples: every bootstrap draw (2 indices out of 2) is explored
    independent = False
    product_abstraction = True
    slow = True
    units = ["skactiveml.pool._expected_model_change_maximization:ExpectedModelChangeMaximization.query",
             "skactiveml.pool._expected_model_change_maximization:_bootstrap_estimators"]

    def make(self, seed, sym=True, inputs=None, **kw):
        self._inputs = inputs
        return pool().ExpectedModelChangeMaximization(bootstrap_size=1, n_train=0.5, random_state=seed, **kw)

    def call(self, qs, s, b, sym, table=None, return_utilities=True):
        reg = make_stub_regressor(sym, getattr(self, "_inputs", None), keyed=True)
        return qs.query(s.X, s.y, reg, fit_reg=False, candidates=s.cand, batch_size=b, return_utilities=return_utilities)


register(AEMCM())


# --------------------------------------------------------------------------
# RegressionTreeBasedAL: only its cold-start branch (at most one labeled sample -> proportional random batch) is inside
# the encodable fragment; the tree-based branches read sklearn's fitted tree structure
# --------------------------------------------------------------------------
class ARegressionTreeColdStart(Adapter):
    name = "RegressionTreeBasedAL[cold start]"
    loop = False           # (an AL loop leaves the cold-start branch after its first cycle)
    selection = "proportional"
    supports_rows = True
    units = ["skactiveml.pool._regression_tree_based_al:RegressionTreeBasedAL.query"]

    def make(self, seed, sym=True, inputs=None, **kw):
        return pool().RegressionTreeBasedAL(random_state=seed, **kw)

    def call(self, qs, s, b, sym, table=None, return_utilities=True):
        from sklearn.tree import DecisionTreeRegressor
        from skactiveml.regressor import SklearnRegressor
        if sym and sum(1 for v in s.lab if v) >= 2:
            raise core.PathAbort("RegressionTreeBasedAL beyond its cold-start branch (sklearn tree internals)")
        reg = SklearnRegressor(DecisionTreeRegressor(random_state=0), missing_label=qs.missing_label)
        return qs.query(s.X, s.y, reg, candidates=s.cand, batch_size=b, return_utilities=return_utilities)


register(ARegressionTreeColdStart())


# --------------------------------------------------------------------------
# ProbabilisticAL (pool McPAL): frequencies of a class-frequency estimator -> cost_reduction (closed-form
# combinatorics over gamma functions; replaced by its contract: one finite real per row, a function of the row)
# --------------------------------------------------------------------------
def _pool_cost_reduction_stub(k_vec_list, C=None, m_max=2, prior=1.0e-3):
    k = arrays.asnd(k_vec_list)
    f = models._fn("costred", k.shape[1])
    out = [core.SymFloat(f(z3.IntVal(0), z3.IntVal(0), *models._row_terms(list(r)))) for r in arrays.raw(k)]
    return arrays.SymNd(arrays._to_obj(out) if out else np.empty(0, dtype=object), float)


_stubs.MODULE_STUBS[("skactiveml.pool._probabilistic_al", "cost_reduction")] = _pool_cost_reduction_stub


class AProbabilisticAL(Adapter):
    name = "ProbabilisticAL"
    needs_clf = True
    units = ["skactiveml.pool._probabilistic_al:ProbabilisticAL.query"]

    def make(self, seed, sym=True, inputs=None, **kw):
        self._inputs = inputs
        return pool().ProbabilisticAL(random_state=seed, **kw)

    def clf(self, sym, table=None, K=2):
        if sym:
            return models.StubFreqClassifier(classes=list(range(K)), n_classes=K)
        return models.real_table_freq_classifier([(row, fr) for _, row, fr in (self._inputs or {}).get("__freq__", [])], n_classes=K)

    def call(self, qs, s, b, sym, table=None, return_utilities=True):
        return qs.query(s.X, s.y, self.clf(sym, table, s.K), fit_clf=False, candidates=s.cand, batch_size=b,
                        return_utilities=return_utilities)


register(AProbabilisticAL())


class AProbabilisticALMetric(Adapter):
    """metric given: the strategy estimates the label density itself with an internal ParzenWindowClassifier (real code on
    the kernel stub) built from the handed classifier's classes / missing_label, and weights the classifier's
    probabilities with it"""
    name = "ProbabilisticAL[metric=rbf]"
    needs_clf = True
    product_abstraction = True
    supports_rows = False
    slow = True
    units = ["skactiveml.pool._probabilistic_al:ProbabilisticAL.query",
             "skactiveml.classifier._parzen_window_classifier:ParzenWindowClassifier.fit",
             "skactiveml.classifier._parzen_window_classifier:ParzenWindowClassifier.predict_freq"]

    def make(self, seed, sym=True, inputs=None, **kw):
        return pool().ProbabilisticAL(metric="rbf", metric_dict={"gamma": 0.5}, random_state=seed, **kw)

    def call(self, qs, s, b, sym, table=None, return_utilities=True):
        return qs.query(s.X, s.y, self.clf(sym, table, s.K), fit_clf=False, candidates=s.cand, batch_size=b,
                        return_utilities=return_utilities)


register(AProbabilisticALMetric())


# --------------------------------------------------------------------------
# DropQuery (dropout masks are draws of the strategy's generator; predictions = argmax of the stub's probabilities)
# --------------------------------------------------------------------------
class ADropQuery(Adapter):
    name = "DropQuery"
    needs_clf = True
    independent = False
    supports_rows = False
    slow = True
    n = 2          # 2 samples: every dropout mask (n_dropout_samples = 3, the minimum) is explored
    units = ["skactiveml.pool._drop_query:DropQuery.query"]

    def make(self, seed, sym=True, inputs=None, **kw):
        if sym:
            clusterer = make_stub_transform_clusterer()
        else:
            clusterer = real_table_transform_clusterer((inputs or {}).get("__cdist__", []))
        return pool().DropQuery(random_state=seed, cluster_algo=clusterer, n_dropout_samples=3, dropout_rate=0.5, **kw)

    def call(self, qs, s, b, sym, table=None, return_utilities=True):
        return qs.query(s.X, s.y, self.clf(sym, table, s.K), fit_clf=False, candidates=s.cand, batch_size=b,
                        return_utilities=return_utilities)


register(ADropQuery())


# --------------------------------------------------------------------------
# Badge (gradient embedding of the stub's probabilities, k-means++ seeding with the strategy's generator)
# --------------------------------------------------------------------------
class ABadge(Adapter):
    name = "Badge"
    n = 2          # two samples: the k-means++ seeding forks on every distance comparison and on the proportional draw
    needs_clf = True
    independent = False
    slow = True
    selection = "proportional"
    product_abstraction = True
    units = ["skactiveml.pool._badge:Badge.query", "skactiveml.pool._badge:_d_2"]

    def make(self, seed, sym=True, inputs=None, **kw):
        return pool().Badge(random_state=seed, **kw)

    def call(self, qs, s, b, sym, table=None, return_utilities=True):
        return qs.query(s.X, s.y, self.clf(sym, table, s.K), fit_clf=False, candidates=s.cand, batch_size=b,
                        return_utilities=return_utilities)


register(ABadge())
