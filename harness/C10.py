"""C10 — stream update commits exactly what query simulated.
For a symbolic stream and EVERY composition of the stream into chunks, the real
query/update are run per chunk on copies of the same (symbolic or fresh)
pre-state: update must accept query's result, indices must be well formed, and
for the deterministic managers / baselines decisions and final state must equal
those of instance-by-instance processing."""
from __future__ import annotations

import copy

import numpy as np
import z3

from harness import streamlib as sl
from harness.common import Harness, rec
from symx import arrays, core, facade
from symx.core import b_and, b_not, b_or, boolexpr, fresh_float, fresh_int, s_le, s_lt, s_eq

PID = "C10"
F = facade.FACADE
INVARIANT_CLAIMED = ["FixedUncertaintyBudgetManager", "VariableUncertaintyBudgetManager", "SplitBudgetManager",
                     "RandomBudgetManager", "BalancedIncrementalQuantileFilter"]


def _run_chunks(c, bm, util, comp, cls, tag):
    """process the stream in the given composition; returns (decisions, ok)"""
    pos = 0
    decisions = []
    for size in comp:
        u = util[pos:pos + size].copy()
        idx = bm.query_by_utility(u)
        idl = [int(i) for i in idx]
        c.prove(all(0 <= i < size for i in idl) and all(a < b for a, b in zip(idl, idl[1:])),
                "indices_strictly_increasing_in_range", info=dict(comp=comp))
        cands = F.zeros((size, 1))
        try:
            if cls == "BalancedIncrementalQuantileFilter":
                bm.update(cands, F.array(idl, dtype=int), util[pos:pos + size].copy())
            else:
                bm.update(cands, F.array(idl, dtype=int))
        except (IndexError, ValueError, TypeError) as e:
            c.prove(False, "update_accepts_query_result", info=dict(comp=comp, error=repr(e)))
            return None
        decisions += [pos + i for i in idl]
        pos += size
    return decisions


def sym_manager(c, cls, w, n, pre, budget=None):
    B = sl.sym_budget(c, concrete=budget)
    bm0, st = sl.make_manager(c, cls, B, w=w, pre=pre)
    if pre == "arbitrary" and "u_t_" in st:
        c.assume(s_le(st["u_t_"], B * w + 1))
    nan = cls not in ("BalancedIncrementalQuantileFilter",)
    util = sl.sym_utilities(c, n, nan=nan)
    rec(c, "utilities", util)
    if cls == "BalancedIncrementalQuantileFilter" and pre == "arbitrary":
        # window content: up to 2 earlier utilities
        hist = sl.sym_utilities(c, 2, name="hist", nan=False)
        bm0.history_sorted_.extend(list(arrays.raw(hist)))
        rec(c, "pre_history", hist)
        c.assume(st["observed_samples_"].r >= 2)
    ref = None
    ref_state = None
    comps = list(sl.compositions(n))
    comps.sort(key=lambda cp: -len(cp))  # instance-by-instance first (reference)
    for comp in comps:
        bm = copy.deepcopy(bm0)
        dec = _run_chunks(c, bm, util, comp, cls, "")
        if dec is None:
            continue
        if cls not in INVARIANT_CLAIMED:
            continue
        if ref is None:
            ref, ref_state = dec, sl.bm_state(bm)
            continue
        c.prove(dec == ref, "decisions_independent_of_chunking", info=dict(comp=comp, decisions=dec, reference=ref))
        stt = sl.bm_state(bm)
        for k in sorted(ref_state):
            if k in ("budget_",):
                continue
            c.prove(sl.eq_value(ref_state[k], stt.get(k)), f"state_independent_of_chunking:{k}", info=dict(comp=comp))
    c.witness(ref is not None and len(ref) >= 1, "some_granted")
    c.witness(ref is not None and 0 < len(ref) < n, "budget_crossed_inside_stream")


def _real_chunks(bm, util, comp, cls):
    pos = 0
    dec = []
    for size in comp:
        u = util[pos:pos + size].copy()
        idx = np.asarray(bm.query_by_utility(u), dtype=int)
        idl = idx.tolist()
        if not (all(0 <= i < size for i in idl) and all(a < b for a, b in zip(idl, idl[1:]))):
            return "indices_strictly_increasing_in_range", idl
        try:
            if cls == "BalancedIncrementalQuantileFilter":
                bm.update(np.zeros((size, 1)), idx, util[pos:pos + size].copy())
            else:
                bm.update(np.zeros((size, 1)), idx)
        except (IndexError, ValueError, TypeError) as e:
            return "update_accepts_query_result", repr(e)
        dec += [pos + i for i in idl]
        pos += size
    return None, dec


def _state_vals(bm):
    out = {}
    for k, v in sl.bm_state(bm).items():
        if isinstance(v, np.random.RandomState):
            st = v.get_state()
            out[k] = ("rng", st[2] if st[0] != "scripted" else (st[1], st[2]), hash(np.asarray(st[1]).tobytes()) if st[0] != "scripted" else 0)
        elif hasattr(v, "__len__") and not isinstance(v, str):
            out[k] = [float(x) for x in v]
        else:
            out[k] = float(v) if isinstance(v, (int, float, np.number)) else v
    return out


def replay_manager(inputs, label, cls, w, n, pre, budget=None):
    if pre == "arbitrary":
        return None, "symbolic pre-state: candidate only"
    B = budget if budget is not None else inputs["budget"]
    util = np.array(inputs["utilities"], dtype=float)
    seeds = [int(inputs.get("seed", 0))] + ([] if inputs.get("__scripted__") else list(range(40)))
    for seed in seeds:
        ref = None
        comps = sorted(sl.compositions(n), key=lambda cp: -len(cp))
        for comp in comps:
            bm = sl.real_manager(cls, B, w, {}, seed)
            bad, dec = _real_chunks(bm, util, comp, cls)
            if bad is not None:
                if bad == label:
                    return True, f"{cls}(budget={B}, w={w}) utilities={util.tolist()} chunks={comp}: {dec}"
                continue
            stv = _state_vals(bm)
            if ref is None:
                ref = (dec, stv)
                continue
            if label == "decisions_independent_of_chunking" and dec != ref[0]:
                return True, (f"{cls}(budget={B}, w={w}, seed={seed}) utilities={util.tolist()}: chunks {comp} grant {dec}, "
                              f"one-by-one grants {ref[0]}")
            if label.startswith("state_independent_of_chunking:"):
                k = label.split(":", 1)[1]
                a, b = ref[1].get(k), stv.get(k)
                same = a == b if not isinstance(a, float) else (abs(a - b) <= 1e-9 * max(1.0, abs(a)))
                if not same:
                    return True, (f"{cls}(budget={B}, w={w}, seed={seed}) utilities={util.tolist()}: {k} = {b} after chunks "
                                  f"{comp} but {a} after one-by-one processing")
    return False, "not reproduced"


# ---------------------------------------------------------------- baselines
def sym_baseline(c, cls, n, pre, as_list=False):
    """as_list: the candidates are handed over as a list of lists (array-like) to query and update alike"""
    st = sl.st_mod()
    B = sl.sym_budget(c)
    seed = fresh_int("seed", 0, 2 ** 32 - 1)
    rec(c, "seed", seed)
    if cls == "PeriodicSampling":
        qs0 = st.PeriodicSampling(budget=B, random_state=seed)
    else:
        qs0 = st.StreamRandomSampling(allow_exceeding_budget=(cls == "StreamRandomSampling_exceed"), budget=B,
                                      random_state=seed)
    if pre == "arbitrary":
        qs0._validate_data(F.zeros((1, 1)), False)
        o = fresh_int("obs", 0, None)
        q = fresh_int("qd", 0, None)
        c.assume(q.e <= o.e)
        qs0.observed_samples_, qs0.queried_samples_ = o, q
        qs0.random_state_ = facade.SymRandomState(z3.Int("genstate"))
        rec(c, "pre_observed", o)
        rec(c, "pre_queried", q)
    ref = None
    comps = sorted(sl.compositions(n), key=lambda cp: -len(cp))
    for comp in comps:
        qs = copy.deepcopy(qs0)
        pos = 0
        dec, utils = [], []
        ok = True
        for size in comp:
            X = [[0.0] for _ in range(size)] if as_list else F.zeros((size, 1))
            idx, u = qs.query(X, return_utilities=True)
            idl = [int(i) for i in idx]
            c.prove(all(0 <= i < size for i in idl) and all(a < b for a, b in zip(idl, idl[1:])),
                    "indices_strictly_increasing_in_range")
            c.prove(tuple(np.shape(u)) == (size,), "one_utility_per_candidate")
            try:
                qs.update(X, idx)
            except (IndexError, ValueError, TypeError, AttributeError) as e:
                c.prove(False, "update_accepts_query_result", info=dict(comp=comp, error=repr(e)))
                ok = False
                break
            dec += [pos + i for i in idl]
            utils += list(arrays.raw(arrays.asnd(u)))
            pos += size
        if not ok:
            continue
        if ref is None:
            ref = (dec, utils, sl.bm_state(qs))
            continue
        c.prove(dec == ref[0], "decisions_independent_of_chunking", info=dict(comp=comp))
        c.prove(b_and(*[sl.eq_value(a, b) for a, b in zip(utils, ref[1])]), "utilities_independent_of_chunking",
                info=dict(comp=comp))
        stt = sl.bm_state(qs)
        for k in sorted(ref[2]):
            if k in ("budget_", "n_features_in_"):
                continue
            c.prove(sl.eq_value(ref[2][k], stt.get(k)), f"state_independent_of_chunking:{k}", info=dict(comp=comp))
    c.witness(ref is not None and len(ref[0]) >= 1, "some_granted")


def replay_baseline(inputs, label, cls, n, pre, as_list=False):
    if pre == "arbitrary":
        return None, "symbolic pre-state: candidate only"
    st = sl.st_mod()
    B = inputs["budget"]
    seeds = [int(inputs.get("seed", 0))] + ([] if inputs.get("__scripted__") else list(range(100)))
    for seed in seeds:
        ref = None
        for comp in sorted(sl.compositions(n), key=lambda cp: -len(cp)):
            if cls == "PeriodicSampling":
                qs = st.PeriodicSampling(budget=B, random_state=seed)
            else:
                qs = st.StreamRandomSampling(allow_exceeding_budget=(cls == "StreamRandomSampling_exceed"), budget=B,
                                             random_state=seed)
            pos = 0
            dec, utils = [], []
            bad = None
            for size in comp:
                X = [[0.0] for _ in range(size)] if as_list else np.zeros((size, 1))
                idx, u = qs.query(X, return_utilities=True)
                idl = np.asarray(idx).tolist()
                if not (all(0 <= i < size for i in idl) and all(a < b for a, b in zip(idl, idl[1:]))):
                    bad = "indices_strictly_increasing_in_range"
                if np.shape(u) != (size,):
                    bad = "one_utility_per_candidate"
                try:
                    qs.update(X, idx)
                except (IndexError, ValueError, TypeError, AttributeError) as e:
                    bad = "update_accepts_query_result"
                if bad:
                    break
                dec += [pos + i for i in idl]
                utils += np.asarray(u, dtype=float).tolist()
                pos += size
            if bad:
                if bad == label:
                    return True, f"{cls}(budget={B}, seed={seed}) chunks={comp}: {bad}"
                continue
            stv = _state_vals(qs)
            if ref is None:
                ref = (dec, utils, stv)
                continue
            if label == "decisions_independent_of_chunking" and dec != ref[0]:
                return True, f"{cls}(budget={B}, seed={seed}): chunks {comp} grant {dec}, one-by-one {ref[0]}"
            if label == "utilities_independent_of_chunking" and utils != ref[1]:
                return True, f"{cls}(budget={B}, seed={seed}): utilities differ for chunks {comp}"
            if label.startswith("state_independent_of_chunking:"):
                k = label.split(":", 1)[1]
                if ref[2].get(k) != stv.get(k):
                    return True, f"{cls}(budget={B}, seed={seed}): {k}={stv.get(k)} after chunks {comp}, {ref[2].get(k)} one-by-one"
    return False, "not reproduced"


# ----------------------------------------------------------------
def _cfg_manager(tier):
    out = []
    for cls in sl.ALL_MANAGERS:
        ws = [1, 3, 100] if tier == "thorough" else [3]
        for w in ws:
            for pre in ("fresh", "arbitrary"):
                if cls == "BalancedIncrementalQuantileFilter":
                    if pre == "fresh" and w == ws[0]:
                        for wq in (1, 2):      # windows smaller than the stream: eviction inside a chunk
                            out.append(dict(cls=cls, w=wq, n=3, pre=pre, budget=0.5))
                    for b in ((0.1, 0.5, 1.0) if tier == "thorough" else (0.5,)):
                        for n in ((2, 3) if tier == "quick" else (2, 3, 4)):
                            if pre == "arbitrary" and n > 2:
                                continue  # nonlinear (range * acq_left): n=3 does not finish in 5 min
                            out.append(dict(cls=cls, w=w, n=n, pre=pre, budget=b))
                    continue
                if cls in ("DensityBasedSplitBudgetManager", "RandomVariableUncertaintyBudgetManager") \
                        and pre == "arbitrary" and tier == "quick":
                    continue  # chunk invariance not claimed for these; acceptance is checked from fresh objects
                top = 3 if tier == "quick" else (4 if cls in ("SplitBudgetManager", "RandomVariableUncertaintyBudgetManager") else 5)
                if cls == "DensityBasedSplitBudgetManager" and w != ws[0]:
                    continue
                if cls == "DensityBasedSplitBudgetManager" and pre == "arbitrary":
                    top = 3     # nonlinear (u/t against a symbolic budget from a symbolic state): n >= 4 needs ~50 min per configuration
                if cls == "RandomVariableUncertaintyBudgetManager" and pre == "arbitrary":
                    top = min(top, 3)
                if cls == "DensityBasedSplitBudgetManager" and pre == "fresh":
                    top = min(top, 4)
                for n in range(2, top + 1):
                    if w == 100 and n == 5 and pre == "fresh":
                        continue    # float chain of 0.99*u from a fresh object: boundary cases that do not replay (see C04)
                    out.append(dict(cls=cls, w=w, n=n, pre=pre))
    return out


def _cfg_base(tier):
    return [dict(cls=k, n=n, pre=p) for k in ("PeriodicSampling", "StreamRandomSampling", "StreamRandomSampling_exceed")
            for p in ("fresh", "arbitrary") for n in range(2, (3 if tier == "quick" else 5) + 1)] + \
        [dict(cls=k, n=2, pre="fresh", as_list=True) for k in ("PeriodicSampling", "StreamRandomSampling")]


HARNESSES = [
    Harness("manager_chunking", sym_manager, replay_manager, _cfg_manager,
            [sl.BM_UNITS[k] for k in sl.ALL_MANAGERS] + [sl.BM_UNITS["EstimatedBudgetZliobaite.update"]],
            required_witnesses=("some_granted", "budget_crossed_inside_stream")),
    Harness("baseline_chunking", sym_baseline, replay_baseline, _cfg_base,
            ["skactiveml.stream._stream_baselines:PeriodicSampling", "skactiveml.stream._stream_baselines:StreamRandomSampling"],
            required_witnesses=("some_granted",)),
]

from harness import density as _density  # noqa: E402
HARNESSES = HARNESSES + _density.harnesses_c10() + _density.harnesses_c10_chunking()
from harness import spal as _spal  # noqa: E402
HARNESSES = HARNESSES + _spal.harnesses_c10()

BOUNDS = dict(quick="streams of <= 3 instances, ALL compositions into chunks, w=3, symbolic budget (BIQF: budget 0.5, "
                    "window history <= 2), symbolic and fresh pre-states",
              thorough="streams of <= 5 instances (16 compositions; <= 4 for Split / RandomVariableUncertainty, <= 3 for DensityBasedSplit from a "
                       "symbolic pre-state), w in {1,3,100}, BIQF budgets {0.1,0.5,1.0}",
              outside="floating point rounding; strategies not listed in the evidence; chunk invariance is not claimed (and "
                      "not checked) for managers that consume normal draws (RandomVariableUncertainty, DensityBasedSplit)")
ASSUMPTIONS = [
    "exact real arithmetic; RandomState draws as uninterpreted functions of (seed, draw history) -- two processing orders see "
    "the same numbers iff they draw in the same order, which is the claim",
    "violations are reported only from pre='fresh' runs (reachable through the public API)",
    "numpy.quantile (BIQF) modelled as linear interpolation between order statistics for a concrete budget",
]
