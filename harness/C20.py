"""C20 — wrapper strategies are transparent to the strategy they wrap.
ParallelUtilityEstimationWrapper and SubSamplingWrapper (real code) around the
real UncertaintySampling with a pre-fitted stub classifier (utilities are an
uninterpreted function of the feature row)."""
from __future__ import annotations

import math

import numpy as np
import z3

from harness import models
from harness import poollib as pl
from harness.common import Harness, rec
from symx import arrays, core, facade, stubs
from symx.core import b_and, b_not, b_or, boolexpr, s_eq

PID = "C20"
F = facade.FACADE


NAN = float("nan")


def _inner(seed, kind="us", missing=NAN):
    if kind == "coreset":
        return pl.pool().CoreSet(random_state=seed, missing_label=missing)   # no classifier argument: exercises match_signature / call_func
    return pl.pool().UncertaintySampling(method="least_confident", random_state=seed, missing_label=missing)


def _encode(env, s, missing):
    """the scenario's labels under the integer encoding with the sentinel `missing` (-1)"""
    if missing != missing:
        return s.y
    vals = np.array([(i % s.K) if s.lab[i] else missing for i in range(s.n)], dtype=int)
    return arrays.SymNd(vals) if env.sym else vals


def _kw(kind, clf):
    return {} if kind == "coreset" else dict(clf=clf, fit_clf=False)


def _clf(sym, table, K=2):
    if sym:
        clf = models.StubClassifier(classes=list(range(K)), n_classes=K, gen=7)
        clf.classes_ = np.arange(K)
        return clf
    clf = models.real_table_classifier([(row, p) for _, row, p in (table or [])], n_classes=K)
    clf.classes_ = np.arange(K)
    return clf


def _eq_nan(env, a, b):
    if env.sym:
        return b_or(boolexpr(s_eq(a, b)), b_and(pl.is_nan_z(a), pl.is_nan_z(b)))
    return bool((np.isnan(a) and np.isnan(b)) or a == b)


# ---------------------------------------------------------------- parallel wrapper
def _parallel(env, s, n_jobs, cpus, table=None, inner_kind="us"):
    P = pl.pool()
    clf = _clf(env.sym, table)
    stubs.CPU_COUNT[0] = cpus
    inner = _inner(s.seed, inner_kind)
    kw = _kw(inner_kind, clf)
    w = P.ParallelUtilityEstimationWrapper(query_strategy=_inner(s.seed, inner_kind), n_jobs=n_jobs, random_state=s.seed)
    ref = inner.query(s.X, s.y, candidates=s.cand, batch_size=1, return_utilities=True, **kw)
    try:
        if env.sym:
            out = w.query(s.X, s.y, candidates=s.cand, batch_size=1, return_utilities=True, **kw)
        else:
            import joblib
            import skactiveml.pool._wrapper as W
            old = W.cpu_count
            W.cpu_count = lambda: cpus
            try:
                out = w.query(s.X, s.y, candidates=s.cand, batch_size=1, return_utilities=True, **kw)
            finally:
                W.cpu_count = old
    except (core.Unencodable, core.PathAbort):
        raise
    except Exception as e:
        env.prove(False, "parallel_wrapper_query_succeeds", info=dict(error=repr(e)[:200], n_jobs=n_jobs, cpus=cpus))
        return
    ok = isinstance(out, tuple) and np.shape(out[1]) == np.shape(ref[1]) and np.shape(out[0]) == np.shape(ref[0])
    env.prove(ok, "parallel_same_shapes", info=dict(got=[np.shape(out[0]), np.shape(out[1])], ref=[np.shape(ref[0]), np.shape(ref[1])]))
    if not ok:
        return
    ru = arrays.raw(arrays.asnd(out[1])) if env.sym else np.asarray(out[1])
    rr = arrays.raw(arrays.asnd(ref[1])) if env.sym else np.asarray(ref[1])
    for p in np.ndindex(rr.shape):
        env.prove(_eq_nan(env, ru[p], rr[p]), "parallel_same_utilities", info=dict(pos=list(p)))
    env.prove([int(i) for i in out[0]] == [int(i) for i in ref[0]], "parallel_same_selection_for_equal_seeds",
              info=dict(got=[int(i) for i in out[0]], ref=[int(i) for i in ref[0]]))


def sym_parallel(c, n, mode, n_jobs, cpus, inner="us"):
    s = pl.gen_scenario(c, n, mode, 1, independent=(inner == "us"))
    _parallel(pl.Env(c), s, n_jobs, cpus, inner_kind=inner)
    c.witness(True, "ran")


def replay_parallel(inputs, label, n, mode, n_jobs, cpus, inner="us"):
    s = pl.real_scenario(inputs, n, mode)
    for seed in [s.seed] + list(range(5)):
        s.seed = seed
        env = pl.Env()
        _parallel(env, s, n_jobs, cpus, table=inputs.get("__clf__"), inner_kind=inner)
        if label in env.violated:
            return True, (f"ParallelUtilityEstimationWrapper({inner}, n_jobs={n_jobs}) with cpu_count()={cpus}, "
                          f"X={s.X.ravel().tolist()}, labeled={s.lab}, candidates={s.cand if mode != 'rows' else 'rows'}: {label} {env.violated[label]}")
    return False, "not reproduced"


# ---------------------------------------------------------------- sub-sampling wrapper
def _subsample(env, s, b, max_cand, exclude, table=None, inner_kind="us", missing=NAN):
    P = pl.pool()
    clf = _clf(env.sym, table)
    clf.missing_label = missing
    kw = _kw(inner_kind, clf)
    w = P.SubSamplingWrapper(query_strategy=_inner(s.seed, inner_kind, missing), max_candidates=max_cand, exclude_non_subsample=exclude,
                             random_state=s.seed, missing_label=missing)
    _y_float = s.y
    s.y = _encode(env, s, missing)
    try:
        return _subsample_checks(env, s, b, max_cand, exclude, inner_kind, missing, w, kw)
    finally:
        s.y = _y_float


def _subsample_checks(env, s, b, max_cand, exclude, inner_kind, missing, w, kw):
    ncand = len(s.cand_set)
    m = min(max_cand, ncand) if isinstance(max_cand, int) else min(math.ceil(ncand * max_cand), ncand)
    try:
        out = w.query(s.X, s.y, candidates=s.cand, batch_size=b, return_utilities=True, **kw)
    except (core.Unencodable, core.PathAbort):
        raise
    except Exception as e:
        env.prove(False, "subsampling_query_succeeds", info=dict(error=repr(e)[:200], b=b, m=m))
        return
    idx, ut = out
    k = min(b, m)
    idl = [int(i) for i in idx]
    env.prove(len(idl) == k and len(set(idl)) == k, "subsampling_batch_length_distinct", info=dict(got=idl, expected=k))
    shp = tuple(np.shape(ut))
    env.prove(shp == (k, s.ncols), "subsampling_utilities_shape", info=dict(shape=shp, expected=(k, s.ncols)))
    if shp != (k, s.ncols) or k == 0:
        return
    ru = arrays.raw(arrays.asnd(ut)) if env.sym else np.asarray(ut, dtype=float)
    # the subset = candidates whose first-row utility is not -inf
    def is_ninf(v):
        if env.sym:
            return boolexpr(core.s_isinf(v)) if core.is_sym(v) else bool(np.isneginf(v))
        return bool(np.isneginf(v))
    sub = []
    for p in range(s.ncols):
        v = ru[0, p]
        if p not in s.cand_set:
            env.prove(pl.is_nan_z(v) if env.sym else bool(np.isnan(v)), "subsampling_nan_at_non_candidates", info=dict(pos=p))
            continue
        ninf = is_ninf(v)
        if env.sym and not core._isc(ninf):
            ninf = env.c.branch(ninf)
        if not ninf:
            sub.append(p)
    env.prove(len(sub) == m, "subsampling_subset_has_documented_size", info=dict(subset=sub, expected=m))
    env.prove(all(i in sub for i in idl), "subsampling_selects_from_subset", info=dict(got=idl, subset=sub))
    # utilities on the subset equal the wrapped strategy's utilities for exactly that subset
    if s.mode == "rows":
        ref = _inner(s.seed, inner_kind, missing).query(s.X, s.y, candidates=s.cand[sub] if len(sub) else s.cand,
                                               batch_size=1, return_utilities=True, **kw)[1]
        refv = {p: (arrays.raw(arrays.asnd(ref)) if env.sym else np.asarray(ref))[0, j] for j, p in enumerate(sub)}
    else:
        ref = _inner(s.seed, inner_kind, missing).query(s.X, s.y, candidates=sub, batch_size=1, return_utilities=True, **kw)[1]
        refv = {p: (arrays.raw(arrays.asnd(ref)) if env.sym else np.asarray(ref))[0, p] for p in sub}
    for p in sub:
        env.prove(_eq_nan(env, ru[0, p], refv[p]), "subsampling_reports_inner_utilities", info=dict(pos=p))
    for t in range(k):
        for p in range(s.ncols):
            v = ru[t, p]
            if p in s.cand_set and p not in sub:
                env.prove(is_ninf(v) if not env.sym else (boolexpr(core.s_isinf(v)) if core.is_sym(v) else bool(np.isneginf(v))),
                          "subsampling_minus_inf_outside_subset", info=dict(step=t, pos=p))
            if p in idl[:t]:
                env.prove(pl.is_nan_z(v) if env.sym else bool(np.isnan(v)), "subsampling_nan_at_earlier_picks", info=dict(step=t, pos=p))


def sym_subsample(c, n, mode, b, max_cand, exclude, inner="us", missing=NAN):
    # index candidates are drawn from the unlabeled samples (a labeled candidate is dropped from the reduced
    # training set when exclude_non_subsample=True; the property does not fix that case)
    s = pl.gen_scenario(c, n, mode, b, independent=False)
    if mode == "rows" and exclude and not any(s.lab):
        # the reduced training set (labeled samples only) would be empty: the wrapped strategy itself rejects an
        # empty X, so there is nothing the wrapper could be transparent to
        raise core.PathAbort("empty reduced training set")
    _subsample(pl.Env(c), s, b, max_cand, exclude, inner_kind=inner, missing=missing)
    c.witness(True, "ran")


def replay_subsample(inputs, label, n, mode, b, max_cand, exclude, inner="us", missing=NAN):
    s = pl.real_scenario(inputs, n, mode)
    for seed in [s.seed] + ([] if inputs.get("__scripted__") else list(range(20))):
        s.seed = seed
        env = pl.Env()
        _subsample(env, s, b, max_cand, exclude, table=inputs.get("__clf__"), inner_kind=inner, missing=missing)
        if label in env.violated:
            return True, (f"SubSamplingWrapper({inner}, max_candidates={max_cand}, exclude_non_subsample={exclude}, "
                          f"random_state={seed}).query(X={s.X.ravel().tolist()}, labeled={s.lab}, candidates="
                          f"{s.cand if mode != 'rows' else s.cand.ravel().tolist()}, batch_size={b}): {label} {env.violated[label]}")
    return False, "not reproduced"


def validate_parallel(inputs, n, mode, n_jobs, cpus, inner="us"):
    s = pl.real_scenario(inputs, n, mode)
    env = pl.Env()
    _parallel(env, s, n_jobs, cpus, table=inputs.get("__clf__"), inner_kind=inner)
    return sorted(env.violated)


def validate_subsample(inputs, n, mode, b, max_cand, exclude, inner="us", missing=NAN):
    s = pl.real_scenario(inputs, n, mode)
    env = pl.Env()
    _subsample(env, s, b, max_cand, exclude, table=inputs.get("__clf__"), inner_kind=inner, missing=missing)
    return sorted(env.violated)


def _cfg_par(tier):
    out = []
    for n in ([3] if tier == "quick" else [3, 4]):
        for mode in ("none", "idx", "rows"):
            for n_jobs, cpus in ((1, 2), (2, 2), (3, 2), (-1, 2), (-1, 8)):
                out.append(dict(n=n, mode=mode, n_jobs=n_jobs, cpus=cpus))
    # an inner strategy without classifier arguments (CoreSet)
    for mode in ("none", "idx", "rows"):
        out.append(dict(n=3, mode=mode, n_jobs=2, cpus=2, inner="coreset"))
    return out


def _cfg_sub(tier):
    out = []
    for n in ([3] if tier == "quick" else [3, 4]):
        for mode in ("none", "idx", "rows"):
            for b in (1, 2):
                for mc in ((1, 2, 0.5) if tier == "quick" else (1, 2, 3, 0.5, 0.34, 1.0)):
                    for ex in (False, True):
                        out.append(dict(n=n, mode=mode, b=b, max_cand=mc, exclude=ex))
    for mode in ("none", "idx", "rows"):
        for ex in (False, True):
            out.append(dict(n=3, mode=mode, b=2, max_cand=2, exclude=ex, inner="coreset"))
    # integer labels with the sentinel -1 (wrapper, wrapped strategy and classifier agree on it)
    for mode in ("none", "idx"):
        for ex in (False, True):
            out.append(dict(n=3, mode=mode, b=1, max_cand=1, exclude=ex, missing=-1))
    return out


UNITS = ["skactiveml.pool._wrapper:ParallelUtilityEstimationWrapper.query", "skactiveml.pool._wrapper:SubSamplingWrapper.query",
         "skactiveml.pool._uncertainty_sampling:UncertaintySampling.query", "skactiveml.utils._functions:match_signature"]
HARNESSES = [
    Harness("parallel_wrapper", sym_parallel, replay_parallel, _cfg_par, pl.BASE_UNITS + UNITS[:1] + UNITS[2:], required_witnesses=("ran",)),
    Harness("subsampling_wrapper", sym_subsample, replay_subsample, _cfg_sub, pl.BASE_UNITS + UNITS[1:], required_witnesses=("ran",)),
]
HARNESSES[0].validate = validate_parallel
HARNESSES[1].validate = validate_subsample


# the third clause ("the single-annotator wrapper chooses samples in the order the wrapped strategy ranks them"): the C07
# scenario (real SingleAnnotatorWrapper around UncertaintySampling / RandomSampling, whose own answer is recorded) on the
# configurations where the order is at stake: uneven availability, more annotators requested than a sample has
def _cfg_saw_order(tier):
    out = []
    for cmode in (("none", "idx") if tier == "quick" else ("none", "idx", "rows")):
        for amode in ("none", "matrix"):
            for b, napp in ([(2, 2)] if tier == "quick" else [(2, 1), (2, 2), (3, 2)]):
                out.append(dict(n=2, A=2, cmode=cmode, amode=amode, b=b, napp=napp, perf=None))
    out.append(dict(n=3, A=2, cmode="none", amode="none", b=5, napp=[2, 1], perf=None))
    out.append(dict(n=2, A=2, cmode="none", amode="none", b=2, napp=2, perf=None, inner="random"))
    return out


_ORDER_LABELS = ("samples_in_the_order_of_the_wrapped_strategy", "annotators_per_sample_respected")


class _OrderEnv(pl.Env):
    """only the ordering clause belongs to C20: termination, distinctness and availability of the pairs are C07's (and its
    open finding about availability rows without annotators is not raised again here)"""

    def prove(self, cond, label, info=None):
        if label in _ORDER_LABELS:
            pl.Env.prove(self, cond, label, info)


def sym_saw_order(c, n, A, cmode, amode, b, napp, perf, enc="float", inner="us"):
    from harness import C07
    s = C07.gen(c, n, A, cmode, amode)
    if not s.avail:
        raise core.PathAbort("no available pair")
    C07._saw(_OrderEnv(c), s, b, napp, perf, enc=enc, inner_kind=inner)
    c.witness(True, "ran")


def _run_saw_order(inputs, n, A, cmode, amode, b, napp, perf, enc, inner, seed=None):
    from harness import C07
    s = C07.real_gen(inputs, n, A, cmode, amode)
    s.A_perf = inputs.get("A_perf")
    if seed is not None:
        s.seed = seed
    env = _OrderEnv()
    C07._saw(env, s, b, napp, perf, table=inputs.get("__clf__"), timeout=5, enc=enc, inner_kind=inner)
    return s, env


def replay_saw_order(inputs, label, n, A, cmode, amode, b, napp, perf, enc="float", inner="us"):
    for seed in [None] + ([] if inputs.get("__scripted__") else list(range(12))):
        s, env = _run_saw_order(inputs, n, A, cmode, amode, b, napp, perf, enc, inner, seed)
        got = pl.reproduced(env, label)
        if got:
            return True, (f"SingleAnnotatorWrapper(random_state={s.seed}).query(X={s.X.ravel().tolist()}, y labeled mask={s.lab.tolist()}, "
                          f"candidates={s.cand if cmode != 'rows' else 'rows'}, annotators="
                          f"{s.annot if amode != 'matrix' else np.asarray(s.annot).tolist()}, batch_size={b}, "
                          f"n_annotators_per_sample={napp}): {got} {env.violated[got]}")
    return False, "not reproduced"


def validate_saw_order(inputs, n, A, cmode, amode, b, napp, perf, enc="float", inner="us"):
    return sorted(_run_saw_order(inputs, n, A, cmode, amode, b, napp, perf, enc, inner)[1].violated)


def _saw_harness():
    from harness import C07
    h = Harness("single_annotator_wrapper_order", sym_saw_order, replay_saw_order, _cfg_saw_order, C07.UNITS[:6] + C07.UNITS[8:],
                required_witnesses=("ran",), max_paths=20000)
    h.validate = validate_saw_order
    return h


HARNESSES.append(_saw_harness())
BOUNDS = dict(quick="n = 3, candidate modes None / index subsets / 2 feature rows; parallel: n_jobs in {1,2,3,-1} with cpu_count in "
                    "{2,8}; sub-sampling: max_candidates in {1,2,0.5} x exclude_non_subsample x batch_size in {1,2}",
              thorough="n in {3,4}; max_candidates in {1,2,3,0.5,0.34,1.0}",
              outside="inner strategies other than UncertaintySampling (pre-fitted stub classifier, fit_clf=False) and CoreSet; single-annotator wrapper: "
                      "2-3 samples x 2 annotators around UncertaintySampling / RandomSampling (the scenario of C07, which checks it on all "
                      "its configurations)")
ASSUMPTIONS = [
    "joblib.Parallel/delayed by contract (sequential, order preserving); cpu_count() is a parameter of the harness",
    "inner classifier = pre-fitted stub (predict_proba uninterpreted function of the feature row), fit_clf=False so that both "
    "sides score the same model",
    "RandomState.choice(replace=False) returns distinct positions chosen by the solver",
]
