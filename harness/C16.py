"""C16 — label encoding round-trips and missing-label predicates agree.
The real is_unlabeled / is_labeled / *_indices / check_missing_label /
ExtLabelEncoder run on arrays whose numeric entries are symbolic values of the
dtype's sort (floats incl. NaN/inf, bounded ints); string / object entries are
chosen by the explorer from a small alphabet."""
from __future__ import annotations

import numpy as np
import z3

from harness.common import Harness, rec
from symx import arrays, core, facade
from symx.core import b_and, b_not, b_or, boolexpr, fresh_float, fresh_int, s_eq

PID = "C16"
F = facade.FACADE
NAN = float("nan")

CONFIGS = {
    # name: (kind, dtype, sentinel)
    "float_nan": ("float", float, NAN),
    "float_m1": ("float", float, -1),
    "float_half": ("float", float, 0.5),
    "int_m1": ("int", int, -1),
    "int_0": ("int", int, 0),
    "int_m1f": ("int", int, -1.0),      # integer labels with a float-typed integral sentinel
    "int_nan": ("int", int, NAN),
    "float_nan32": ("float", float, np.float32("nan")),     # NaN spelled as a numpy scalar that is not a Python float
    "float_nan16": ("float", float, np.float16("nan")),
    "str_nan": ("str", "<U3", "nan"),
    "str_empty": ("str", "<U3", ""),
    "obj_none": ("obj", object, None),
}
REJECTED = [  # (array factory description, sentinel): check_missing_label / is_unlabeled must raise TypeError
    ("str", "<U3", -1), ("str", "<U3", NAN), ("obj", object, -1), ("obj", object, "a"),
    ("float", float, [1]), ("float", float, (1, 2)), ("int", int, {1}),
]
ALPH = {"str": ["a", "b", "nan", ""], "obj": [None, "a", "b"]}


def _u():
    import skactiveml.utils as u
    return u


def gen_array(c, cfg, shape):
    kind, dtype, sentinel = CONFIGS[cfg] if isinstance(cfg, str) else cfg
    n = int(np.prod(shape))
    if kind == "float":
        xs = [fresh_float(f"y{i}", nan=True, inf=True) for i in range(n)]
        a = arrays.SymNd(arrays._to_obj(xs) if xs else np.empty(0, dtype=object), float).reshape(shape)
    elif kind == "int":
        xs = [fresh_int(f"y{i}", -2, 3) for i in range(n)]
        a = arrays.SymNd(arrays._to_obj(xs) if xs else np.empty(0, dtype=object), int).reshape(shape)
    else:
        vals = [ALPH[kind][c.choose([(k, True) for k in range(len(ALPH[kind]))], f"y[{i}]")] for i in range(n)]
        o = np.empty(n, dtype=object)
        for i, v in enumerate(vals):
            o[i] = v
        a = arrays.SymNd(o, dtype).reshape(shape)
    rec(c, "y", a)
    return a


def is_sentinel(v, sentinel):
    """z3/py condition: entry v equals the sentinel (NaN aware)"""
    if sentinel is None:
        return v is None
    if isinstance(sentinel, (float, np.floating)) and np.isnan(sentinel):
        if core.is_floatish(v):
            return boolexpr(core.s_isnan(v))
        return False
    if isinstance(sentinel, str):
        return isinstance(v, str) and v == sentinel
    if core.is_numeric(v):
        return boolexpr(s_eq(v, sentinel))
    return False


def eq_nanaware(a, b):
    if core.is_numeric(a) and core.is_numeric(b):
        e = boolexpr(s_eq(a, b))
        if core.is_floatish(a) and core.is_floatish(b):
            e = b_or(e, b_and(boolexpr(core.s_isnan(a)), boolexpr(core.s_isnan(b))))
        return e
    if a is None or b is None:
        return a is None and b is None
    return a == b


# ---------------------------------------------------------------- predicates
def sym_predicates(c, cfg, shape):
    u = _u()
    kind, dtype, sentinel = CONFIGS[cfg]
    y = gen_array(c, cfg, shape)
    n = int(np.prod(shape))
    flat = list(arrays.raw(y).reshape(-1))
    unl = u.is_unlabeled(y, missing_label=sentinel)
    lab = u.is_labeled(y, missing_label=sentinel)
    c.prove(tuple(unl.shape) == tuple(shape) and tuple(lab.shape) == tuple(shape), "shape")
    c.prove(np.dtype(unl.dtype) == np.dtype(bool) and np.dtype(lab.dtype) == np.dtype(bool), "dtype_bool")
    fu = list(arrays.raw(arrays.asnd(unl)).reshape(-1))
    fl = list(arrays.raw(arrays.asnd(lab)).reshape(-1))
    for i in range(n):
        c.prove(core.b_eq(boolexpr(fl[i]), b_not(boolexpr(fu[i]))), "labeled_is_complement")
        c.prove(core.b_eq(boolexpr(fu[i]), core.z3b(is_sentinel(flat[i], sentinel)) if not core._isc(is_sentinel(flat[i], sentinel)) else is_sentinel(flat[i], sentinel)),
                "unlabeled_iff_sentinel", info=dict(i=i))
    # index functions (fork over the mask): positions of sentinel entries, in order
    ui = u.unlabeled_indices(y, missing_label=sentinel)
    li = u.labeled_indices(y, missing_label=sentinel)
    uic = arrays.cidx(arrays.asnd(ui)) if len(ui) else np.zeros((0,) if len(shape) == 1 else (0, len(shape)), dtype=int)
    lic = arrays.cidx(arrays.asnd(li)) if len(li) else np.zeros((0,) if len(shape) == 1 else (0, len(shape)), dtype=int)
    if n:
        c.prove(uic.ndim == (1 if len(shape) == 1 else 2) and lic.ndim == uic.ndim, "indices_ndim")
    upos = [int(np.ravel_multi_index(tuple(np.atleast_1d(r)), shape)) for r in uic] if n else []
    lpos = [int(np.ravel_multi_index(tuple(np.atleast_1d(r)), shape)) for r in lic] if n else []
    c.prove(upos == sorted(upos) and lpos == sorted(lpos) and len(set(upos)) == len(upos), "indices_in_order")
    c.prove(sorted(upos + lpos) == list(range(n)), "indices_partition")
    for i in range(n):
        s = is_sentinel(flat[i], sentinel)
        c.prove(s if i in upos else b_not(s), "indices_match_sentinel", info=dict(i=i))
    c.witness(len(upos) == n and n > 0, "all_missing")
    c.witness(len(upos) == 0, "none_missing")


def _real_array(inputs, cfg, shape):
    kind, dtype, sentinel = CONFIGS[cfg]
    vals = inputs["y"]
    a = np.empty(int(np.prod(shape)), dtype=object)
    flat = np.array(vals, dtype=object).reshape(-1) if int(np.prod(shape)) else []
    for i, v in enumerate(flat):
        a[i] = v
    if dtype is object:
        return a.reshape(shape)
    return np.array(a.tolist(), dtype=dtype).reshape(shape)


def _is_sent_c(v, sentinel):
    if sentinel is None:
        return v is None
    if isinstance(sentinel, (float, np.floating)) and np.isnan(sentinel):
        return isinstance(v, (float, np.floating)) and np.isnan(v)
    if isinstance(sentinel, str):
        return isinstance(v, str) and v == sentinel
    try:
        return bool(v == sentinel)
    except Exception:
        return False


def replay_predicates(inputs, label, cfg, shape):
    u = _u()
    kind, dtype, sentinel = CONFIGS[cfg]
    y = _real_array(inputs, cfg, shape)
    n = y.size
    unl = u.is_unlabeled(y, missing_label=sentinel)
    lab = u.is_labeled(y, missing_label=sentinel)
    bad = set()
    if unl.shape != y.shape or lab.shape != y.shape:
        bad.add("shape")
    if unl.dtype != bool or lab.dtype != bool:
        bad.add("dtype_bool")
    exp = np.array([_is_sent_c(v, sentinel) for v in y.reshape(-1).tolist()], dtype=bool).reshape(y.shape)
    if "shape" not in bad:
        if not np.array_equal(lab, ~unl):
            bad.add("labeled_is_complement")
        if not np.array_equal(unl, exp):
            bad.add("unlabeled_iff_sentinel")
    ui = u.unlabeled_indices(y, missing_label=sentinel)
    li = u.labeled_indices(y, missing_label=sentinel)
    eu = np.argwhere(exp)
    el = np.argwhere(~exp)
    if y.ndim == 1:
        eu, el = eu[:, 0], el[:, 0]
    if n and (ui.ndim != eu.ndim or li.ndim != el.ndim):
        bad.add("indices_ndim")
    if not (np.array_equal(ui, eu) and np.array_equal(li, el)):
        bad |= {"indices_in_order", "indices_partition", "indices_match_sentinel"}
    if label in bad:
        return True, f"y={y.tolist()} ({y.dtype}) missing_label={sentinel!r}: is_unlabeled={unl.tolist()} unlabeled_indices={ui.tolist()} labeled_indices={li.tolist()}"
    return False, "not reproduced"


# ---------------------------------------------------------------- rejected combinations
def sym_rejected(c, idx):
    u = _u()
    kind, dtype, sentinel = REJECTED[idx]
    y = gen_array(c, (kind, dtype, None), (2,))
    for f in (u.is_unlabeled, u.is_labeled, u.unlabeled_indices, u.labeled_indices):
        try:
            f(y, missing_label=sentinel)
            c.prove(False, "incompatible_sentinel_rejected", info=dict(func=f.__name__))
        except TypeError:
            c.prove(True, "incompatible_sentinel_rejected")


def replay_rejected(inputs, label, idx):
    u = _u()
    kind, dtype, sentinel = REJECTED[idx]
    vals = inputs["y"]
    y = np.array(vals, dtype=dtype) if dtype is not object else np.array(vals, dtype=object)
    for f in (u.is_unlabeled, u.is_labeled, u.unlabeled_indices, u.labeled_indices):
        try:
            f(y, missing_label=sentinel)
            return True, f"{f.__name__}(y={y.tolist()} ({y.dtype}), missing_label={sentinel!r}) did not raise TypeError"
        except TypeError:
            pass
    return False, "rejected"


# ---------------------------------------------------------------- encoder
def sym_encoder(c, cfg, shape, with_classes):
    u = _u()
    kind, dtype, sentinel = CONFIGS[cfg]
    y = gen_array(c, cfg, shape)
    n = int(np.prod(shape))
    flat = list(arrays.raw(y).reshape(-1))
    if kind == "float":
        # class labels are finite numbers (inf is not a meaningful class)
        for v in flat:
            c.assume(b_not(v.inf()))
            if not (isinstance(sentinel, (float, np.floating)) and np.isnan(sentinel)):
                c.assume(b_not(v.nan))  # NaN is not a class label
    classes = None
    if with_classes:
        classes = {"float": [0.0, 1.0, 2.0], "int": [1, 2, 3], "str": ["a", "b"], "obj": ["a", "b"]}[kind]
        if kind in ("str",) and sentinel in classes:
            return
        for v in flat:
            s = is_sentinel(v, sentinel)
            inc = b_or(*[eq_nanaware(v, cv) for cv in classes])
            c.assume(b_or(s, inc))  # transform is only defined for known classes
    le = u.ExtLabelEncoder(classes=classes, missing_label=sentinel)
    try:
        le.fit(y)
    except (TypeError, ValueError) as e:
        # the only legitimate refusals: mixed str/None object arrays are not sortable
        c.prove(kind == "obj" and False, "fit_accepts_supported_input", info=dict(error=repr(e)))
        return
    cls = list(arrays.raw(arrays.asnd(le.classes_)))
    K = len(cls)
    # classes_: strictly increasing (sorted, distinct), none is the sentinel
    for a, b in zip(cls, cls[1:]):
        c.prove(core.s_lt(a, b) if core.is_numeric(a) else a < b, "classes_sorted_distinct")
    for cv in cls:
        c.prove(b_not(is_sentinel(cv, sentinel)), "classes_exclude_sentinel")
    if classes is None:
        for v in flat:
            s = is_sentinel(v, sentinel)
            c.prove(b_or(s, *[eq_nanaware(v, cv) for cv in cls]), "classes_cover_labels")
    enc = le.transform(y)
    c.prove(tuple(enc.shape) == tuple(shape), "transform_shape")
    ef = list(arrays.raw(arrays.asnd(enc)).reshape(-1))
    for i in range(n):
        s = is_sentinel(flat[i], sentinel)
        e = ef[i]
        ok_missing = b_and(s, boolexpr(s_eq(e, -1)))
        ok_lab = b_and(b_not(s), *[core.b_eq(boolexpr(s_eq(e, k)), core.z3b(eq_nanaware(flat[i], cls[k])) if not core._isc(eq_nanaware(flat[i], cls[k])) else eq_nanaware(flat[i], cls[k])) for k in range(K)],
                       boolexpr(core.s_le(0, e)), boolexpr(core.s_lt(e, K)) if K else False)
        c.prove(b_or(ok_missing, ok_lab), "transform_maps_to_class_index", info=dict(i=i))
    dec = le.inverse_transform(enc)
    c.prove(tuple(dec.shape) == tuple(shape), "inverse_shape")
    df = list(arrays.raw(arrays.asnd(dec)).reshape(-1))
    for i in range(n):
        c.prove(eq_nanaware(df[i], flat[i]), "round_trip", info=dict(i=i, got=repr(df[i])))
    c.witness(K == 0, "no_class")
    c.witness(K >= 2, "two_classes")


def replay_encoder(inputs, label, cfg, shape, with_classes):
    u = _u()
    kind, dtype, sentinel = CONFIGS[cfg]
    y = _real_array(inputs, cfg, shape)
    classes = None
    if with_classes:
        classes = {"float": [0.0, 1.0, 2.0], "int": [1, 2, 3], "str": ["a", "b"], "obj": ["a", "b"]}[kind]
    le = u.ExtLabelEncoder(classes=classes, missing_label=sentinel)
    try:
        le.fit(y)
    except (TypeError, ValueError) as e:
        return label == "fit_accepts_supported_input", f"fit(y={y.tolist()}) raised {e!r}"
    cls = le.classes_.tolist()
    exp_missing = np.array([_is_sent_c(v, sentinel) for v in y.reshape(-1).tolist()], dtype=bool)
    bad = set()
    if any(not a < b for a, b in zip(cls, cls[1:])):
        bad.add("classes_sorted_distinct")
    if any(_is_sent_c(cv, sentinel) for cv in cls):
        bad.add("classes_exclude_sentinel")
    enc = le.transform(y)
    if enc.shape != y.shape:
        bad.add("transform_shape")
    else:
        for v, e, m in zip(y.reshape(-1).tolist(), enc.reshape(-1).tolist(), exp_missing):
            if m:
                if e != -1:
                    bad.add("transform_maps_to_class_index")
            elif not (0 <= e < len(cls) and cls[e] == v):
                bad.add("transform_maps_to_class_index")
    dec = le.inverse_transform(enc)
    if dec.shape != y.shape:
        bad.add("inverse_shape")
    else:
        for v, d in zip(y.reshape(-1).tolist(), dec.reshape(-1).tolist()):
            same = (v is None and d is None) or (isinstance(v, float) and isinstance(d, float) and np.isnan(v) and np.isnan(d)) or v == d
            if not same:
                bad.add("round_trip")
    if label in bad:
        return True, (f"ExtLabelEncoder(classes={classes}, missing_label={sentinel!r}) y={y.tolist()} ({y.dtype}): classes_={cls} "
                      f"transform={enc.tolist()} inverse={dec.tolist()}")
    return False, "not reproduced"


# ----------------------------------------------------------------
def _cfg_pred(tier):
    out = []
    for cfg in CONFIGS:
        shapes = [(0,), (0, 2), (1,), (2,), (3,), (2, 2)] if tier == "quick" else [(0,), (0, 2), (1,), (2,), (3,), (4,), (2, 2), (1, 3), (2, 1)]
        for sh in shapes:
            out.append(dict(cfg=cfg, shape=sh))
    return out


def _cfg_enc(tier):
    out = []
    for cfg in CONFIGS:
        if cfg == "int_nan":
            continue  # int arrays cannot hold NaN: ExtLabelEncoder casts to float; covered by float_nan
        shapes = [(0,), (0, 2), (2,), (3,), (2, 2)] if tier == "thorough" else [(0,), (0, 2), (2,), (3,)]
        for sh in shapes:
            for wc in (False, True):
                if sh in ((0,), (0, 2)) and not wc:
                    continue
                out.append(dict(cfg=cfg, shape=sh, with_classes=wc))
    return out


UNITS = ["skactiveml.utils._label:is_unlabeled", "skactiveml.utils._label:is_labeled",
         "skactiveml.utils._label:unlabeled_indices", "skactiveml.utils._label:labeled_indices",
         "skactiveml.utils._label:check_missing_label", "skactiveml.utils._label_encoder:ExtLabelEncoder",
         "skactiveml.utils._validation:check_classifier_params"]

HARNESSES = [
    Harness("predicates", sym_predicates, replay_predicates, _cfg_pred, UNITS[:5], required_witnesses=("all_missing", "none_missing")),
    Harness("rejected_sentinels", sym_rejected, replay_rejected, lambda tier: [dict(idx=i) for i in range(len(REJECTED))], UNITS[:5]),
    Harness("encoder_round_trip", sym_encoder, replay_encoder, _cfg_enc, UNITS[5:] + UNITS[:2], required_witnesses=("two_classes",)),
]

BOUNDS = dict(quick="1-D arrays of 0..3 entries and 2x2 arrays; float entries fully symbolic (NaN, +-inf, any real), int entries "
                    "symbolic in [-2,3], str entries from {'a','b','nan',''}, object entries from {None,'a','b'}; 9 supported "
                    "(dtype, sentinel) configurations + 7 combinations that must be rejected",
              thorough="1-D up to 4 entries, 2-D 2x2 / 1x3 / 2x1; encoder also on 2x2",
              outside="longer arrays; strings outside the alphabet; classes=None with unsortable mixtures")
ASSUMPTIONS = [
    "sklearn LabelEncoder and check_array replaced by their documented contracts (symx/stubs.py)",
    "numpy dtype promotion / astype errors are taken from the real numpy applied to zero-filled arrays of the declared dtypes",
    "encoder: class labels are finite (no inf); with explicit classes, labeled entries are assumed to be among the classes",
]
