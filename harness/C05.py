"""C05 — pool query has no side effects on caller data, models or settings.
(1) PARAMFLOW: symbolic execution of every query() body (pool + multiannotator,
self-helpers inlined) over an abstract store; z3 finds the constructor
configuration that reaches a parameter write / alias mutation / fit of the
caller's model; the configuration is replayed on the real class.
(2) SYMX: the C01 harness runs with snapshots of the symbolic input arrays and
the stub model, and z3 proves on every path that they are unchanged."""
from __future__ import annotations

import copy
import inspect
import os
import time

import numpy as np

from harness import common
from harness import models
from harness import poollib as pl
from harness.common import Harness
from symx import arrays, core, facade

PID = "C05"

DICT_CANDIDATES = {"metric_dict": {"gamma": "mean"}, "integration_dict": {"method": "assume_linear"},
                   "integration_dict_target_val": {"method": "assume_linear"},
                   "integration_dict_cross_entropy": {"method": "gauss_hermite", "n_integration_samples": 3},
                   "cluster_algo_dict": {"n_init": 1}, "nearest_neighbors_dict": {"n_neighbors": 2}, "sample_predictions_dict": {},
                   "mds_params": {"max_iter": 100}, "nn_params": {"n_neighbors": 1}}
# second choice per dict-valued parameter (tried when the first one does not reproduce the event): defaults that a
# method fills in lazily only show when the caller's dict does not contain the key yet
DICT_CANDIDATES_ALT = {"metric_dict": {}, "cluster_algo_dict": {}, "nearest_neighbors_dict": {}, "mds_params": {}, "nn_params": {},
                       "integration_dict": {}, "integration_dict_target_val": {}, "integration_dict_cross_entropy": {}}


OTHER_CANDIDATES = [{"__ndarray__": [1.0, 0.4, 0.7, 0.2]}, {"__ndarray__": [[1.0], [0.4], [0.7], [0.2]]},
                    {"__ndarray__": [3, 1, 2], "dtype": "int64"}, [1.0, 0.4, 0.7, 0.2]]


SCALAR_CANDIDATES = [64, 3, 0.75, -1, 0]


def paramflow_pass(tier, known, modules=("skactiveml.pool", "skactiveml.pool.multiannotator"), method="query",
                   harness_name="paramflow_query"):
    import importlib
    from paramflow.interp import Interp
    from paramflow import replay as R
    t0 = time.time()
    reg = R.build_registry(common.REPO)
    res = dict(violations=[], unconfirmed=[], errors=[], inconclusive=[], samples=[], states=0, transitions=0,
               obligations=0, proved=0, unsat=0, sat=0, functions={}, validated=0,
               coverage=dict(classes=[], events_by_kind={}, refuted_by_replay=[], confirmed=[], not_in_registry=[]))
    cov = res["coverage"]
    for modname in modules:
        mod = importlib.import_module(modname)
        for name in getattr(mod, "__all__", []):
            K = getattr(mod, name, None)
            if not inspect.isclass(K) or not hasattr(K, method):
                continue
            it = Interp(K, method, max_paths=6000 if tier == "quick" else 20000).run()
            evs = it.feasible_events()
            res["states"] += it.paths
            res["transitions"] += it.queries
            res["sat"] += len(evs)
            cov["classes"].append(dict(cls=name, paths=it.paths, events=len(evs), truncated=it.truncated,
                                       functions=len(it.functions)))
            for tag, file, line in it.functions:
                res["functions"][tag] = dict(where=f"{os.path.relpath(file, common.REPO)}:{line}")
            if it.truncated:
                res["inconclusive"].append(f"paramflow {name}.{method}: path budget reached")
            # obligation per class: no feasible monitored event  (or: every feasible event refuted by replay)
            res["obligations"] += 1
            entry = reg.get(K)
            confirmed_here = 0
            for e in evs:
                cov["events_by_kind"][e["kind"]] = cov["events_by_kind"].get(e["kind"], 0) + 1
                if entry is None:
                    if name not in cov["not_in_registry"]:
                        cov["not_in_registry"].append(name)
                    continue
                # only parameters that the path condition talks about are taken from the model
                cfg = {p: v for p, v in e["config"].items() if "other" not in v and (p == e["what"] or v != {"v": None} or True)}
                rel = relevant_params(it, e)
                cfg = {p: v for p, v in cfg.items() if p in rel}
                try:
                    found = R.replay_query_side_effects(K, entry, cfg, dict_candidates=DICT_CANDIDATES,
                                                          args_config={a: v for a, v in e["args"].items() if "arg:" + a in rel})
                except Exception as ex:
                    found = [("error", repr(ex)[:100])]
                res["validated"] += 1
                wants = {"param_write": ("get_params_changed",), "alias_mutation": ("argument_mutated", "get_params_changed"),
                         "fits_caller_model": ("argument_mutated",)}.get(e["kind"], ())
                for tok in e["what"].replace(")", " ").replace(",", " ").split():
                    if tok.startswith("param:") and tok[6:] in DICT_CANDIDATES and cfg.get(tok[6:], {}).get("v", True) is not None:
                        cfg[tok[6:]] = {"dict": True}   # the aliased parameter is a caller-owned dict
                if any(v == {"dict": True} for v in cfg.values()):
                    found = R.replay_query_side_effects(K, entry, cfg, dict_candidates=DICT_CANDIDATES,
                                                        args_config={a: v for a, v in e["args"].items() if "arg:" + a in rel})
                if found and all(f[0] == "error" for f in found):
                    # the abstract value the solver picked for a call argument (e.g. None for a flag that must be a bool) is
                    # rejected by the validation: retry with the fixture's own arguments, then with True for those flags
                    for alt in ({}, {a: {"v": True} for a in e["args"] if "arg:" + a in rel}):
                        try:
                            f2 = R.replay_query_side_effects(K, entry, cfg, dict_candidates=DICT_CANDIDATES, args_config=alt)
                        except Exception:
                            continue
                        res["validated"] += 1
                        if f2 and not all(f[0] == "error" for f in f2):
                            found = f2
                            break
                hit = [f for f in found if f[0] in wants and (e["kind"] != "param_write" or e["what"] in f[1])]
                if not hit and any(v == {"dict": True} for v in cfg.values()):
                    alt = dict(DICT_CANDIDATES, **DICT_CANDIDATES_ALT)
                    for args_alt in ({a: v for a, v in e["args"].items() if "arg:" + a in rel}, {}):
                        try:
                            f2 = R.replay_query_side_effects(K, entry, cfg, dict_candidates=alt, args_config=args_alt)
                        except Exception:
                            continue
                        res["validated"] += 1
                        hit = [f for f in f2 if f[0] in wants]
                        if hit:
                            break
                if not hit and e["kind"] == "alias_mutation":
                    # the aliased parameter has an unspecified non-None value in the abstract configuration ("other"):
                    # search a concrete witness among generic array-likes (unsorted, so that in-place sorting / writes show)
                    for tok in e["what"].replace(")", " ").replace(",", " ").split():
                        pn = tok[6:] if tok.startswith("param:") else None
                        if not pn or not admits_other(it, e, pn):
                            continue
                        for cand in OTHER_CANDIDATES:
                            cfg2 = dict(cfg)
                            cfg2[pn] = {"v": cand}
                            try:
                                f2 = R.replay_query_side_effects(K, entry, cfg2, dict_candidates=DICT_CANDIDATES,
                                                                 args_config={a: v for a, v in e["args"].items() if "arg:" + a in rel})
                            except Exception:
                                continue
                            res["validated"] += 1
                            hit = [f for f in f2 if f[0] in wants]
                            if hit:
                                cfg = cfg2
                                break
                        if hit:
                            break
                if not hit and e["kind"] == "param_write" and admits_other(it, e, e["what"]):
                    # a write such as  self.p = min(self.p, n)  leaves get_params() unchanged for the fixture's value:
                    # search a witness among generic scalars (large / small / negative / fractional)
                    # ... and a degenerate call: a single candidate (the first sample the fixture leaves unlabeled)
                    one = {}
                    try:
                        y0 = np.asarray((entry["calls"] or [{}])[0].get("y"), dtype=float)
                        unl = np.flatnonzero(np.isnan(y0 if y0.ndim == 1 else y0.sum(axis=1)))
                        if len(unl):
                            one = {"candidates": {"v": [int(unl[0])]}}
                    except (TypeError, ValueError):
                        pass
                    for cand, args_alt in [(None, one)] + [(c_, {}) for c_ in SCALAR_CANDIDATES]:
                        cfg2 = dict(cfg)
                        if cand is not None:
                            cfg2[e["what"]] = {"v": cand}
                        elif not one:
                            continue
                        else:
                            cfg2.pop(e["what"], None)      # the fixture's own value of the parameter
                        try:
                            f2 = R.replay_query_side_effects(K, entry, cfg2, dict_candidates=DICT_CANDIDATES, args_config=args_alt)
                        except Exception:
                            continue
                        res["validated"] += 1
                        hit = [f for f in f2 if f[0] in wants and e["what"] in f[1]]
                        if hit:
                            cfg = cfg2
                            break
                desc = dict(cls=name, kind=e["kind"], what=e["what"], where=f"{e['where']}:{e['line']}", config=cfg)
                if hit:
                    confirmed_here += 1
                    cov["confirmed"].append(desc)
                    res["violations"].append(dict(
                        harness=harness_name, label=e["kind"], params=dict(cls=name, what=e["what"]),
                        inputs=dict(config=cfg, test_registry=entry["test"]), info=dict(where=desc["where"]),
                        detail=f"{name}({ {k: v.get('v', 'dict') for k, v in cfg.items()} }).{method}(...) [{desc['where']}]: {hit[0][1]}"))
                else:
                    cov["refuted_by_replay"].append(dict(desc, replay=[f[1][:80] for f in found][:2]))
            if confirmed_here == 0:
                res["proved"] += 1
            if len(res["samples"]) < 3 and evs:
                res["samples"].append(dict(paramflow_event=dict(cls=name, **{k: evs[0][k] for k in ("kind", "what", "where", "line")},
                                                                 config={k: v for k, v in evs[0]["config"].items() if "other" not in v})))
    cov["seconds"] = round(time.time() - t0, 2)
    return res


def admits_other(it, e, pn):
    """does some path reaching the event allow an unspecified non-None value for constructor parameter pn?"""
    import z3
    from paramflow.interp import OTHER
    if "other" in e["config"].get(pn, {}):
        return True
    for ev in it.events.get((e["kind"], e["what"], e["where"], e["line"]), [])[:20]:
        sol = z3.Solver()
        sol.set("timeout", 2000)
        sol.add(*ev.pc)
        sol.add(z3.Int("cfg_" + pn) == OTHER)
        if str(sol.check()) == "sat":
            return True
    return False


def relevant_params(it, e):
    """constructor parameters mentioned by the path conditions of the event"""
    import z3
    names = set()
    for ev in it.events.get((e["kind"], e["what"], e["where"], e["line"]), [])[:5]:
        for c in ev.pc:
            stack = [c]
            seen = set()
            while stack:
                x = stack.pop()
                if x.get_id() in seen:
                    continue
                seen.add(x.get_id())
                if z3.is_const(x) and x.decl().kind() == z3.Z3_OP_UNINTERPRETED:
                    n = x.decl().name()
                    if n.startswith("cfg_"):
                        names.add(n[4:])
                    if n.startswith("arg_"):
                        names.add("arg:" + n[4:])
                stack.extend(x.children())
    if e["kind"] == "param_write":
        names.add(e["what"])
    return names


def replay_paramflow(inputs, label, cls, what):
    import importlib
    from paramflow import replay as R
    reg = R.build_registry(common.REPO)
    for modname in ("skactiveml.pool", "skactiveml.pool.multiannotator", "skactiveml.stream", "skactiveml.stream.budgetmanager",
                    "skactiveml.classifier", "skactiveml.classifier.multiannotator", "skactiveml.regressor"):
        K = getattr(importlib.import_module(modname), cls, None)
        if K is not None:
            break
    found = R.replay_query_side_effects(K, reg[K], inputs.get("config"), dict_candidates=DICT_CANDIDATES)
    want = {"param_write": "get_params_changed"}.get(label, "argument_mutated")
    hit = [f for f in found if f[0] == want]
    return bool(hit), (hit[0][1] if hit else "not reproduced")


# ---------------------------------------------------------------- SYMX snapshots
def _same(a, b):
    ra, rb = arrays.raw(arrays.asnd(a)), arrays.raw(arrays.asnd(b))
    if ra.shape != rb.shape:
        return False
    conds = []
    for x, y in zip(ra.reshape(-1), rb.reshape(-1)):
        if x is y:
            continue
        e = core.boolexpr(core.s_eq(x, y))
        if core.is_floatish(x) and core.is_floatish(y):
            e = core.b_or(e, core.b_and(core.boolexpr(core.s_isnan(x)), core.boolexpr(core.s_isnan(y))))
        conds.append(e)
    return core.b_and(*conds)


def sym_snap(c, strat, n, mode, b, rs="int"):
    a = pl.ADAPTERS[strat]
    s = pl.gen_scenario(c, n, mode, b, independent=a.independent, min_unlabeled=a.min_unlabeled)
    X0, y0 = s.X.copy(), s.y.copy()
    c0 = s.cand.copy() if isinstance(s.cand, arrays.SymNd) else (list(s.cand) if s.cand is not None else None)
    # rs="instance": the caller's generator object is a constructor parameter like any other - query must not draw from it
    inst = facade.SymRandomState(s.seed) if rs == "instance" else None
    inst0 = copy.deepcopy(inst)
    qs = a.make(inst if inst is not None else s.seed, sym=True)
    p0 = {k: v for k, v in qs.get_params(deep=False).items()}
    holder = {}
    del models.CREATED[:]
    try:
        a.call(qs, s, b, True)
    except (core.Unencodable, core.PathAbort):
        raise
    except Exception:
        return
    holder["models"] = list(models.CREATED)    # classifiers / committee members the harness handed to query()
    c.prove(_same(s.X, X0), "X_unchanged")
    c.prove(_same(s.y, y0), "y_unchanged")
    if isinstance(s.cand, arrays.SymNd):
        c.prove(_same(s.cand, c0), "candidates_unchanged")
    elif s.cand is not None:
        c.prove(list(s.cand) == c0, "candidates_unchanged")
    for m in holder.get("models", []):
        c.prove(not hasattr(m, "fit_log_"), "caller_model_not_fitted")
    p1 = qs.get_params(deep=False)
    c.prove(all(p1[k] is p0[k] or p1[k] == p0[k] for k in p0), "get_params_unchanged",
            info=dict(changed=[k for k in p0 if not (p1[k] is p0[k])]))
    if inst is not None:
        c.prove(inst.same_state(inst0), "random_state_parameter_not_consumed")
    c.witness(True, "ran")


def replay_snap(inputs, label, strat, n, mode, b, rs="int"):
    a = pl.ADAPTERS[strat]
    s = pl.real_scenario(inputs, n, mode)
    X0, y0 = s.X.copy(), s.y.copy()
    c0 = s.cand.copy() if isinstance(s.cand, np.ndarray) else (list(s.cand) if s.cand is not None else None)
    for seed in [s.seed, 0, 1]:
        inst = np.random.RandomState(seed) if rs == "instance" else None
        st0 = inst.get_state() if inst is not None else None
        qs = a.make(inst if inst is not None else seed, sym=False, inputs=inputs)
        p0 = dict(qs.get_params(deep=False))
        del models.CREATED[:]
        a.call(qs, s, b, False, table=inputs.get("__clf__"))
        bad = set()
        if any(getattr(m, "fit_count_", 0) for m in models.CREATED):
            bad.add("caller_model_not_fitted")
        if not np.array_equal(s.X, X0, equal_nan=True):
            bad.add("X_unchanged")
        if not np.array_equal(s.y, y0, equal_nan=True):
            bad.add("y_unchanged")
        if isinstance(c0, np.ndarray) and not np.array_equal(s.cand, c0, equal_nan=True) or isinstance(c0, list) and list(s.cand) != c0:
            bad.add("candidates_unchanged")
        p1 = qs.get_params(deep=False)
        if any(not (p1[k] is p0[k] or p1[k] == p0[k]) for k in p0):
            bad.add("get_params_unchanged")
        if inst is not None:
            st1 = inst.get_state()
            if not (np.array_equal(st0[1], st1[1]) and st0[2:] == st1[2:]):
                bad.add("random_state_parameter_not_consumed")
        if label in bad:
            return True, f"{strat}.query modified its inputs/parameters: {label}"
    return False, "not reproduced"


def _cfg_for(name):
    def cfg(tier):
        a = pl.ADAPTERS[name]
        out = []
        for mode in ("none", "idx", "rows"):
            if mode == "rows" and not a.supports_rows:
                continue
            if getattr(a, "slow", False) and mode == "rows":
                continue
            out.append(dict(strat=name, n=getattr(a, "n", None) or 3, mode=mode, b=2))
        out.append(dict(strat=name, n=getattr(a, "n", None) or 3, mode="none", b=2, rs="instance"))
        return out
    return cfg


# ---------------------------------------------------------------- SingleAnnotatorWrapper: generator handed as random_state
def sym_saw_rs(c, cmode, amode):
    """a RandomState instance handed to the multi-annotator wrapper is a constructor parameter: query must not draw from it"""
    from harness import C07
    P = __import__("skactiveml.pool.multiannotator", fromlist=["SingleAnnotatorWrapper"])
    s = C07.gen(c, 2, 2, cmode, amode)
    if not s.avail:
        raise core.PathAbort("no available pair")
    inst = facade.SymRandomState(s.seed)
    inst0 = copy.deepcopy(inst)
    inner = pl.pool().RandomSampling(random_state=s.seed)
    w = P.SingleAnnotatorWrapper(strategy=inner, random_state=inst)
    C07._alarm(2)
    try:
        w.query(s.X, s.y, candidates=s.cand, annotators=s.annot, batch_size=2)
    except C07.Timeout:
        raise core.PathAbort("query does not terminate (C07)")
    finally:
        C07._alarm_off()
    c.prove(inst.same_state(inst0), "random_state_parameter_not_consumed")
    c.witness(True, "ran")


def replay_saw_rs(inputs, label, cmode, amode):
    from harness import C07
    P = __import__("skactiveml.pool.multiannotator", fromlist=["SingleAnnotatorWrapper"])
    s = C07.real_gen(inputs, 2, 2, cmode, amode)
    for seed in (s.seed, 0, 1):
        inst = np.random.RandomState(seed)
        st0 = inst.get_state()
        w = P.SingleAnnotatorWrapper(strategy=pl.pool().RandomSampling(random_state=seed), random_state=inst)
        C07._alarm(5)
        try:
            w.query(s.X, s.y, candidates=s.cand, annotators=s.annot, batch_size=2)
        except C07.Timeout:
            continue
        finally:
            C07._alarm_off()
        st1 = inst.get_state()
        if not (np.array_equal(st0[1], st1[1]) and st0[2:] == st1[2:]):
            return True, (f"SingleAnnotatorWrapper(RandomSampling, random_state=RandomState({seed})).query(...) advanced the generator it was "
                          f"handed (position {st0[2]} -> {st1[2]})")
    return False, "not reproduced"


HARNESSES = [Harness("single_annotator_wrapper_random_state", sym_saw_rs, replay_saw_rs,
                     lambda tier: [dict(cmode=cm, amode=am) for cm, am in (("none", "none"), ("idx", "idx"))],
                     ["skactiveml.pool.multiannotator._wrapper:SingleAnnotatorWrapper.query",
                      "skactiveml.pool.multiannotator._wrapper:SingleAnnotatorWrapper._query_annotators"], required_witnesses=("ran",))] + \
            [Harness(f"snapshot[{name}]", sym_snap, replay_snap, _cfg_for(name), pl.BASE_UNITS + a.units,
                     product_abstraction=a.product_abstraction, required_witnesses=("ran",))
             for name, a in pl.ADAPTERS.items()] + [
    Harness("paramflow_query", lambda c: None, replay_paramflow, lambda tier: [], [])]

BOUNDS = dict(quick="PARAMFLOW: every path of every query() body of the classes exported by skactiveml.pool and "
                    "skactiveml.pool.multiannotator (calls on self inlined to depth 3, <= 4000 paths per method), all constructor "
                    "configurations of the abstract domain {None, True, False, literals compared in the code, dict, other}; "
                    "SYMX snapshots: n = 3, batch 2, 3 candidate modes for the 29 adapter strategies",
              thorough="PARAMFLOW path budget 20000 per method",
              outside="effects inside third-party estimators; setattr/__dict__ tricks; callee classes outside skactiveml; "
                      "aliasing through containers; value-dependent in-place writes in strategies without a SYMX adapter")
ASSUMPTIONS = [
    "PARAMFLOW abstract domain: references {PARAM, ARG, FRESH}; clone/deepcopy/copy/np.array create fresh references, "
    "check_array/asarray/attribute loads/subscripts may alias; unknown branch conditions are free Booleans",
    "an event is reported only if the solver's configuration reproduces a difference on the real class "
    "(get_params(deep=True), digests of all call arguments) using the repository's own test fixtures as data",
    "SYMX snapshots: sklearn.check_array stub returns the same object when no conversion is needed (np.asarray semantics)",
]


def main(tier, seed, only):
    return common.run_property(PID, "harness.C05", tier, seed, "", ASSUMPTIONS, BOUNDS, only=only,
                               extra=None if only and "paramflow_query" not in only else paramflow_pass)


# ---------------------------------------------------------------- query with a REAL classifier and sample weights
def sc_real_clf(d, strat, n, weights_dtype):
    """UncertaintySampling / QueryByCommittee fit real ParzenWindowClassifier / MixtureModelClassifier clones inside
    query: X, y and the caller's sample_weight array are unchanged afterwards (the helpers underneath fit -
    compute_vote_vectors, _validate_data - work on copies), and the caller's classifier is not fitted"""
    from skactiveml.classifier import ParzenWindowClassifier
    P = pl.pool()
    idx = [d.choose(f"label{i}", [-1, 0, 1]) for i in range(n)]
    if all(k >= 0 for k in idx):
        if d.sym:
            raise core.PathAbort("no candidate")
        return
    xs = [d.fl(f"x{i}", lo=-2.0, hi=2.0) for i in range(n)]
    ws = [d.fl(f"w{i}", lo=0.0, hi=4.0) for i in range(n)]
    X = d.arr([[x] for x in xs], shape=(n, 1))
    y = d.arr([float("nan") if k < 0 else float(k) for k in idx])
    sw = d.arr(ws)
    X0, y0, w0 = X.copy(), y.copy(), sw.copy()
    seed = d.integer("seed", 0, 2 ** 31 - 2)
    clf = ParzenWindowClassifier(classes=[0.0, 1.0], metric="rbf", metric_dict={"gamma": 0.5}, random_state=seed)
    try:
        if strat == "UncertaintySampling":
            P.UncertaintySampling(method="least_confident", random_state=seed).query(X, y, clf, fit_clf=True, sample_weight=sw, batch_size=1)
        else:
            ens = [clf, ParzenWindowClassifier(classes=[0.0, 1.0], metric="rbf", metric_dict={"gamma": 1.0}, random_state=seed)]
            P.QueryByCommittee(random_state=seed).query(X, y, ens, fit_ensemble=True, sample_weight=sw, batch_size=1)
    except (core.Unencodable, core.PathAbort):
        raise
    except Exception as e:
        d.prove(False, "query_succeeds", info=dict(error=repr(e)[:160]))
        return
    d.prove(d.eq_arr(X, X0), "X_unchanged")
    d.prove(d.eq_arr(y, y0), "y_unchanged")
    d.prove(d.eq_arr(sw, w0), "sample_weight_unchanged")
    d.prove(not hasattr(clf, "X_") and not hasattr(clf, "classes_"), "caller_model_not_fitted")
    d.witness(any(k >= 0 for k in idx), "some_labeled")


HARNESSES.append(common.dual_harness(
    "query_with_real_classifier", sc_real_clf,
    lambda tier: [dict(strat=s, n=n, weights_dtype="float") for s in ("UncertaintySampling", "QueryByCommittee")
                  for n in ((2,) if tier == "quick" else (2, 3))],
    ["skactiveml.pool._uncertainty_sampling:UncertaintySampling.query", "skactiveml.pool._query_by_committee:QueryByCommittee.query",
     "skactiveml.classifier._parzen_window_classifier:ParzenWindowClassifier.fit", "skactiveml.utils._aggregation:compute_vote_vectors",
     "skactiveml.base:SkactivemlClassifier._validate_data"],
    required_witnesses=("some_labeled",), product_abstraction=False, timeout_ms=30000))


# ---------------------------------------------------------------- Quire on a caller-owned precomputed kernel matrix
def sc_quire_inputs(d, n):
    """Quire(metric='precomputed'): X is the caller's kernel matrix - query must leave it (and y) unchanged, and a second
    identical query returns the same utilities"""
    from harness import C08
    if d.sym:
        d.c.assume_nonzero_div = True     # K + lambda*I is positive definite
    lab, X, yv, y = C08._data(d, "Quire", n)
    unl = [i for i in range(n) if not lab[i]]
    if not unl or len(unl) == n:
        if d.sym:
            raise core.PathAbort("needs labeled and unlabeled samples")
        return
    X0, y0 = X.copy(), y.copy()
    seed = d.integer("seed", 0, 2 ** 31 - 2)
    try:
        o1 = C08._call(d, "Quire", seed, X, y, None)
        o2 = C08._call(d, "Quire", seed, X, y, None)
    except (core.Unencodable, core.PathAbort):
        raise
    except Exception as e:
        d.prove(False, "query_succeeds", info=dict(error=repr(e)[:160]))
        return
    d.prove(d.eq_arr(X, X0), "X_unchanged")
    d.prove(d.eq_arr(y, y0), "y_unchanged")
    d.prove(d.eq_arr(o1[1], o2[1], 1e-9), "second_identical_query_same_utilities")
    d.witness(True, "ran")


HARNESSES.append(common.dual_harness(
    "quire_precomputed_inputs", sc_quire_inputs, lambda tier: [dict(n=3)],
    ["skactiveml.pool._quire:Quire.query"], required_witnesses=("ran",), product_abstraction=True, timeout_ms=30000))
