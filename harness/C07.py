"""C07 — multi-annotator query returns distinct, available sample-annotator pairs.
SingleAnnotatorWrapper (around the real UncertaintySampling with a pre-fitted
stub classifier) and IntervalEstimationThreshold, all candidates x annotators
forms, label-missing patterns and availability matrices forked exhaustively,
inner utilities / A_perf / draws symbolic."""
from __future__ import annotations

import signal

import numpy as np
import z3

from harness import models
from harness import poollib as pl
from harness.common import Harness, rec
from symx import arrays, core, facade
from symx.core import b_and, b_not, b_or, boolexpr, fresh_float, fresh_int, s_eq, s_le

PID = "C07"
F = facade.FACADE
NAN = float("nan")


class Timeout(Exception):
    pass


def _alarm(sec):
    """per-path bound in CPU time of this process (independent of machine load); the timer keeps firing every 0.5 s
    after the first expiry, because an exception raised while a z3 callback is on the stack is swallowed there"""
    def h(signum, frame):
        raise Timeout()
    signal.signal(signal.SIGVTALRM, h)
    signal.setitimer(signal.ITIMER_VIRTUAL, sec, 0.5)


def _alarm_off():
    signal.setitimer(signal.ITIMER_VIRTUAL, 0)


def gen(c, n, A, cmode, amode):
    """returns dict with X, y (n,A), candidates, annotators, available set of pairs, ncols"""
    s = pl.Scenario()
    xs = [fresh_float(f"x{i}") for i in range(n)]
    s.X = arrays.SymNd(arrays._to_obj(xs), float).reshape(n, 1)
    rec(c, "X", s.X)
    lab = np.zeros((n, A), dtype=int)
    if cmode == "none" and amode == "none":
        for i in range(n):
            for a in range(A):
                lab[i, a] = c.choose([(0, True), (1, True)], f"labeled[{i},{a}]")
    else:
        # availability is given explicitly; the labels only feed the aggregated y of the inner strategy:
        # three representative patterns
        pat = c.choose([(0, True), (2, True)] if amode.startswith("matrix") else [(0, True), (1, True), (2, True)], "label_pattern")
        if pat == 1:
            lab[0, 0] = 1
        elif pat == 2:
            lab[:, :] = 1
            lab[n - 1, A - 1] = 0
    rec(c, "labeled", lab.tolist())
    s.lab = lab
    s.y = arrays.SymNd(np.where(lab == 1, (np.arange(n)[:, None] + np.arange(A)[None, :]) % 2, np.nan).astype(float))
    s.n, s.A = n, A
    # candidates
    if cmode == "none":
        s.cand, rows, s.ncols = None, list(range(n)), n
    elif cmode == "idx":
        sub = [i for i in range(n) if c.choose([(1, True), (0, True)], f"cand[{i}]")]
        if not sub:
            raise core.PathAbort("no candidate")
        s.cand, rows, s.ncols = list(reversed(sub)), sorted(sub), n
        rec(c, "cand", s.cand)
    else:
        m = 2
        rs = [fresh_float(f"r{i}") for i in range(m)]
        s.cand = arrays.SymNd(arrays._to_obj(rs), float).reshape(m, 1)
        rec(c, "cand_rows", s.cand)
        rows, s.ncols = list(range(m)), m
    # annotators
    nrows_for_matrix = s.ncols if cmode == "rows" else (n if cmode == "none" else len(rows))
    if amode == "none":
        s.annot = None
        if cmode == "none":
            avail = {(i, a) for i in range(n) for a in range(A) if not lab[i, a]}
        else:
            avail = {(i, a) for i in rows for a in range(A)}
    elif amode in ("idx", "idx_all"):
        # ("idx_all": the index list names every annotator - one path instead of all subsets)
        sub = list(range(A)) if amode == "idx_all" else [a for a in range(A) if c.choose([(1, True), (0, True)], f"annot[{a}]")]
        if not sub:
            raise core.PathAbort("no annotator")
        s.annot = list(reversed(sub))
        rec(c, "annot", s.annot)
        avail = {(i, a) for i in rows for a in sub}
    else:
        M = np.zeros((nrows_for_matrix, A), dtype=bool)
        for i in range(nrows_for_matrix):
            for a in range(A):
                M[i, a] = bool(c.choose([(1, True), (0, True)], f"avail[{i},{a}]"))
        # "matrix01": the same availability given as a 0/1 integer matrix (documented as array-like of booleans; the
        # library converts it)
        s.annot = arrays.SymNd(M.astype(int) if amode == "matrix01" else M)
        rec(c, "avail", M.tolist())
        if cmode == "idx":
            # row i of the matrix belongs to the i-th candidate index AS GIVEN (the candidates are handed over unsorted)
            avail = {(s.cand[i], a) for i in range(len(s.cand)) for a in range(A) if M[i, a]}
        else:
            avail = {(i, a) for i in range(nrows_for_matrix) for a in range(A) if M[i, a]}
    s.avail = avail
    s.rows = rows
    s.seed = fresh_int("seed", 0, 2 ** 31 - 2)
    rec(c, "seed", s.seed)
    return s


def real_gen(inputs, n, A, cmode, amode):
    s = pl.Scenario()
    s.X = np.array(inputs["X"], dtype=float).reshape(n, 1)
    lab = np.array(inputs["labeled"], dtype=int).reshape(n, A)
    s.lab = lab
    s.y = np.where(lab == 1, (np.arange(n)[:, None] + np.arange(A)[None, :]) % 2, np.nan).astype(float)
    s.n, s.A = n, A
    if cmode == "none":
        s.cand, rows, s.ncols = None, list(range(n)), n
    elif cmode == "idx":
        s.cand = [int(i) for i in inputs["cand"]]
        rows, s.ncols = sorted(set(s.cand)), n
    else:
        s.cand = np.array(inputs["cand_rows"], dtype=float).reshape(-1, 1)
        rows, s.ncols = list(range(len(s.cand))), len(s.cand)
    if amode == "none":
        s.annot = None
        avail = {(i, a) for i in range(n) for a in range(A) if not lab[i, a]} if cmode == "none" else \
            {(i, a) for i in rows for a in range(A)}
    elif amode in ("idx", "idx_all"):
        s.annot = [int(a) for a in inputs["annot"]]
        avail = {(i, a) for i in rows for a in set(s.annot)}
    else:
        M = np.array(inputs["avail"], dtype=bool)
        s.annot = M.astype(int) if amode == "matrix01" else M
        if cmode == "idx":
            avail = {(s.cand[i], a) for i in range(len(s.cand)) for a in range(A) if M[i, a]}
        else:
            avail = {(i, a) for i in range(M.shape[0]) for a in range(A) if M[i, a]}
    s.avail, s.rows = avail, rows
    s.seed = int(inputs.get("seed", 0))
    return s


def check_pairs(env, out, s, b, label_prefix=""):
    ok = isinstance(out, tuple) and len(out) == 2
    env.prove(ok, "returns_pair_with_utilities")
    if not ok:
        return None
    idx, ut = out
    k_exp = min(b, len(s.avail))
    okarr = isinstance(idx, np.ndarray) and idx.ndim == 2 and idx.shape[1] == 2
    env.prove(okarr, "indices_shape_k_by_2", info=dict(shape=tuple(np.shape(idx))))
    if not okarr:
        return None
    env.prove(np.dtype(idx.dtype).kind in "iu", "indices_integer_dtype")
    pairs = [(int(r[0]), int(r[1])) for r in idx]
    env.prove(len(pairs) == k_exp, "batch_length_clipped_to_available_pairs", info=dict(got=pairs, expected=k_exp, available=sorted(s.avail)))
    env.prove(len(set(pairs)) == len(pairs), "pairs_distinct", info=dict(got=pairs))
    env.prove(all(p in s.avail for p in pairs), "pairs_available", info=dict(got=pairs, available=sorted(s.avail)))
    shp = tuple(np.shape(ut))
    env.prove(shp == (len(pairs), s.ncols, s.A), "utilities_shape", info=dict(shape=shp, expected=(len(pairs), s.ncols, s.A)))
    if shp == (len(pairs), s.ncols, s.A):
        ru = arrays.raw(arrays.asnd(ut)) if env.sym else np.asarray(ut, dtype=float)
        for t in range(len(pairs)):
            for i in range(s.ncols):
                for a in range(s.A):
                    v = ru[t, i, a]
                    vn = pl.is_nan_z(v) if env.sym else bool(np.isnan(v))
                    if (i, a) not in s.avail or (i, a) in pairs[:t]:
                        env.prove(vn, "utilities_nan_at_unavailable_or_selected", info=dict(step=t, pair=[i, a]))
            if pairs[t][0] < s.ncols and pairs[t][1] < s.A:
                v = ru[t, pairs[t][0], pairs[t][1]]
                env.prove(b_not(pl.is_nan_z(v)) if env.sym else bool(not np.isnan(v)), "pick_is_a_number", info=dict(step=t))
    return pairs


# ---------------------------------------------------------------- SingleAnnotatorWrapper
def _saw(env, s, b, napp, perf, table=None, timeout=2, enc="float", inner_kind="us"):
    P = __import__("skactiveml.pool.multiannotator", fromlist=["SingleAnnotatorWrapper"])
    clf = models.StubClassifier(classes=[0, 1], n_classes=2, gen=7) if env.sym else \
        models.real_table_classifier([(row, p) for _, row, p in (table or [])], n_classes=2)
    clf.classes_ = np.arange(2)
    y, missing = _encode_y(env, s, enc)
    clf.missing_label = missing
    if inner_kind == "random":
        inner = pl.pool().RandomSampling(random_state=s.seed, missing_label=missing)      # no classifier arguments
        qkw = {}
    else:
        inner = pl.pool().UncertaintySampling(method="least_confident", random_state=s.seed, missing_label=missing)
        qkw = dict(clf=clf, fit_clf=False)
    # the wrapped strategy's own answer is recorded: the wrapper must take the samples in that order (C20)
    ranking = []
    _inner_query = inner.query

    def _recording_query(*a, **k):
        r = _inner_query(*a, **k)
        ranking.append([int(i) for i in (r[0] if isinstance(r, tuple) else r)])
        return r
    inner.query = _recording_query
    w = P.SingleAnnotatorWrapper(strategy=inner, random_state=s.seed, missing_label=missing)
    A_perf = None
    if perf == "vector":
        if env.sym:
            A_perf = arrays.SymNd(arrays._to_obj([fresh_float(f"perf{a}") for a in range(s.A)]), float)
            rec(env.c, "A_perf", A_perf)
        else:
            A_perf = np.array(s.A_perf, dtype=float)
    _alarm(timeout)
    try:
        out = w.query(s.X, y, candidates=s.cand, annotators=s.annot, batch_size=b, n_annotators_per_sample=napp,
                      A_perf=A_perf, return_utilities=True, **qkw)
    except Timeout:
        env.prove(False, "query_terminates", info=dict(timeout_s=timeout))
        return
    except (core.Unencodable, core.PathAbort):
        raise
    except Exception as e:
        env.prove(False, "query_succeeds", info=dict(error=repr(e)[:200]))
        return
    finally:
        _alarm_off()
    pairs = check_pairs(env, out, s, b)
    if pairs is None:
        return
    # samples are taken in the order the wrapped strategy ranks them (C20) and the requested number of
    # annotators per sample is respected when enough annotators are available
    order = []
    for p in pairs:
        if p[0] not in order:
            order.append(p[0])
    if len(ranking) == 1:
        # (a sample the wrapped strategy ranks but for which no annotator is available cannot be taken: skipped)
        has_annotator = {j for (j, a) in s.avail}
        ranked = [i for i in ranking[0] if i in has_annotator]
        env.prove(order == ranked[:len(order)], "samples_in_the_order_of_the_wrapped_strategy",
                  info=dict(pairs=pairs, wrapped_strategy_ranking=ranking[0]))
    per = {i: sum(1 for p in pairs if p[0] == i) for i in order}
    navail = {i: sum(1 for (j, a) in s.avail if j == i) for i in order}
    # an array-like request gives the number for the k-th selected sample; its last entry is used for all further samples
    def req(k):
        if isinstance(napp, (list, tuple)):
            return napp[k] if k < len(napp) else napp[-1]
        return napp
    # (when the batch is larger than what the requested numbers can supply over all candidate samples, the wrapper has
    #  to assign more annotators than requested to fill it: the request is a preference, the batch size is not)
    n_cand_samples = len({j for (j, a) in s.avail})
    enough = sum(req(k) for k in range(n_cand_samples)) >= len(pairs)
    if enough and all(navail[i] >= req(k) for k, i in enumerate(order)):
        # (the last sample of the batch may be cut short by the batch size - but never gets more than requested)
        env.prove(all(per[i] == req(k) for k, i in enumerate(order[:-1])) and per[order[-1]] <= req(len(order) - 1),
                  "annotators_per_sample_respected", info=dict(pairs=pairs, requested=napp))
    return pairs


def sym_saw(c, n, A, cmode, amode, b, napp, perf, enc="float", inner="us"):
    s = gen(c, n, A, cmode, amode)
    if not s.avail:
        raise core.PathAbort("no available pair")
    _saw(pl.Env(c), s, b, napp, perf, enc=enc, inner_kind=inner)
    c.witness(True, "ran")


def replay_saw(inputs, label, n, A, cmode, amode, b, napp, perf, enc="float", inner="us"):
    s = real_gen(inputs, n, A, cmode, amode)
    s.A_perf = inputs.get("A_perf")
    for seed in [s.seed] + ([] if inputs.get("__scripted__") else list(range(12))):
        s.seed = seed
        env = pl.Env()
        _saw(env, s, b, napp, perf, table=inputs.get("__clf__"), timeout=5, enc=enc, inner_kind=inner)
        label = pl.reproduced(env, label) or label
        if label in env.violated:
            return True, (f"SingleAnnotatorWrapper(UncertaintySampling, random_state={seed}, labels={enc}).query(X={s.X.ravel().tolist()}, "
                          f"y labeled mask={s.lab.tolist()}, candidates={s.cand if cmode != 'rows' else 'rows'}, annotators="
                          f"{s.annot if not amode.startswith('matrix') else np.asarray(s.annot).tolist()}, batch_size={b}, "
                          f"n_annotators_per_sample={napp}): {label} {env.violated[label]}")
    return False, "not reproduced"


def _encode_y(env, s, enc):
    """label matrix under another encoding: integer labels with the sentinel -1"""
    if enc == "float":
        return s.y, NAN
    vals = np.where(s.lab == 1, (np.arange(s.n)[:, None] + np.arange(s.A)[None, :]) % 2, -1).astype(int)
    return (arrays.SymNd(vals) if env.sym else vals), -1


# ---------------------------------------------------------------- IntervalEstimationThreshold
def _iet(env, s, b, table=None, enc="float"):
    P = __import__("skactiveml.pool.multiannotator", fromlist=["IntervalEstimationThreshold"])
    clf = models.StubClassifier(classes=[0, 1], n_classes=2, gen=7) if env.sym else \
        models.real_table_classifier([(row, p) for _, row, p in (table or [])], n_classes=2)
    clf.classes_ = np.arange(2)
    y, missing = _encode_y(env, s, enc)
    clf.missing_label = missing
    qs = P.IntervalEstimationThreshold(random_state=s.seed, missing_label=missing)
    try:
        out = qs.query(s.X, y, clf, fit_clf=False, candidates=s.cand, annotators=s.annot, batch_size=b,
                       return_utilities=True)
    except (core.Unencodable, core.PathAbort):
        raise
    except Exception as e:
        env.prove(False, "query_succeeds", info=dict(error=repr(e)[:200]))
        return
    check_pairs(env, out, s, b)


def sym_iet(c, n, A, cmode, amode, b, enc="float"):
    s = gen(c, n, A, cmode, amode)
    if not s.avail:
        raise core.PathAbort("no available pair")
    _iet(pl.Env(c), s, b, enc=enc)
    c.witness(True, "ran")


def replay_iet(inputs, label, n, A, cmode, amode, b, enc="float"):
    s = real_gen(inputs, n, A, cmode, amode)
    for seed in [s.seed] + list(range(8)):
        s.seed = seed
        env = pl.Env()
        _iet(env, s, b, table=inputs.get("__clf__"), enc=enc)
        label = pl.reproduced(env, label) or label
        if label in env.violated:
            return True, (f"IntervalEstimationThreshold(random_state={seed}, labels={enc}).query(X={s.X.ravel().tolist()}, y labeled mask="
                          f"{s.lab.tolist()}, candidates={s.cand if cmode != 'rows' else 'rows'}, annotators="
                          f"{s.annot if not amode.startswith('matrix') else np.asarray(s.annot).tolist()}, batch_size={b}): {label} {env.violated[label]}")
    return False, "not reproduced"


def validate_saw(inputs, n, A, cmode, amode, b, napp, perf, enc="float", inner="us"):
    s = real_gen(inputs, n, A, cmode, amode)
    s.A_perf = inputs.get("A_perf")
    env = pl.Env()
    _saw(env, s, b, napp, perf, table=inputs.get("__clf__"), timeout=5, enc=enc, inner_kind=inner)
    return sorted(env.violated)


def validate_iet(inputs, n, A, cmode, amode, b, enc="float"):
    s = real_gen(inputs, n, A, cmode, amode)
    env = pl.Env()
    _iet(env, s, b, table=inputs.get("__clf__"), enc=enc)
    return sorted(env.violated)


# ----------------------------------------------------------------
def _cfg_saw(tier):
    out = []
    for cmode in ("none", "idx", "rows"):
        for amode in ("none", "idx", "matrix"):
            for b, napp in ([(1, 1), (2, 1), (2, 2)] if tier == "quick" else [(1, 1), (2, 1), (2, 2), (3, 2), (4, 1)]):
                for perf in (None, "vector"):
                    if perf == "vector" and (b, napp) != (2, 1):
                        continue
                    out.append(dict(n=2, A=2, cmode=cmode, amode=amode, b=b, napp=napp, perf=perf))
    # integer label matrix with the sentinel -1
    for cmode, amode in ((("none", "none"),) if tier == "quick" else (("none", "none"), ("idx", "idx"), ("rows", "matrix"))):
        out.append(dict(n=2, A=2, cmode=cmode, amode=amode, b=2, napp=1, perf=None, enc="int"))
    # availability as a 0/1 integer matrix
    for cmode in (("none", "idx") if tier == "quick" else ("none", "idx", "rows")):
        out.append(dict(n=2, A=2, cmode=cmode, amode="matrix01", b=2, napp=1, perf=None))
    # three samples x two annotators: an array-valued request shorter than the number of selected samples, and a batch
    # larger than n_annotators * len(annotators) with annotator indices (n_samples != n_annotators)
    out.append(dict(n=3, A=2, cmode="none", amode="none", b=5, napp=[2, 1], perf=None))
    out.append(dict(n=3, A=2, cmode="none", amode="idx", b=4, napp=1, perf=None))

    # a wrapped strategy without classifier arguments (RandomSampling)
    for cmode, amode in ((("none", "none"), ("idx", "idx")) if tier == "quick" else
                         [(c, a) for c in ("none", "idx", "rows") for a in ("none", "idx", "matrix")]):
        out.append(dict(n=2, A=2, cmode=cmode, amode=amode, b=2, napp=1, perf=None, inner="random"))
    if tier == "thorough":
        # four samples: an array-valued request [2, 1] stands for [2, 1, 1, 1], not for a cyclic [2, 1, 2, 1] (seed C07-r3a;
        # about 3000 paths - beyond the quick budget)
        out.append(dict(n=4, A=2, cmode="none", amode="idx_all", b=5, napp=[2, 1], perf=None, inner="random"))
        for cmode in ("none", "idx"):
            for amode in ("none", "matrix"):
                if (cmode, amode) == ("idx", "matrix"):
                    continue    # (every candidate subset x every availability matrix of 3 x 2 exceeds the 20 min budget)
                out.append(dict(n=3, A=2, cmode=cmode, amode=amode, b=2, napp=1, perf=None))
    return out


def _cfg_iet(tier):
    out = []
    for cmode in ("none", "idx", "rows"):
        for amode in ("none", "idx", "matrix"):
            for b in ((1, 2) if tier == "quick" else (1, 2, 3)):
                out.append(dict(n=2, A=2, cmode=cmode, amode=amode, b=b))
    # integer label matrix with the sentinel -1
    for cmode, amode in ((("none", "none"), ("idx", "none")) if tier == "quick" else
                         [(c, a) for c in ("none", "idx", "rows") for a in ("none", "idx", "matrix")]):
        out.append(dict(n=2, A=2, cmode=cmode, amode=amode, b=2, enc="int"))
    return out


UNITS = ["skactiveml.base:MultiAnnotatorPoolQueryStrategy._validate_data", "skactiveml.base:MultiAnnotatorPoolQueryStrategy._transform_cand_annot",
         "skactiveml.pool.multiannotator._wrapper:SingleAnnotatorWrapper.query",
         "skactiveml.pool.multiannotator._wrapper:SingleAnnotatorWrapper._query_annotators",
         "skactiveml.pool.multiannotator._wrapper:SingleAnnotatorWrapper._get_order_preserving_s_query",
         "skactiveml.pool.multiannotator._wrapper:SingleAnnotatorWrapper._n_to_assign_annotators",
         "skactiveml.pool.multiannotator._interval_estimation_threshold:IntervalEstimationThreshold.query",
         "skactiveml.pool.multiannotator._interval_estimation_threshold:IntervalEstimationAnnotModel.fit",
         "skactiveml.utils._aggregation:majority_vote", "skactiveml.utils._validation:check_indices"]
HARNESSES = [
    Harness("single_annotator_wrapper", sym_saw, replay_saw, _cfg_saw, UNITS[:6] + UNITS[8:], required_witnesses=("ran",), max_paths=20000),
    Harness("interval_estimation_threshold", sym_iet, replay_iet, _cfg_iet, UNITS[:2] + UNITS[6:], required_witnesses=("ran",)),
]
HARNESSES[0].validate = validate_saw
HARNESSES[1].validate = validate_iet
BOUNDS = dict(quick="n = 2 samples x A = 2 annotators, every label-missing pattern, all 3x3 candidates x annotators forms (None / every "
                    "index subset / 2 feature rows; None / every annotator subset / every boolean availability matrix), batch sizes "
                    "1-2, n_annotators_per_sample 1-2, A_perf None or symbolic vector; 2 s wall-clock bound per path for termination",
              thorough="batch sizes up to 4, n = 3 for four forms",
              outside="other inner strategies; n > 3, A > 2; A_perf matrices")
ASSUMPTIONS = [
    "inner strategy = real UncertaintySampling with a pre-fitted stub classifier (fit_clf=False)",
    "scipy rankdata, sklearn validators, LabelEncoder by contract; RandomState.rand symbolic",
    "termination: a path that runs longer than 2 s is reported as non-termination candidate and replayed under a 5 s bound",
]
