"""C19 — index-based incremental refitting equals retraining from scratch.
IndexClassifierWrapper (real code) around a recording classifier, with and
without native partial_fit: after every operation of an explorer-enumerated
sequence (fit / partial_fit x use_base_clf x set_base_clf x label and weight
overrides x constructor flags) the multiset the inner classifier was effectively
trained on must equal the multiset implied by a small reference model. Plus:
the precomputed-kernel speed-up for ParzenWindowClassifier never changes a
prediction. Scenarios run symbolically and, for replay, concretely."""
from __future__ import annotations

import copy

import numpy as np

from harness.common import dual_harness
from symx import arrays, core

PID = "C19"
NAN = float("nan")


def make_recording(partial, npm):
    from skactiveml.base import SkactivemlClassifier
    from skactiveml.utils import MISSING_LABEL

    class Rec(SkactivemlClassifier):
        def __init__(self, classes=None, missing_label=MISSING_LABEL, cost_matrix=None, random_state=None):
            super().__init__(classes=classes, missing_label=missing_label, cost_matrix=cost_matrix, random_state=random_state)

        def _triples(self, X, y, sw):
            if len(X) == 0:
                return []
            Xl = list(arrays.raw(arrays.asnd(X)).reshape(len(X), -1)[:, 0]) if isinstance(X, arrays.SymNd) else list(np.asarray(X)[:, 0])
            yl = list(arrays.raw(arrays.asnd(y))) if isinstance(y, arrays.SymNd) else list(np.asarray(y))
            if sw is None:
                wl = [None] * len(Xl)
            else:
                wl = list(arrays.raw(arrays.asnd(sw))) if isinstance(sw, arrays.SymNd) else list(np.asarray(sw))
            return list(zip(Xl, yl, wl))

        def fit(self, X, y, sample_weight=None):
            self.train_ = self._triples(X, y, sample_weight)
            self.classes_ = npm.array([0.0, 1.0])
            return self

        def predict_proba(self, X):
            raise NotImplementedError

    if partial:
        class RecPartial(Rec):
            def partial_fit(self, X, y, sample_weight=None):
                self.train_ = list(getattr(self, "train_", [])) + self._triples(X, y, sample_weight)
                self.classes_ = npm.array([0.0, 1.0])
                return self
        return RecPartial(classes=[0.0, 1.0])
    return Rec(classes=[0.0, 1.0])


IDX_MENU = [[0, 1], [2, 1], [1, 1]]


def sc_wrapper(d, n, nops, partial, ignore_partial, unique, weights, overrides=True):
    from skactiveml.pool.utils import IndexClassifierWrapper
    X = d.np.arange(n).astype(float).reshape(n, 1) * 1.0 + 10.0
    yv = [0.0, NAN, 1.0, 0.0][:n]      # the stored labels are irrelevant to the bookkeeping; overrides are symbolic
    y = d.arr(yv)
    ws = [d.fl(f"w{i}", lo=0.0) for i in range(n)] if weights else None
    sw = d.arr(ws) if weights else None
    clf = make_recording(partial, d.np)
    native = partial and not ignore_partial
    w = IndexClassifierWrapper(clf, X, y, sample_weight=sw, ignore_partial_fit=ignore_partial, enforce_unique_samples=unique)
    cur = None
    base = None

    def triples(idx, yo, wo):
        out = []
        for p, i in enumerate(idx):
            yy = yv[i] if yo is None else yo[p]
            ww = (ws[i] if ws is not None else None) if wo is None else wo[p]
            out.append((10.0 + i, yy, ww))
        return out

    for step in range(nops + 1):
        op = "fit" if step == 0 else d.choose(f"op{step}", ["fit", "partial_fit"])
        menu = [m for m in IDX_MENU if max(m) < n and (not unique or len(set(m)) == len(m))]
        idx = list(menu[d.choose(f"idx{step}", list(range(len(menu))))])
        override_y = d.choose(f"override_y{step}", [0, 1]) if overrides else 0
        override_w = override_y if weights else 0
        yo = [d.fl(f"oy{step}_{p}", lo=0.0, hi=1.0) for p in range(len(idx))] if override_y else None
        if yo is not None and d.sym:
            for v in yo:
                d.c.assume(core.b_or(core.boolexpr(core.s_eq(v, 0.0)), core.boolexpr(core.s_eq(v, 1.0))))
        wo = [d.fl(f"ow{step}_{p}", lo=0.0) for p in range(len(idx))] if override_w else None
        set_base = bool(d.choose(f"set_base{step}", [0, 1]))
        kw = dict(y=None if yo is None else d.arr(yo), sample_weight=None if wo is None else d.arr(wo), set_base_clf=set_base)
        add = triples(idx, yo, wo)
        try:
            if op == "fit":
                w.fit(d.arr(idx, dtype=int), **kw)
                cur = list(add)
            else:
                use_base = bool(d.choose(f"use_base{step}", [0, 1])) if base is not None else False
                w.partial_fit(d.arr(idx, dtype=int), use_base_clf=use_base, **kw)
                start = list(base if use_base else cur)
                if unique and not native:
                    start = [t for t in start if int(round(t[0] - 10.0)) not in idx]
                cur = start + add
        except (core.Unencodable, core.PathAbort):
            raise
        except Exception as e:
            d.prove(False, "operation_succeeds", info=dict(step=step, op=op, error=repr(e)[:160]))
            return
        if set_base:
            base = list(cur)
        got = list(getattr(w.clf_, "train_", []))
        d.prove(len(got) == len(cur), "trained_on_implied_multiset:size", info=dict(step=step, op=op, got=len(got), expected=len(cur)))
        if len(got) == len(cur):
            for g, e in zip(got, cur):
                d.prove(d.eq(g[0], e[0]), "trained_on_implied_multiset:samples", info=dict(step=step, op=op))
                d.prove(d.eq(g[1], e[1]), "trained_on_implied_multiset:labels", info=dict(step=step, op=op))
                if e[2] is None or g[2] is None:
                    d.prove(e[2] is None and g[2] is None, "trained_on_implied_multiset:weights", info=dict(step=step, op=op))
                else:
                    d.prove(d.eq(g[2], e[2]), "trained_on_implied_multiset:weights", info=dict(step=step, op=op))
        if base is not None and hasattr(w, "base_clf_"):
            gb = list(getattr(w.base_clf_, "train_", []))
            d.prove(len(gb) == len(base), "base_model_trained_on_implied_multiset", info=dict(step=step))
        if hasattr(w, "base_clf_") and hasattr(w, "clf_"):
            # the stored base model is a separate object: a later in-place update of the current model cannot reach it
            d.prove(w.base_clf_ is not w.clf_, "base_model_is_a_separate_object", info=dict(step=step, op=op))
    d.witness(True, "ran")


def sc_speedup(d, n, fit_idx, pred_idx, weights, nn=None, prior=0.0, gamma=0.5):
    from skactiveml.pool.utils import IndexClassifierWrapper
    from skactiveml.classifier import ParzenWindowClassifier
    xs = [d.fl(f"x{i}", lo=-2.0, hi=2.0) for i in range(n)]
    X = d.arr([[x] for x in xs], shape=(n, 1))
    lab = [d.choose(f"label{i}", [-1, 0, 1]) for i in range(n)]
    y = d.arr([NAN if k < 0 else float(k) for k in lab])
    sw = d.arr([d.fl(f"w{i}", lo=0.0) for i in range(n)]) if weights else None
    outs = []
    for speed in (False, True):
        md = {"gamma": gamma}
        clf = ParzenWindowClassifier(classes=[0.0, 1.0], metric="rbf", metric_dict=md, n_neighbors=nn, class_prior=prior)
        w = IndexClassifierWrapper(clf, X, y, sample_weight=sw, use_speed_up=speed)
        w.precompute(d.arr(fit_idx, dtype=int), d.arr(pred_idx, dtype=int))
        w.fit(d.arr(fit_idx, dtype=int))
        outs.append((w.predict_freq(d.arr(pred_idx, dtype=int)), w.predict_proba(d.arr(pred_idx, dtype=int))))
        # the wrapped classifier's kernel parameters are the caller's: a symbolic bandwidth ('mean') must still be 'mean'
        # for the next (re)fit on other samples
        d.prove(md == {"gamma": gamma} and clf.metric_dict == {"gamma": gamma}, "wrapped_classifier_parameters_unchanged",
                info=dict(speed_up=speed, metric_dict=repr(md)[:60]))
        inner = getattr(w, "clf_", None)
        if inner is not None and getattr(inner, "metric", None) != "precomputed":
            # the classifier the wrapper keeps refitting: its bandwidth parameter is still the one configured (a number
            # written back by fit would be reused - stale - for the next training set)
            d.prove(inner.metric_dict == {"gamma": gamma}, "inner_classifier_parameters_unchanged",
                    info=dict(speed_up=speed, metric_dict=repr(inner.metric_dict)[:60]))
    d.prove(d.eq_arr(outs[0][0], outs[1][0], 1e-12), "speed_up_same_frequencies")
    d.prove(d.eq_arr(outs[0][1], outs[1][1], 1e-12), "speed_up_same_probabilities")
    if weights:
        # label / weight overrides handed to fit are the caller's arrays: they are read, not written (the same weight
        # array is typically reused for the next fit)
        m = len(fit_idx)
        yo = d.arr([NAN if lab[i] < 0 else float(lab[i]) for i in fit_idx])
        wo = d.arr([d.fl(f"wo{j}", lo=0.0) for j in range(m)])
        yo0, wo0 = yo.copy(), wo.copy()
        for speed in (False, True):
            clf = ParzenWindowClassifier(classes=[0.0, 1.0], metric="rbf", metric_dict={"gamma": 0.5}, n_neighbors=nn, class_prior=prior)
            w2 = IndexClassifierWrapper(clf, X, y, sample_weight=sw, use_speed_up=speed)
            w2.precompute(d.arr(fit_idx, dtype=int), d.arr(pred_idx, dtype=int))
            w2.fit(d.arr(fit_idx, dtype=int), y=yo, sample_weight=wo)
            d.prove(d.eq_arr(wo, wo0), "fit_leaves_weight_override_unchanged", info=dict(speed_up=speed))
            d.prove(d.eq_arr(yo, yo0), "fit_leaves_label_override_unchanged", info=dict(speed_up=speed))
    d.witness(True, "ran")


def sc_prefitted(d, n):
    """a classifier that was fitted before it is wrapped (the wrapper itself is never fitted): with use_speed_up=True the three
    prediction methods must return what they return without the speed-up - labels, probabilities, frequencies"""
    from skactiveml.pool.utils import IndexClassifierWrapper
    from skactiveml.classifier import ParzenWindowClassifier
    xs = [d.fl(f"x{i}", lo=-2.0, hi=2.0) for i in range(n)]
    X = d.arr([[x] for x in xs], shape=(n, 1))
    lab = [d.choose(f"label{i}", [-1, 0, 1]) for i in range(n)]
    y = d.arr([NAN if k < 0 else float(k) for k in lab])
    idx = d.arr(list(range(n)), dtype=int)
    outs = []
    for speed in (False, True):
        clf = ParzenWindowClassifier(classes=[0.0, 1.0], metric="rbf", metric_dict={"gamma": 0.5}, random_state=0).fit(X, y)
        w = IndexClassifierWrapper(clf, X, y, use_speed_up=speed)
        outs.append((w.predict(idx), w.predict_proba(idx), w.predict_freq(idx)))
    for k, name in enumerate(("labels", "probabilities", "frequencies")):
        a, b = outs[0][k], outs[1][k]
        d.prove(tuple(np.shape(a)) == tuple(np.shape(b)), f"prefitted_speed_up_same_shape:{name}",
                info=dict(without=tuple(np.shape(a)), with_speed_up=tuple(np.shape(b))))
        if tuple(np.shape(a)) == tuple(np.shape(b)) and name != "labels":
            d.prove(d.eq_arr(a, b, 1e-12), f"prefitted_speed_up_same_values:{name}")
    d.witness(True, "ran")


UNITS = ["skactiveml.pool.utils:IndexClassifierWrapper.__init__", "skactiveml.pool.utils:IndexClassifierWrapper.fit",
         "skactiveml.pool.utils:IndexClassifierWrapper.partial_fit", "skactiveml.pool.utils:IndexClassifierWrapper.precompute",
         "skactiveml.pool.utils:IndexClassifierWrapper.predict_proba", "skactiveml.pool.utils:IndexClassifierWrapper.predict_freq",
         "skactiveml.classifier._parzen_window_classifier:ParzenWindowClassifier.predict_freq"]


def _cfg_wrapper(tier):
    out = []
    for partial, ignore in ((False, False), (True, False), (True, True)):
        for unique in (False, True):
            for weights in (False, True):
                out.append(dict(n=3, nops=1, partial=partial, ignore_partial=ignore, unique=unique, weights=weights, overrides=True))
                if not weights or not partial:
                    out.append(dict(n=3, nops=2, partial=partial, ignore_partial=ignore, unique=unique, weights=weights, overrides=False))
                if tier == "thorough":
                    out.append(dict(n=3, nops=2, partial=partial, ignore_partial=ignore, unique=unique, weights=weights, overrides=True))
                    if not weights:
                        out.append(dict(n=4, nops=3, partial=partial, ignore_partial=ignore, unique=unique, weights=False, overrides=False))
    return out


def _cfg_speed(tier):
    out = []
    for fit_idx, pred_idx in (([0, 1], [2]), ([0, 1, 2], [0, 2]), ([1], [0, 1, 2])):
        for weights in (False, True):
            out.append(dict(n=3, fit_idx=fit_idx, pred_idx=pred_idx, weights=weights))
    # every constructor parameter of the wrapped classifier must survive the speed-up (nearest neighbours, prior)
    out.append(dict(n=3, fit_idx=[0, 1, 2], pred_idx=[0, 2], weights=False, nn=1, prior=0.0))
    out.append(dict(n=3, fit_idx=[0, 1, 2], pred_idx=[1], weights=True, nn=2, prior=0.5))
    out.append(dict(n=3, fit_idx=[0, 1], pred_idx=[2], weights=False, gamma="mean"))
    if tier == "thorough":
        out.append(dict(n=4, fit_idx=[0, 1, 3], pred_idx=[2, 3], weights=True))
        out.append(dict(n=4, fit_idx=[0, 1, 2, 3], pred_idx=[2, 3], weights=True, nn=2, prior=1.0))
    return out


HARNESSES = [
    dual_harness("index_wrapper_sequences", sc_wrapper, _cfg_wrapper, UNITS[:3], required_witnesses=("ran",), max_paths=60000),
    dual_harness("pwc_speed_up", sc_speedup, _cfg_speed, UNITS[:2] + UNITS[3:], required_witnesses=("ran",)),
    dual_harness("pwc_speed_up_prefitted", sc_prefitted, lambda tier: [dict(n=2)], UNITS[:1] + UNITS[4:] + ["skactiveml.pool.utils:IndexClassifierWrapper.predict"],
                 required_witnesses=("ran",)),
]
BOUNDS = dict(quick="|X| = 3, sequences of 1 (with symbolic label/weight overrides) or 2 (without) operations after the first fit, "
                    "every choice of operation, index set (3 menus incl. duplicates), use_base_clf / set_base_clf, label and weight overrides, for wrapped classifiers with / without native "
                    "partial_fit x ignore_partial_fit x enforce_unique_samples; symbolic labels overrides and weights",
              thorough="sequences of up to 3 operations; speed-up also with |X| = 4",
              outside="predict-level comparison with real classifiers other than ParzenWindowClassifier; expected-error-reduction strategies "
                      "that drive the wrapper")
ASSUMPTIONS = [
    "inner classifier = recording stub (stores the (sample, label, weight) triples it is trained on)",
    "reference model: fit replaces the multiset; partial_fit appends to the current (or base) multiset; with enforce_unique_samples "
    "and emulated partial_fit, samples re-added are removed first; set_base_clf snapshots the result",
    "pairwise_kernels = uninterpreted symmetric positive function (rbf in the replay)",
]


# ---------------------------------------------------------------- IndexClassifierWrapper around the real SklearnClassifier
def sc_sklearn_inside(d, n, ignore_partial, weightless=False):
    """the wrapped classifier is the real SklearnClassifier around a scikit-learn estimator that accumulates whatever it
    is fitted on (warm_start-like) and has no partial_fit: after fit(idx0) and a second (partial_)fit the estimator that
    answers predictions has been fitted exactly once, on exactly the samples the reference model implies"""
    from skactiveml.classifier import SklearnClassifier
    from skactiveml.pool.utils import IndexClassifierWrapper
    from harness.C13 import _warm_classifier
    xs = [d.fl(f"x{i}", lo=-2.0, hi=2.0) for i in range(n)]
    X = d.arr([[x] for x in xs], shape=(n, 1))
    lab = [d.choose(f"label{i}", [0, 1]) for i in range(n)]
    y = d.arr([float(k) for k in lab])
    second = d.choose("second_op", ["fit", "partial_fit"])
    idx0, idx1 = [0], [1] if n == 2 else [1, 2]
    w = IndexClassifierWrapper(SklearnClassifier(_warm_classifier(d.np, weightless), classes=[0.0, 1.0]), X, y,
                               ignore_partial_fit=ignore_partial)
    try:
        w.fit(d.arr(idx0, dtype=int))
        if second == "fit":
            w.fit(d.arr(idx1, dtype=int))
            expect = idx1
        else:
            w.partial_fit(d.arr(idx1, dtype=int))
            expect = idx0 + idx1
    except (core.Unencodable, core.PathAbort):
        raise
    except Exception as e:
        d.prove(False, "operations_succeed", info=dict(error=repr(e)[:160]))
        return
    log = getattr(w.clf_.estimator_, "fit_log_", [])
    d.prove(len(log) == 1, "inner_estimator_fitted_once_from_scratch", info=dict(fits_seen=len(log), second=second))
    if len(log) >= 1:
        Xr = log[-1][0]
        d.prove(d.eq_arr(Xr, d.arr([[xs[i]] for i in expect], shape=(len(expect), 1))), "inner_estimator_sees_implied_samples",
                info=dict(second=second, expected=expect))
    d.witness(True, "ran")


HARNESSES.append(dual_harness(
    "sklearn_classifier_inside_wrapper", sc_sklearn_inside,
    lambda tier: [dict(n=n, ignore_partial=ip) for n in ((2,) if tier == "quick" else (2, 3)) for ip in (True, False)]
    + [dict(n=2, ignore_partial=True, weightless=True)],
    UNITS[:3] + ["skactiveml.classifier._wrapper:SklearnClassifier._fit"], required_witnesses=("ran",)))
