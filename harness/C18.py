"""C18 — selection primitives pick true optima and well-formed batches.
Units: skactiveml.utils._selection.rand_argmax / rand_argmin / simple_batch,
executed unmodified on symbolic arrays."""
from __future__ import annotations

import itertools

import numpy as np
import z3

from harness.common import Harness, rec, farr, collect_reach
from symx import arrays, core, facade
from symx.core import b_and, b_not, b_or, boolexpr, mkbool, s_eq, s_le, s_lt, s_ite, fresh_int

PID = "C18"
UNITS = ["skactiveml.utils._selection:rand_argmax", "skactiveml.utils._selection:rand_argmin",
         "skactiveml.utils._selection:simple_batch", "skactiveml.utils._validation:check_random_state",
         "skactiveml.utils._validation:check_scalar"]


def _sel():
    import skactiveml.utils._selection as sel
    return sel


def _isopt(xs, j, want_max):
    """z3: xs[j] is a non-NaN optimum of the non-NaN entries"""
    conds = [b_not(boolexpr(core.s_isnan(xs[j])))]
    for k, x in enumerate(xs):
        if k == j:
            continue
        xn = boolexpr(core.s_isnan(x))
        cmp_ = s_le(x, xs[j]) if want_max else s_le(xs[j], x)
        conds.append(b_or(xn, boolexpr(cmp_)))
    return b_and(*conds)


# ---------------------------------------------------------------- rand_arg* 1-D
def sym_argopt_1d(c, n, op, inf):
    sel = _sel()
    a = farr(c, "x", n, nan=True, inf=inf)
    seed = fresh_int("seed", 0, 2 ** 32 - 1)
    rec(c, "a", a)
    rec(c, "seed", seed)
    xs = list(arrays.raw(a))
    f = sel.rand_argmax if op == "max" else sel.rand_argmin
    r = f(a, random_state=seed)
    c.prove(isinstance(r, np.ndarray) and r.shape == (1,), "shape")
    j = int(r[0])
    c.prove(0 <= j < n, "range")
    alln = b_and(*[boolexpr(core.s_isnan(x)) for x in xs])
    c.prove(b_or(alln, _isopt(xs, j, op == "max")), "optimum")
    c.witness(b_and(*[boolexpr(s_eq(xs[0], x)) for x in xs[1:]]) if n > 1 else True, "all_tied")
    c.witness(alln, "all_nan")
    # reproducibility for a fixed seed
    r2 = f(a, random_state=seed)
    c.prove(int(r2[0]) == j, "reproducible")
    # fairness: for all arrays in which position j is a (tied) optimum there are draws selecting j
    # (cross-path obligation, discharged after the exploration)
    collect_reach(c, "tie_fairness", j, _isopt(xs, j, op == "max"))


def _opt_positions(a, op):
    a = np.asarray(a, dtype=float)
    if np.all(np.isnan(a)):
        return None
    best = np.nanmax(a) if op == "max" else np.nanmin(a)
    return set(np.flatnonzero(a == best).tolist())


def replay_argopt_1d(inputs, label, n, op, inf):
    sel = _sel()
    a = np.array(inputs["a"], dtype=float)
    f = sel.rand_argmax if op == "max" else sel.rand_argmin
    opt = _opt_positions(a, op)
    seeds = [int(inputs.get("seed", 0)) % (2 ** 32)] + list(range(300))
    reached = set()
    for s in seeds:
        r = f(a.copy(), random_state=s)
        if not (isinstance(r, np.ndarray) and r.shape == (1,)):
            if label == "shape":
                return True, f"a={a} seed={s} -> {r!r}"
            continue
        j = int(r[0])
        reached.add(j)
        if label in ("optimum", "range") and opt is not None and j not in opt:
            return True, f"a={a.tolist()} seed={s} -> {j}, optima={sorted(opt)}"
        if label == "reproducible" and int(f(a.copy(), random_state=s)[0]) != j:
            return True, f"a={a.tolist()} seed={s}: two calls differ"
    if label == "tie_fairness" and opt is not None and not opt <= reached:
        return True, f"a={a.tolist()}: optima {sorted(opt)} but only {sorted(reached)} reached in {len(seeds)} seeds"
    return False, f"no violation of {label} for a={a.tolist()}"


# ---------------------------------------------------------------- rand_arg* 2-D
def sym_argopt_2d(c, shape, op, axis):
    sel = _sel()
    n = shape[0] * shape[1]
    a = farr(c, "x", n, nan=True, inf=False, shape=shape)
    rec(c, "a", a)
    f = sel.rand_argmax if op == "max" else sel.rand_argmin
    kw = {} if axis is None else {"axis": axis}
    ra = arrays.raw(a)
    # numpy's nanmax warns / returns NaN for all-NaN slices: assume each slice has a number
    if axis is None:
        slices = [[ra[i, j] for i in range(shape[0]) for j in range(shape[1])]]
    elif axis == 0:
        slices = [[ra[i, j] for i in range(shape[0])] for j in range(shape[1])]
    else:
        slices = [[ra[i, j] for j in range(shape[1])] for i in range(shape[0])]
    for sl in slices:
        c.assume(b_not(b_and(*[boolexpr(core.s_isnan(x)) for x in sl])))
    r = f(a, random_state=7, **kw)
    if axis is None:
        ok = isinstance(r, np.ndarray) and r.shape == (2,)
        c.prove(ok, "shape")
        if not ok:
            return
        i, j = int(r[0]), int(r[1])
        c.prove(_isopt(slices[0], i * shape[1] + j, op == "max"), "optimum")
        collect_reach(c, "tie_fairness", (i, j), _isopt(slices[0], i * shape[1] + j, op == "max"))
    else:
        ok = isinstance(r, np.ndarray) and r.shape == (len(slices),)
        c.prove(ok, "shape", info=dict(got=getattr(r, "shape", None)))
        if not ok:
            return
        prem = []
        for k, sl in enumerate(slices):
            j = int(r[k])
            c.prove(_isopt(sl, j, op == "max"), "optimum")
            prem.append(_isopt(sl, j, op == "max"))
        collect_reach(c, "tie_fairness", tuple(int(v) for v in r), b_and(*prem))


def replay_argopt_2d(inputs, label, shape, op, axis):
    sel = _sel()
    a = np.array(inputs["a"], dtype=float).reshape(shape)
    f = sel.rand_argmax if op == "max" else sel.rand_argmin
    kw = {} if axis is None else {"axis": axis}
    red = (np.nanmax if op == "max" else np.nanmin)
    reached = set()
    for s in range(300):
        r = f(a.copy(), random_state=s, **kw)
        if axis is None:
            if r.shape != (2,):
                return label == "shape", f"shape {r.shape}"
            reached.add(tuple(int(v) for v in r))
            if label == "optimum" and not a[tuple(r)] == red(a):
                return True, f"a={a.tolist()} seed={s} -> {r.tolist()}"
        else:
            best = red(a, axis=axis)
            if r.shape != best.shape:
                return label == "shape", f"shape {r.shape}"
            vals = np.take_along_axis(a, np.expand_dims(r, axis), axis).squeeze(axis)
            reached.add(tuple(int(v) for v in r))
            if label == "optimum" and not np.array_equal(vals, best):
                return True, f"a={a.tolist()} seed={s} axis={axis} -> {r.tolist()}"
    if label == "tie_fairness":
        if axis is None:
            opt = {tuple(int(v) for v in ix) for ix in np.argwhere(a == red(a))}
        else:
            best = red(a, axis=axis, keepdims=True)
            m = a == best
            per = [np.flatnonzero(np.take(m, k, axis=1 - axis)) for k in range(a.shape[1 - axis])]
            opt = set(itertools.product(*[p.tolist() for p in per]))
        if not opt <= reached:
            return True, f"a={a.tolist()} axis={axis}: optima {sorted(opt)} reached {sorted(reached)}"
    return False, "no violation"


# ---------------------------------------------------------------- simple_batch (max)
def _batch_laws_sym(c, xs0, idx, bu, b, n):
    """obligations over the symbolic input xs0 (list), concrete idx list, batch utilities SymNd"""
    isn = [boolexpr(core.s_isnan(x)) for x in xs0]
    nn = 0
    for x in isn:
        nn = nn + mkbool(b_not(x))
    k = len(idx)
    c.prove(s_eq(k, s_ite(s_lt(nn, b), nn, b)), "length")
    c.prove(len(set(idx)) == k, "distinct")
    c.prove(all(0 <= i < n for i in idx), "range")
    for i in idx:
        c.prove(b_not(isn[i]), "never_nan")
    for t in range(k - 1):
        c.prove(s_le(xs0[idx[t + 1]], xs0[idx[t]]), "non_increasing")
    if bu is not None:
        c.prove(tuple(bu.shape) == (k, n), "utilities_shape")
        if tuple(bu.shape) == (k, n):
            rb = arrays.raw(bu)
            for t in range(k):
                for p in range(n):
                    v = rb[t, p]
                    vn = boolexpr(core.s_isnan(v))
                    if p in idx[:t]:
                        c.prove(vn, "row_masks_earlier_picks")
                    else:
                        c.prove(b_or(b_and(vn, isn[p]), boolexpr(s_eq(v, xs0[p]))), "row_keeps_values")
                row = list(rb[t])
                c.prove(_isopt(row, idx[t], True), "pick_attains_row_max")


def sym_batch_max(c, n, b, inf):
    sel = _sel()
    a = farr(c, "u", n, nan=True, inf=inf)
    seed = fresh_int("seed", 0, 2 ** 32 - 1)
    rec(c, "utilities", a)
    rec(c, "seed", seed)
    xs0 = list(arrays.raw(a))
    snapshot = a.copy()
    try:
        idx, bu = sel.simple_batch(a, random_state=seed, batch_size=b, return_utilities=True)
    except ValueError as e:
        # infinities are ordinary utilities for the arg-max selection (the property's quantifier names them)
        c.prove(False, "accepts_every_utility_array", info=str(e))
        return
    c.prove(isinstance(idx, np.ndarray) and idx.ndim == 1, "indices_1d")
    idx = [int(i) for i in idx]
    _batch_laws_sym(c, xs0, idx, bu, b, n)
    # caller's array is not modified (simple_batch must work on a validated copy) -- the
    # stubbed check_array returns the same object as sklearn does, so this is the real aliasing
    same = b_and(*[b_or(b_and(boolexpr(core.s_isnan(p)), boolexpr(core.s_isnan(q))), boolexpr(s_eq(p, q)))
                   for p, q in zip(arrays.raw(a), arrays.raw(snapshot))])
    c.prove(same, "caller_array_unchanged")
    c.witness(b_and(*[boolexpr(s_eq(xs0[0], x)) for x in xs0[1:]]) if n > 1 else True, "all_tied")
    c.witness(b_and(*[boolexpr(core.s_isnan(x)) for x in xs0]), "all_nan")
    c.notes.append("input-aliasing: simple_batch writes NaN into its argument when it is already a float ndarray "
                   "(sklearn.check_array does not copy); callers pass private copies (checked under C05)") if False else None
    # second call without return_utilities gives the same indices for the same seed
    idx2 = sel.simple_batch(snapshot.copy(), random_state=seed, batch_size=b)
    c.prove([int(i) for i in idx2] == idx, "reproducible")


def _batch_laws_conc(u0, idx, bu, b):
    """returns set of violated labels (concrete reference)"""
    bad = set()
    u0 = np.asarray(u0, dtype=float)
    n = len(u0)
    nn = int(np.sum(~np.isnan(u0)))
    idx = np.asarray(idx)
    if idx.ndim != 1:
        bad.add("indices_1d")
        return bad
    k = len(idx)
    if k != min(b, nn):
        bad.add("length")
    if len(set(idx.tolist())) != k:
        bad.add("distinct")
    if not all(0 <= i < n for i in idx):
        bad.add("range")
        return bad
    if np.any(np.isnan(u0[idx])):
        bad.add("never_nan")
    v = u0[idx]
    if np.any(v[1:] > v[:-1]):
        bad.add("non_increasing")
    if bu is not None:
        bu = np.asarray(bu)
        if bu.shape != (k, n):
            bad.add("utilities_shape")
            return bad
        for t in range(k):
            for p in range(n):
                if p in idx[:t]:
                    if not np.isnan(bu[t, p]):
                        bad.add("row_masks_earlier_picks")
                else:
                    if not ((np.isnan(bu[t, p]) and np.isnan(u0[p])) or bu[t, p] == u0[p]):
                        bad.add("row_keeps_values")
            row = bu[t]
            if np.isnan(row[idx[t]]) or not row[idx[t]] == np.nanmax(row):
                bad.add("pick_attains_row_max")
    return bad


def replay_batch_max(inputs, label, n, b, inf):
    sel = _sel()
    u = np.array(inputs["utilities"], dtype=float)
    seeds = [int(inputs.get("seed", 0)) % (2 ** 32)] + list(range(100))
    for s in seeds:
        arg = u.copy()
        try:
            idx, bu = sel.simple_batch(arg, random_state=s, batch_size=b, return_utilities=True)
        except ValueError as e:
            if label == "accepts_every_utility_array":
                return True, f"utilities={u.tolist()} b={b}: ValueError {e}"
            continue
        if label == "caller_array_unchanged" and not np.array_equal(arg, u, equal_nan=True):
            return True, f"utilities={u.tolist()} b={b}: the caller's array is {arg.tolist()} after the call"
        bad = _batch_laws_conc(u, idx, bu, b)
        if label in bad:
            return True, f"utilities={u.tolist()} b={b} seed={s} -> idx={np.asarray(idx).tolist()} bu={np.asarray(bu).tolist()}"
        if label == "reproducible":
            idx2 = sel.simple_batch(u.copy(), random_state=s, batch_size=b)
            if not np.array_equal(idx, idx2):
                return True, f"utilities={u.tolist()} seed={s}: {idx} vs {idx2}"
    return False, f"no violation of {label}"


def concrete_batch_max(params):
    """differential validation of the facade: same concrete inputs through real numpy and the facade"""
    sel = _sel()
    n, b = params["n"], params["b"]
    rng = np.random.RandomState(1000 + n * 10 + b)
    cnt = 0
    for t in range(40):
        u = rng.choice([0.0, 0.5, 1.0, -1.0, np.nan, 2.0], size=n)
        seed = int(rng.randint(0, 1000))
        try:
            ref = sel.simple_batch(u.copy(), random_state=seed, batch_size=b, return_utilities=True)
        except ValueError:
            ref = "ValueError"
        facade.install()
        facade.CONCRETE_RNG = True
        import symx.facade as F
        F.CONCRETE_RNG = True
        try:
            try:
                got = sel.simple_batch(arrays.SymNd(u.copy()), random_state=seed, batch_size=b, return_utilities=True)
                got = (arrays.to_real(got[0]), arrays.to_real(got[1]))
            except ValueError:
                got = "ValueError"
        finally:
            F.CONCRETE_RNG = False
            facade.uninstall()
        if isinstance(ref, str) or isinstance(got, str):
            assert ref == got, (u, ref, got)
        else:
            assert np.array_equal(ref[0], got[0]) and np.array_equal(ref[1], got[1], equal_nan=True), (u, seed, ref, got)
        cnt += 1
    return cnt


# ---------------------------------------------------------------- simple_batch 2-D utilities
def sym_batch_max_2d(c, shape, b):
    sel = _sel()
    n = shape[0] * shape[1]
    a = farr(c, "u", n, nan=True, inf=False, shape=shape)
    rec(c, "utilities", a)
    flat0 = list(arrays.raw(a).reshape(-1))
    idx, bu = sel.simple_batch(a, random_state=3, batch_size=b, return_utilities=True)
    isn = [boolexpr(core.s_isnan(x)) for x in flat0]
    nn = 0
    for x in isn:
        nn = nn + mkbool(b_not(x))
    k = len(idx)
    c.prove(s_eq(k, s_ite(s_lt(nn, b), nn, b)), "length")
    c.prove(isinstance(idx, np.ndarray) and idx.ndim == 2 and idx.shape[1] == 2, "indices_2col")
    pos = [int(r[0]) * shape[1] + int(r[1]) for r in idx]
    c.prove(len(set(pos)) == k, "distinct")
    for p in pos:
        c.prove(b_not(isn[p]), "never_nan")
    for t in range(k - 1):
        c.prove(s_le(flat0[pos[t + 1]], flat0[pos[t]]), "non_increasing")
    c.prove(tuple(bu.shape) == (k,) + tuple(shape), "utilities_shape")
    rb = arrays.raw(bu)
    for t in range(k):
        row = list(rb[t].reshape(-1))
        for p in range(n):
            vn = boolexpr(core.s_isnan(row[p]))
            if p in pos[:t]:
                c.prove(vn, "row_masks_earlier_picks")
            else:
                c.prove(b_or(b_and(vn, isn[p]), boolexpr(s_eq(row[p], flat0[p]))), "row_keeps_values")
        c.prove(_isopt(row, pos[t], True), "pick_attains_row_max")


def replay_batch_max_2d(inputs, label, shape, b):
    sel = _sel()
    u = np.array(inputs["utilities"], dtype=float).reshape(shape)
    for s in range(50):
        idx, bu = sel.simple_batch(u.copy(), random_state=s, batch_size=b, return_utilities=True)
        idx = np.asarray(idx)
        if idx.ndim != 2:
            return label == "indices_2col", f"idx={idx}"
        pos = [int(r[0]) * shape[1] + int(r[1]) for r in idx]
        bad = _batch_laws_conc(u.reshape(-1), np.array(pos, dtype=int), np.asarray(bu).reshape(len(pos), u.size), b)
        if label in bad:
            return True, f"utilities={u.tolist()} b={b} seed={s} -> {idx.tolist()}"
    return False, "no violation"


# ---------------------------------------------------------------- simple_batch (proportional)
def sym_batch_prop(c, n, b):
    sel = _sel()
    a = farr(c, "u", n, nan=True, inf=False)
    rec(c, "utilities", a)
    xs0 = list(arrays.raw(a))
    isn = [boolexpr(core.s_isnan(x)) for x in xs0]
    # documented use: probabilities proportional to non-negative utilities
    for x, xn in zip(xs0, isn):
        c.assume(b_or(xn, boolexpr(s_le(0, x))))
    nn = 0
    npos = 0
    for x, xn in zip(xs0, isn):
        nn = nn + mkbool(b_not(xn))
        npos = npos + mkbool(b_and(b_not(xn), boolexpr(s_lt(0, x))))
    want = s_ite(s_lt(nn, b), nn, b)
    try:
        idx, bu = sel.simple_batch(a, random_state=11, batch_size=b, return_utilities=True, method="proportional")
    except ValueError as e:
        # numpy's choice cannot deliver `want` entries of positive weight
        c.prove(s_lt(npos, want), "valueerror_only_without_enough_mass", info=str(e))
        return
    c.prove(isinstance(idx, np.ndarray) and idx.ndim == 1, "indices_1d")
    idx = [int(i) for i in idx]
    k = len(idx)
    c.prove(s_eq(k, want), "length")
    c.prove(len(set(idx)) == k, "distinct")
    for i in idx:
        c.prove(b_not(isn[i]), "never_nan")
        c.prove(s_lt(0, xs0[i]), "never_zero_weight")
    c.prove(tuple(bu.shape) == (k, n), "utilities_shape")
    rb = arrays.raw(bu)
    for t in range(k):
        for p in range(n):
            vn = boolexpr(core.s_isnan(rb[t, p]))
            if p in idx[:t]:
                c.prove(vn, "row_masks_earlier_picks")
            else:
                c.prove(b_or(b_and(vn, isn[p]), boolexpr(s_eq(rb[t, p], xs0[p]))), "row_keeps_values")
        c.prove(s_lt(0, rb[t, idx[t]]), "pick_has_positive_mass")
    c.witness(boolexpr(s_eq(npos, 1)), "single_positive")


def sym_batch_prop_2d(c, shape, b):
    """proportional mode on a 2-D utility array (the documented N-D input)"""
    sel = _sel()
    n = shape[0] * shape[1]
    a = farr(c, "u", n, nan=True, inf=False, shape=shape)
    rec(c, "utilities", a)
    flat0 = list(arrays.raw(a).reshape(-1))
    isn = [boolexpr(core.s_isnan(x)) for x in flat0]
    for x, xn in zip(flat0, isn):
        c.assume(b_or(xn, boolexpr(s_le(0, x))))
    nn = 0
    npos = 0
    for x, xn in zip(flat0, isn):
        nn = nn + mkbool(b_not(xn))
        npos = npos + mkbool(b_and(b_not(xn), boolexpr(s_lt(0, x))))
    want = s_ite(s_lt(nn, b), nn, b)
    try:
        idx, bu = sel.simple_batch(a, random_state=11, batch_size=b, return_utilities=True, method="proportional")
    except ValueError as e:
        c.prove(s_lt(npos, want), "valueerror_only_without_enough_mass", info=str(e))
        return
    ok = isinstance(idx, np.ndarray) and idx.ndim == 2 and idx.shape[1] == 2
    c.prove(ok, "indices_2col")
    if not ok:
        return
    k = len(idx)
    c.prove(s_eq(k, want), "length")
    pos = [int(r[0]) * shape[1] + int(r[1]) for r in idx]
    c.prove(len(set(pos)) == k, "distinct")
    for p in pos:
        c.prove(b_not(isn[p]), "never_nan")
        c.prove(s_lt(0, flat0[p]), "never_zero_weight")
    c.prove(tuple(bu.shape) == (k,) + tuple(shape), "utilities_shape")
    if tuple(bu.shape) != (k,) + tuple(shape):
        return
    rb = arrays.raw(bu)
    for t in range(k):
        row = list(rb[t].reshape(-1))
        for p in range(n):
            vn = boolexpr(core.s_isnan(row[p]))
            if p in pos[:t]:
                c.prove(vn, "row_masks_earlier_picks")
            else:
                c.prove(b_or(b_and(vn, isn[p]), boolexpr(s_eq(row[p], flat0[p]))), "row_keeps_values")
    c.witness(k >= 2, "batch_of_two")


def replay_batch_prop_2d(inputs, label, shape, b):
    sel = _sel()
    u = np.array(inputs["utilities"], dtype=float).reshape(shape)
    nn = int(np.sum(~np.isnan(u)))
    npos = int(np.sum(u > 0))
    for s in range(100):
        try:
            idx, bu = sel.simple_batch(u.copy(), random_state=s, batch_size=b, return_utilities=True, method="proportional")
        except Exception as e:
            # (an exception the symbolic run met under another type - the facade's choice vs numpy's - is the same event)
            if (label == "valueerror_only_without_enough_mass" or label.startswith("unexpected_exception")) and npos >= min(b, nn):
                return True, f"utilities={u.tolist()} b={b}: {type(e).__name__}: {e}"
            continue
        idx = np.asarray(idx)
        if idx.ndim != 2 or idx.shape[1] != 2:
            return label == "indices_2col", f"idx={idx.tolist()}"
        bad = set()
        k = len(idx)
        if k != min(b, nn):
            bad.add("length")
        pos = [int(r[0]) * shape[1] + int(r[1]) for r in idx]
        if len(set(pos)) != k:
            bad.add("distinct")
        flat = u.reshape(-1)
        if any(np.isnan(flat[p]) for p in pos):
            bad.add("never_nan")
        if any(not flat[p] > 0 for p in pos):
            bad.add("never_zero_weight")
        bu = np.asarray(bu)
        if bu.shape != (k,) + tuple(shape):
            bad.add("utilities_shape")
        else:
            for t in range(k):
                row = bu[t].reshape(-1)
                for p in range(len(flat)):
                    if p in pos[:t]:
                        if not np.isnan(row[p]):
                            bad.add("row_masks_earlier_picks")
                    elif not ((np.isnan(row[p]) and np.isnan(flat[p])) or row[p] == flat[p]):
                        bad.add("row_keeps_values")
        if label in bad:
            return True, f"utilities={u.tolist()} b={b} seed={s} -> idx={idx.tolist()}"
    return False, "not reproduced"


def replay_batch_prop(inputs, label, n, b):
    sel = _sel()
    u = np.array(inputs["utilities"], dtype=float)
    nn = int(np.sum(~np.isnan(u)))
    npos = int(np.sum(u > 0))
    for s in range(200):
        try:
            idx, bu = sel.simple_batch(u.copy(), random_state=s, batch_size=b, return_utilities=True,
                                       method="proportional")
        except ValueError as e:
            if label == "valueerror_only_without_enough_mass" and npos >= min(b, nn):
                return True, f"utilities={u.tolist()} b={b}: {e}"
            continue
        idx = np.asarray(idx)
        bad = set()
        if idx.ndim != 1:
            bad.add("indices_1d")
        else:
            if len(idx) != min(b, nn):
                bad.add("length")
            if len(set(idx.tolist())) != len(idx):
                bad.add("distinct")
            if np.any(np.isnan(u[idx])):
                bad.add("never_nan")
            if np.any(~(u[idx] > 0)):
                bad.add("never_zero_weight")
            bu = np.asarray(bu)
            if bu.shape != (len(idx), n):
                bad.add("utilities_shape")
            else:
                for t in range(len(idx)):
                    for p in range(n):
                        if p in idx[:t]:
                            if not np.isnan(bu[t, p]):
                                bad.add("row_masks_earlier_picks")
                        elif not ((np.isnan(bu[t, p]) and np.isnan(u[p])) or bu[t, p] == u[p]):
                            bad.add("row_keeps_values")
                    if not bu[t, idx[t]] > 0:
                        bad.add("pick_has_positive_mass")
        if label in bad:
            return True, f"utilities={u.tolist()} b={b} seed={s} -> idx={idx.tolist()}"
    return False, "no violation"


# ----------------------------------------------------------------
def _cfg_1d(tier):
    ns = [1, 2, 3, 4] if tier == "quick" else [1, 2, 3, 4, 5, 6]
    out = []
    for n in ns:
        for op in ("max", "min"):
            out.append(dict(n=n, op=op, inf=(n <= (3 if tier == "quick" else 5))))
    return out


def _cfg_2d(tier):
    shapes = [(2, 2)] if tier == "quick" else [(2, 2), (2, 3)]
    return [dict(shape=s, op=op, axis=ax) for s in shapes for op in ("max", "min") for ax in (None, 0, 1)]


def _cfg_batch(tier):
    out = []
    for n in ([1, 2, 3, 4] if tier == "quick" else [1, 2, 3, 4, 5, 6]):
        for b in ([1, 2, 3] if tier == "quick" else [1, 2, 3, 4]):
            if b <= n + 1:
                out.append(dict(n=n, b=b, inf=(n <= 3)))
    return out


def _cfg_batch2d(tier):
    return [dict(shape=(2, 2), b=b) for b in ((1, 2, 3) if tier == "quick" else (1, 2, 3, 4, 5))]


def _cfg_prop(tier):
    out = []
    for n in ([1, 2, 3] if tier == "quick" else [1, 2, 3, 4, 5]):
        for b in ([1, 2, 3] if tier == "quick" else [1, 2, 3, 4]):
            if b <= n + 1:
                out.append(dict(n=n, b=b))
    return out


HARNESSES = [
    Harness("rand_arg_1d", sym_argopt_1d, replay_argopt_1d, _cfg_1d, UNITS[:2] + UNITS[3:4],
            required_witnesses=("all_tied", "all_nan")),
    Harness("rand_arg_2d", sym_argopt_2d, replay_argopt_2d, _cfg_2d, UNITS[:2]),
    Harness("simple_batch_max", sym_batch_max, replay_batch_max, _cfg_batch, UNITS,
            required_witnesses=("all_tied",), concrete=concrete_batch_max),
    Harness("simple_batch_max_2d", sym_batch_max_2d, replay_batch_max_2d, _cfg_batch2d, UNITS),
    Harness("simple_batch_proportional", sym_batch_prop, replay_batch_prop, _cfg_prop, UNITS,
            required_witnesses=("single_positive",)),
    Harness("simple_batch_proportional_2d", sym_batch_prop_2d, replay_batch_prop_2d,
            lambda tier: [dict(shape=(2, 2), b=b) for b in ((1, 2) if tier == "quick" else (1, 2, 3))], UNITS,
            required_witnesses=("batch_of_two",)),
]

BOUNDS = dict(quick="1-D length <= 4 (inf allowed for <= 3), 2-D 2x2 (max and proportional), batch <= 3 (incl. batch > #candidates)",
              thorough="1-D length <= 6, 2-D up to 2x3, batch <= 4",
              outside="arrays longer than the bound, ndim > 2, signed zeros, draws equal to exactly 0.0")
ASSUMPTIONS = [
    "floats are modelled as extended reals (exact arithmetic, NaN/+inf/-inf tags); rounding is irrelevant here "
    "because the units only compare and copy values",
    "RandomState draws: random() in the open interval (0,1), uninterpreted function of (seed, draw history)",
    "sklearn.check_array / check_random_state replaced by their documented contracts (symx/stubs.py)",
    "proportional mode: utilities assumed >= 0 or NaN (documented use)",
    "tie fairness: decided as  forall array. tied-optimum(j) -> exists draws. result == j  (quantified LRA)",
]
