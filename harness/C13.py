"""C13 — fit is history-free and never rewrites constructor parameters.
PARAMFLOW over fit / partial_fit / predict* / query / update / query_by_utility of
every classifier, regressor, budget manager and stream strategy (z3 decides the
configuration that reaches a parameter write, a mutation through an alias of a
dict-valued parameter, or a read of fitted state before it is assigned in fit),
each feasible event replayed on the real class; plus SYMX on
SlidingWindowClassifier with a recording estimator."""
from __future__ import annotations

import importlib
import inspect
import os
import time

import numpy as np

from harness import common
from harness.C05 import DICT_CANDIDATES, relevant_params
from harness.common import Harness

PID = "C13"
MODULES = ("skactiveml.classifier", "skactiveml.classifier.multiannotator", "skactiveml.regressor", "skactiveml.stream",
           "skactiveml.stream.budgetmanager")
METHODS = ("fit", "partial_fit", "predict", "predict_proba", "predict_freq", "predict_target_distribution", "sample_y",
           "sample_proba", "query", "update", "query_by_utility", "predict_annotator_perf")


def _replay(K, entry, cfg, candidates=None):
    from paramflow import replay as R
    candidates = DICT_CANDIDATES if candidates is None else candidates
    if entry["kind"] == "estimator":
        return R.replay_estimator(K, entry, cfg, candidates)
    if entry["kind"] == "bm":
        return R.replay_bm(K, entry, cfg, candidates)
    return R.replay_stream(K, entry, cfg, candidates)


def paramflow_pass(tier, known):
    from paramflow.interp import Interp
    from paramflow import replay as R
    t0 = time.time()
    reg = R.build_registry(common.REPO)
    res = dict(violations=[], unconfirmed=[], errors=[], inconclusive=[], samples=[], states=0, transitions=0,
               obligations=0, proved=0, unsat=0, sat=0, functions={}, validated=0,
               coverage=dict(classes=[], events_by_kind={}, refuted_by_replay=[], confirmed=[], not_in_registry=[]))
    cov = res["coverage"]
    seen_cls = set()
    for modname in MODULES:
        mod = importlib.import_module(modname)
        for name in getattr(mod, "__all__", []):
            K = getattr(mod, name, None)
            if not inspect.isclass(K) or K in seen_cls or inspect.isabstract(K):
                continue
            seen_cls.add(K)
            entry = reg.get(K)
            for method in METHODS:
                if not hasattr(K, method):
                    continue
                it = Interp(K, method, max_paths=8000 if tier == "quick" else 20000).run()
                evs = it.feasible_events()
                res["states"] += it.paths
                res["transitions"] += it.queries
                res["sat"] += len(evs)
                res["obligations"] += 1
                cov["classes"].append(dict(cls=name, method=method, paths=it.paths, events=len(evs), truncated=it.truncated))
                for tag, file, line in it.functions:
                    res["functions"][tag] = dict(where=f"{os.path.relpath(file, common.REPO)}:{line}")
                if it.truncated:
                    res["inconclusive"].append(f"paramflow {name}.{method}: path budget reached")
                confirmed_here = 0
                for e in evs:
                    cov["events_by_kind"][e["kind"]] = cov["events_by_kind"].get(e["kind"], 0) + 1
                    if e["kind"] == "fits_caller_model":
                        continue  # fitting the wrapped estimator is what a wrapper's fit does; covered by C05 for strategies
                    if entry is None:
                        if name not in cov["not_in_registry"]:
                            cov["not_in_registry"].append(name)
                        continue
                    rel = relevant_params(it, e)
                    cfg = {p: v for p, v in e["config"].items() if "other" not in v and p in rel}
                    for tok in e["what"].replace(")", " ").replace(",", " ").split():
                        if tok.startswith("param:") and tok[6:] in DICT_CANDIDATES and cfg.get(tok[6:], {}).get("v", True) is not None:
                            cfg[tok[6:]] = {"dict": True}   # the aliased parameter is a caller-owned dict
                    try:
                        found = _replay(K, entry, cfg)
                    except Exception as ex:
                        found = [("error", repr(ex)[:100])]
                    res["validated"] += 1
                    wants = {"param_write": ("get_params_changed",), "alias_mutation": ("caller_object_mutated", "argument_mutated", "get_params_changed"),
                             "stale_read": ("fit_depends_on_history",)}.get(e["kind"], ())
                    hit = [f for f in found if f[0] in wants and (e["kind"] != "param_write" or e["what"] in f[1])]
                    if not hit and any(v == {"dict": True} for v in cfg.values()):
                        # defaults filled in lazily only show when the caller's dict does not contain the key yet
                        from harness.C05 import DICT_CANDIDATES_ALT
                        try:
                            f2 = _replay(K, entry, cfg, dict(DICT_CANDIDATES, **DICT_CANDIDATES_ALT))
                            res["validated"] += 1
                            hit = [f for f in f2 if f[0] in wants]
                        except Exception:
                            pass
                    desc = dict(cls=name, method=method, kind=e["kind"], what=e["what"][:80], where=f"{e['where']}:{e['line']}", config=cfg)
                    if hit:
                        confirmed_here += 1
                        cov["confirmed"].append(desc)
                        res["violations"].append(dict(
                            harness="paramflow_methods", label=hit[0][0], params=dict(cls=name, what=e["what"][:60] if e["kind"] == "param_write" else e["kind"]),
                            inputs=dict(config=cfg, test_registry=entry["test"]), info=dict(where=desc["where"], method=method),
                            detail=f"{name}({ {k: v.get('v', 'dict') for k, v in cfg.items()} }).{method}(...) [{desc['where']}]: {hit[0][1]}"))
                    else:
                        cov["refuted_by_replay"].append(dict(desc, replay=[f[1][:80] for f in found][:2]))
                if confirmed_here == 0:
                    res["proved"] += 1
                if len(res["samples"]) < 3 and evs:
                    res["samples"].append(dict(paramflow_event=dict(cls=name, method=method, **{k: evs[0][k] for k in ("kind", "what", "where", "line")})))
    cov["seconds"] = round(time.time() - t0, 2)
    # de-duplicate violations (same class / parameter reached through several methods)
    uniq = {}
    for v in res["violations"]:
        uniq.setdefault((v["params"]["cls"], v["params"]["what"], v["label"]), v)
    res["violations"] = list(uniq.values())
    return res


def replay_paramflow(inputs, label, cls, what):
    from paramflow import replay as R
    reg = R.build_registry(common.REPO)
    K = None
    for modname in MODULES:
        K = getattr(importlib.import_module(modname), cls, None)
        if K is not None:
            break
    found = _replay(K, reg[K], inputs.get("config"))
    hit = [f for f in found if f[0] == label]
    return bool(hit), (hit[0][1] if hit else "not reproduced")


HARNESSES = [Harness("paramflow_methods", lambda c: None, replay_paramflow, lambda tier: [], [])]
BOUNDS = dict(quick="every path (<= 3000 per method, helpers on self inlined to depth 3) of fit/partial_fit/predict*/query/update/"
                    "query_by_utility of all classes exported by skactiveml.classifier(.multiannotator), .regressor, .stream, "
                    ".stream.budgetmanager; constructor configurations over {None, True, False, compared literals, dict, other}",
              thorough="path budget 20000",
              outside="numerical behaviour of wrapped third-party estimators; aliasing through containers; histories longer than two fits")
ASSUMPTIONS = [
    "PARAMFLOW abstract domain as in C05; an event counts only if the solver's configuration reproduces on the real class: "
    "get_params(deep=True) before/after, digests of objects passed to the constructor, refit-vs-fresh-clone predictions "
    "(data from the repository's own test fixtures)",
]


def main(tier, seed, only):
    return common.run_property(PID, "harness.C13", tier, seed, "", ASSUMPTIONS, BOUNDS, only=only, extra=paramflow_pass)


# ---------------------------------------------------------------- SlidingWindowClassifier (SYMX, dual scenario)
def sc_sliding(d, window, only_labeled, nops, weights, buffer=False):
    """after any sequence of fit / partial_fit calls the wrapped classifier is (re)fitted on exactly the last
    `window` samples it was given (only the labeled ones with only_labeled=True)"""
    from harness.C19 import make_recording
    from skactiveml.classifier import SlidingWindowClassifier
    inner = make_recording(False, d.np)
    clf = SlidingWindowClassifier(inner, classes=[0.0, 1.0], window_size=window, only_labeled=only_labeled)
    ref = []
    # buffer=True: the caller re-uses ONE array object for every call and overwrites it in place (a stream reader's buffer):
    # the window must hold the values that were handed over, not views of the caller's buffer
    buf = d.arr([[0.0]], shape=(1, 1)) if buffer else None
    for step in range(nops):
        op = "fit" if step == 0 else d.choose(f"op{step}", ["partial_fit", "fit"])
        m = 1 if buffer else d.choose(f"size{step}", [1, 2])
        lab = [d.choose(f"label{step}_{i}", [-1, 0]) for i in range(m)]   # (which class is irrelevant here)
        xs = [d.fl(f"x{step}_{i}") for i in range(m)]
        ws = [d.fl(f"w{step}_{i}", lo=0.0) for i in range(m)] if weights else None
        if buffer:
            buf[0, 0] = xs[0]
            X = buf
        else:
            X = d.arr([[x] for x in xs], shape=(m, 1))
        y = d.arr([float("nan") if k < 0 else float(k) for k in lab])
        sw = d.arr(ws) if weights else None
        getattr(clf, op)(X, y, sample_weight=sw)
        new = [(xs[i], float("nan") if lab[i] < 0 else float(lab[i]), ws[i] if weights else None) for i in range(m)
               if not (only_labeled and lab[i] < 0)]
        ref = (new if op == "fit" else ref + new)[-window:]
        got = list(getattr(clf.estimator_, "train_", []))
        d.prove(len(got) == len(ref), "inner_fit_on_last_window_size_samples:size", info=dict(step=step, op=op, got=len(got), expected=len(ref)))
        if len(got) == len(ref):
            for g, e in zip(got, ref):
                d.prove(d.eq(g[0], e[0]), "inner_fit_on_last_window_size_samples:rows", info=dict(step=step, op=op))
                d.prove(d.eq(g[1], e[1]), "inner_fit_on_last_window_size_samples:labels", info=dict(step=step, op=op))
                if e[2] is None or g[2] is None:
                    d.prove(e[2] is None and g[2] is None, "inner_fit_on_last_window_size_samples:weights", info=dict(step=step, op=op))
                else:
                    d.prove(d.eq(g[2], e[2]), "inner_fit_on_last_window_size_samples:weights", info=dict(step=step, op=op))
    d.witness(True, "ran")


from harness.common import dual_harness  # noqa: E402

HARNESSES.append(dual_harness(
    "sliding_window_classifier", sc_sliding,
    lambda tier: [dict(window=w, only_labeled=ol, nops=n, weights=wt) for w in (2, 3) for ol in (False, True)
                  for n in ((2, 3) if tier == "quick" else (2, 3, 4)) for wt in (False, True) if not (tier == "quick" and n == 3 and w == 3)]
    + [dict(window=2, only_labeled=ol, nops=3, weights=False, buffer=True) for ol in (False, True)],
    ["skactiveml.classifier._wrapper:SlidingWindowClassifier.fit", "skactiveml.classifier._wrapper:SlidingWindowClassifier.partial_fit",
     "skactiveml.classifier._wrapper:SlidingWindowClassifier._add_samples", "skactiveml.classifier._wrapper:SlidingWindowClassifier._fit"],
    required_witnesses=("ran",), max_paths=40000))


# ---------------------------------------------------------------- refit = fresh fit (history-carrying wrapped estimators)
def _warm_classifier(npm, weightless=False):
    """a scikit-learn classifier whose fit ACCUMULATES what it has seen (warm_start-like): if a wrapper re-fits the
    object of an earlier fit instead of a fresh copy, the log has more than one entry"""
    from sklearn.base import BaseEstimator, ClassifierMixin

    class Warm(ClassifierMixin, BaseEstimator):
        def fit(self, X, y, sample_weight=None):
            self.fit_log_ = list(getattr(self, "fit_log_", [])) + [(X, y, sample_weight)]
            self.classes_ = npm.unique(y)
            return self

        def predict_proba(self, X):
            raise NotImplementedError

    class WarmWeightless(ClassifierMixin, BaseEstimator):
        """an estimator whose fit takes no sample_weight (like KNeighborsClassifier or GaussianProcessClassifier)"""

        def fit(self, X, y):
            self.fit_log_ = list(getattr(self, "fit_log_", [])) + [(X, y, None)]
            self.classes_ = npm.unique(y)
            return self

        def predict_proba(self, X):
            raise NotImplementedError
    return WarmWeightless() if weightless else Warm()


def _warm_regressor(npm):
    from sklearn.base import BaseEstimator, RegressorMixin

    class WarmReg(RegressorMixin, BaseEstimator):
        def fit(self, X, y, sample_weight=None):
            self.fit_log_ = list(getattr(self, "fit_log_", [])) + [(X, y, sample_weight)]
            return self

        def predict(self, X, return_std=False):
            raise NotImplementedError
    return WarmReg()


def sc_refit(d, kind, n1, n2):
    """fit(D1) then fit(D2) on one object: the wrapped estimator must have been trained on D2 only, exactly once"""
    NAN = float("nan")

    def data(tag, n):
        xs = [d.fl(f"x{tag}_{i}") for i in range(n)]
        lab = [d.choose(f"label{tag}_{i}", [-1, 0, 1]) for i in range(n)]
        if kind == "classifier":
            yv = [NAN if k < 0 else float(k) for k in lab]
        else:
            yv = [NAN if k < 0 else d.fl(f"y{tag}_{i}") for i, k in enumerate(lab)]
        return xs, lab, yv, d.arr([[x] for x in xs], shape=(n, 1)), d.arr(yv)
    if kind == "classifier":
        from skactiveml.classifier import SklearnClassifier
        est = SklearnClassifier(_warm_classifier(d.np), classes=[0.0, 1.0])
    elif kind == "regressor":
        from skactiveml.regressor import SklearnRegressor
        est = SklearnRegressor(_warm_regressor(d.np))
    else:
        from skactiveml.regressor import SklearnNormalRegressor
        est = SklearnNormalRegressor(_warm_regressor(d.np))
    xs1, lab1, yv1, X1, y1 = data("a", n1)
    xs2, lab2, yv2, X2, y2 = data("b", n2)
    est.fit(X1, y1)
    est.fit(X2, y2)
    keep = [i for i in range(n2) if lab2[i] >= 0]
    log = getattr(est.estimator_, "fit_log_", [])
    if kind == "classifier" and not keep:
        d.prove(len(log) == 0, "second_fit_uses_a_fresh_estimator", info=dict(fits_seen=len(log)))
        # the fallback statistics (label counts) are fitted state too: a refit on data without any label predicts like a
        # fresh object fitted on that data, not from the label counts of the first fit
        from symx import core
        Xq = d.arr([[d.fl("q0")]], shape=(1, 1))
        try:
            p_used = est.predict_proba(Xq)
            fresh = SklearnClassifier(_warm_classifier(d.np), classes=[0.0, 1.0]).fit(X2, y2)
            p_fresh = fresh.predict_proba(Xq)
        except (core.Unencodable, core.PathAbort):
            raise
        except Exception as e:
            d.prove(False, "refit_without_labels_predicts", info=dict(error=repr(e)[:160]))
            return
        d.prove(d.eq_arr(p_used, p_fresh, 1e-12), "refit_without_labels_predicts_like_a_fresh_fit",
                info=dict(labels_in_first_fit=sum(1 for k in lab1 if k >= 0)))
        d.witness(True, "second_fit_without_labels")
        return
    d.prove(len(log) == 1, "second_fit_uses_a_fresh_estimator", info=dict(fits_seen=len(log)))
    if len(log) >= 1:
        Xr, yr, _ = log[-1]
        d.prove(d.eq_arr(Xr, d.arr([[xs2[i]] for i in keep], shape=(len(keep), 1))), "second_fit_sees_only_second_data:rows")
        if kind == "classifier":
            d.prove(d.eq_arr(yr, d.arr([float(lab2[i]) for i in keep])), "second_fit_sees_only_second_data:labels")
        else:
            d.prove(d.eq_arr(yr, d.arr([yv2[i] for i in keep])), "second_fit_sees_only_second_data:labels")
    d.witness(any(k >= 0 for k in lab1) and bool(keep), "both_fits_with_labels")


HARNESSES.append(dual_harness(
    "refit_history_free", sc_refit,
    lambda tier: [dict(kind=k, n1=a, n2=b) for k in ("classifier", "regressor", "normal_regressor")
                  for a, b in (((2, 2),) if tier == "quick" else ((2, 2), (1, 3), (3, 2)))],
    ["skactiveml.classifier._wrapper:SklearnClassifier._fit", "skactiveml.regressor._wrapper:SklearnRegressor._fit"],
    required_witnesses=("both_fits_with_labels",)))


def sc_param_objects(d, kind):
    """estimator-valued constructor parameters are never fitted or replaced by fit: the fitted copy lives in the
    trailing-underscore attribute (MixtureModelClassifier.mixture_model, SklearnClassifier/Regressor.estimator,
    SlidingWindowClassifier.estimator)"""
    NAN = float("nan")
    X = d.arr([[0.0], [1.0]], shape=(2, 1))
    lab = [d.choose(f"label{i}", [-1, 0, 1]) for i in range(2)]
    y = d.arr([NAN if k < 0 else float(k) for k in lab])
    if kind == "mixture":
        from harness.C11 import _stub_mixture
        from skactiveml.classifier import MixtureModelClassifier
        param = _stub_mixture(d, 2)
        est = MixtureModelClassifier(mixture_model=param, classes=[0.0, 1.0])
        fitted_attr, param_name = "mixture_model_", "mixture_model"
    elif kind == "sklearn_classifier":
        from skactiveml.classifier import SklearnClassifier
        param = _warm_classifier(d.np)
        est = SklearnClassifier(param, classes=[0.0, 1.0])
        fitted_attr, param_name = "estimator_", "estimator"
    elif kind == "sliding_window":
        from harness.C19 import make_recording
        from skactiveml.classifier import SlidingWindowClassifier
        param = make_recording(False, d.np)
        est = SlidingWindowClassifier(param, classes=[0.0, 1.0], window_size=2)
        fitted_attr, param_name = "estimator_", "estimator"
    else:
        from skactiveml.regressor import SklearnRegressor
        param = _warm_regressor(d.np)
        est = SklearnRegressor(param)
        fitted_attr, param_name = "estimator_", "estimator"
    before = sorted(vars(param))
    est.fit(X, y)
    d.prove(getattr(est, param_name) is param, "fit_keeps_the_parameter_object", info=dict(parameter=param_name))
    d.prove(getattr(est, fitted_attr, None) is not param, "fitted_copy_is_not_the_parameter", info=dict(attribute=fitted_attr))
    d.prove(sorted(vars(param)) == before, "fit_leaves_the_parameter_unfitted",
            info=dict(new_attributes=[k for k in vars(param) if k not in before]))
    d.witness(any(k >= 0 for k in lab), "some_labeled")


HARNESSES.append(dual_harness(
    "estimator_parameters_untouched", sc_param_objects,
    lambda tier: [dict(kind=k) for k in ("mixture", "sklearn_classifier", "sliding_window", "sklearn_regressor")],
    ["skactiveml.classifier._mixture_model_classifier:MixtureModelClassifier.fit", "skactiveml.classifier._wrapper:SklearnClassifier._fit",
     "skactiveml.classifier._wrapper:SlidingWindowClassifier.fit", "skactiveml.regressor._wrapper:SklearnRegressor._fit"],
    required_witnesses=("some_labeled",)))
