"""C17 — annotation aggregation equals plain counting.
compute_vote_vectors / majority_vote / ext_confusion_matrix executed on the real
code; label patterns are enumerated by the path explorer (k-ary forks), weights
and random draws are symbolic and decided by z3."""
from __future__ import annotations

import numpy as np
import z3

from harness.common import Harness, rec, collect_reach
from symx import arrays, core, facade
from symx.core import b_and, b_not, b_or, boolexpr, fresh_float, fresh_int, s_eq, s_le

PID = "C17"
F = facade.FACADE

ENC = {
    "float_nan": dict(classes=[0.0, 1.0, 2.0], missing=float("nan"), dtype=float),
    "int_m1": dict(classes=[10, 20, 30], missing=-1, dtype=int),
    "str_nan": dict(classes=["a", "b", "c"], missing="nan", dtype="<U3"),
    "obj_none": dict(classes=["a", "b", "c"], missing=None, dtype=object),
}


def _util():
    import skactiveml.utils as u
    return u


def gen_labels(c, n, A, K, enc, name="y", allow_missing=True):
    """label matrix with every entry chosen by the explorer; returns (index matrix, array)"""
    e = ENC[enc]
    idx = np.empty((n, A), dtype=int)
    for i in range(n):
        for a in range(A):
            opts = [(k, True) for k in range(K)]
            if allow_missing:
                opts = [(-1, True)] + opts
            idx[i, a] = c.choose(opts, f"{name}[{i},{a}]")
    return idx, labels_from_idx(idx, K, enc)


def labels_from_idx(idx, K, enc, sym=True):
    e = ENC[enc]
    vals = np.empty(idx.shape, dtype=object)
    for p in np.ndindex(idx.shape):
        vals[p] = e["missing"] if idx[p] < 0 else e["classes"][idx[p]]
    real = np.array(vals.tolist(), dtype=e["dtype"]) if e["dtype"] is not object else vals
    return arrays.SymNd(real, e["dtype"]) if sym else real


def _kw(enc, K, with_classes):
    e = ENC[enc]
    kw = dict(missing_label=e["missing"])
    if with_classes:
        kw["classes"] = e["classes"][:K]
    return kw


# ---------------------------------------------------------------- compute_vote_vectors
def sym_votes(c, n, A, K, enc, weighted):
    u = _util()
    idx, y = gen_labels(c, n, A, K, enc)
    rec(c, "label_idx", idx.tolist())
    w = None
    ws = None
    if weighted:
        ws = [[fresh_float(f"w{i}_{a}", nan=True) for a in range(A)] for i in range(n)]
        for row in ws:
            for x in row:
                c.assume(b_or(x.nan, x.r >= 0))
        w = arrays.SymNd(arrays._to_obj(ws), float)
        rec(c, "w", w.copy())
    V = u.compute_vote_vectors(y, w=w, **_kw(enc, K, True))
    c.prove(tuple(V.shape) == (n, K), "shape")
    rv = arrays.raw(arrays.asnd(V))
    for i in range(n):
        for k in range(K):
            acc = np.float64(0.0)
            for a in range(A):
                if idx[i, a] == k:
                    wv = np.float64(1.0) if ws is None else core.f_ite(ws[i][a].nan, np.float64(0.0), ws[i][a])
                    acc = core.s_add(acc, wv)
            c.prove(s_eq(rv[i, k], acc), "votes_equal_weighted_count", info=dict(i=i, k=k))
    if ws is not None and (idx < 0).any():
        # labels are acquired and the caller's weight array is handed over again: the votes are those of the caller's
        # weights (the first call must not have written into the array)
        idx2 = np.where(idx < 0, 0, idx)
        V2 = u.compute_vote_vectors(labels_from_idx(idx2, K, enc), w=w, **_kw(enc, K, True))
        rv2 = arrays.raw(arrays.asnd(V2))
        for i in range(n):
            for k in range(K):
                acc = np.float64(0.0)
                for a in range(A):
                    if idx2[i, a] == k:
                        acc = core.s_add(acc, core.f_ite(ws[i][a].nan, np.float64(0.0), ws[i][a]))
                c.prove(s_eq(rv2[i, k], acc), "votes_for_reused_weight_array", info=dict(i=i, k=k))
    c.witness((idx < 0).all(), "all_missing")


def _ref_votes(idx, w, K):
    n, A = idx.shape
    V = np.zeros((n, K))
    for i in range(n):
        for a in range(A):
            if idx[i, a] >= 0:
                wv = 1.0 if w is None else (0.0 if np.isnan(w[i, a]) else w[i, a])
                V[i, idx[i, a]] += wv
    return V


def replay_votes(inputs, label, n, A, K, enc, weighted):
    u = _util()
    idx = np.array(inputs["label_idx"], dtype=int).reshape(n, A)
    y = labels_from_idx(idx, K, enc, sym=False)
    w = np.array(inputs["w"], dtype=float).reshape(n, A) if weighted else None
    V = u.compute_vote_vectors(y, w=None if w is None else w.copy(), **_kw(enc, K, True))
    ref = _ref_votes(idx, w, K)
    if label == "shape":
        return V.shape != (n, K), f"shape {V.shape}"
    if V.shape == ref.shape and not np.allclose(V, ref):
        return True, f"y={y.tolist()} w={None if w is None else w.tolist()}: votes {V.tolist()} expected {ref.tolist()}"
    if w is not None and (idx < 0).any():
        w_caller = w.copy()
        u.compute_vote_vectors(y, w=w_caller, **_kw(enc, K, True))
        idx2 = np.where(idx < 0, 0, idx)
        V2 = u.compute_vote_vectors(labels_from_idx(idx2, K, enc, sym=False), w=w_caller, **_kw(enc, K, True))
        ref2 = _ref_votes(idx2, w, K)
        if V2.shape == ref2.shape and not np.allclose(V2, ref2):
            return True, (f"y={y.tolist()} then all labels given, same weight array w={w.tolist()}: votes {V2.tolist()} "
                          f"expected {ref2.tolist()} (array after the first call: {w_caller.tolist()})")
    return False, "not reproduced"


# ---------------------------------------------------------------- majority_vote
def sym_majority(c, n, A, K, enc, weighted):
    u = _util()
    idx, y = gen_labels(c, n, A, K, enc)
    rec(c, "label_idx", idx.tolist())
    e = ENC[enc]
    ws = None
    w = None
    if weighted:
        ws = [[fresh_float(f"w{i}_{a}", nan=True) for a in range(A)] for i in range(n)]
        for row in ws:
            for x in row:
                c.assume(b_or(x.nan, x.r >= 0))
        w = arrays.SymNd(arrays._to_obj(ws), float)
        rec(c, "w", w.copy())
    seed = fresh_int("seed", 0, 2 ** 32 - 1)
    rec(c, "seed", seed)
    r = u.majority_vote(y, w=w, random_state=seed, **_kw(enc, K, True))
    c.prove(tuple(r.shape) == (n,), "shape")
    rr = list(arrays.raw(arrays.asnd(r)))
    winners = []
    prem = []
    for i in range(n):
        votes = []
        for k in range(K):
            acc = np.float64(0.0)
            for a in range(A):
                if idx[i, a] == k:
                    wv = np.float64(1.0) if ws is None else core.f_ite(ws[i][a].nan, np.float64(0.0), ws[i][a])
                    acc = core.s_add(acc, wv)
            votes.append(acc)
        if (idx[i] < 0).all():
            v = rr[i]
            ok = (v is None) if e["missing"] is None else ((isinstance(v, float) and np.isnan(v)) if isinstance(e["missing"], float) and np.isnan(e["missing"]) else v == e["missing"])
            c.prove(bool(ok), "unlabeled_row_gets_sentinel", info=dict(i=i, got=repr(v)))
            winners.append(None)
            continue
        cls = e["classes"][:K]
        try:
            kk = [j for j, cv in enumerate(cls) if cv == rr[i]][0]
        except IndexError:
            c.prove(False, "result_is_a_class", info=dict(i=i, got=repr(rr[i])))
            return
        winners.append(kk)
        cond = b_and(*[boolexpr(s_le(votes[k], votes[kk])) for k in range(K)])
        c.prove(cond, "winner_has_maximal_vote", info=dict(i=i, winner=kk))
        prem.append(cond)
    # every tied winner reachable for some draws (cross-path obligation)
    if not weighted:  # (with symbolic weights the quantified query exceeds the solver budget)
        collect_reach(c, "tie_fairness", tuple(winners), b_and(*prem))


def replay_majority(inputs, label, n, A, K, enc, weighted):
    u = _util()
    e = ENC[enc]
    idx = np.array(inputs["label_idx"], dtype=int).reshape(n, A)
    y = labels_from_idx(idx, K, enc, sym=False)
    w = np.array(inputs["w"], dtype=float).reshape(n, A) if weighted else None
    ref = _ref_votes(idx, w, K)
    cls = e["classes"][:K]
    reached = set()
    for seed in [int(inputs.get("seed", 0)) % 2 ** 32] + list(range(120)):
        r = u.majority_vote(y.copy(), w=None if w is None else w.copy(), random_state=seed, **_kw(enc, K, True))
        if r.shape != (n,):
            return label == "shape", f"shape {r.shape}"
        win = []
        for i in range(n):
            v = r[i]
            if (idx[i] < 0).all():
                ok = (v is None) if e["missing"] is None else ((isinstance(v, float) and np.isnan(v)) if isinstance(e["missing"], float) else v == e["missing"])
                if not ok and label == "unlabeled_row_gets_sentinel":
                    return True, f"y={y.tolist()}: row {i} -> {v!r}"
                win.append(None)
                continue
            ks = [j for j, cv in enumerate(cls) if cv == v]
            if not ks:
                if label == "result_is_a_class":
                    return True, f"y={y.tolist()}: row {i} -> {v!r}"
                win.append(None)
                continue
            win.append(ks[0])
            if label == "winner_has_maximal_vote" and ref[i, ks[0]] < ref[i].max():
                return True, f"y={y.tolist()} w={None if w is None else w.tolist()}: row {i} -> {v!r}, votes {ref[i].tolist()}"
        reached.add(tuple(win))
    if label == "tie_fairness":
        import itertools
        per = []
        for i in range(n):
            if (idx[i] < 0).all():
                per.append([None])
            else:
                per.append([k for k in range(K) if ref[i, k] == ref[i].max()])
        want = set(itertools.product(*per))
        if not want <= reached:
            return True, f"y={y.tolist()}: tied winners {sorted(want, key=str)} but only {sorted(reached, key=str)} reached"
    return False, "not reproduced"


# ---------------------------------------------------------------- ext_confusion_matrix
def _ref_conf(ti, pi, K, normalize):
    n, A = pi.shape
    out = np.zeros((A, K, K))
    for a in range(A):
        C = np.zeros((K, K))
        for i in range(n):
            if pi[i, a] >= 0:
                C[ti[i], pi[i, a]] += 1
        with np.errstate(all="ignore"):
            if normalize == "true":
                C = np.nan_to_num(C / C.sum(axis=1, keepdims=True), nan=1 / K)
            elif normalize == "pred":
                C = np.nan_to_num(C / C.sum(axis=0, keepdims=True), nan=1 / K)
            elif normalize == "all":
                C = np.nan_to_num(C / C.sum(), nan=1 / (K * K))
        out[a] = C
    return out


def sym_conf(c, n, A, K, enc, normalize):
    u = _util()
    ti, yt = gen_labels(c, n, 1, K, enc, name="t", allow_missing=False)
    pi, yp = gen_labels(c, n, A, K, enc, name="p")
    rec(c, "true_idx", ti.tolist())
    rec(c, "pred_idx", pi.tolist())
    R = u.ext_confusion_matrix(yt.reshape(-1), yp, normalize=normalize, **_kw(enc, K, True))
    c.prove(tuple(R.shape) == (A, K, K), "shape")
    ref = _ref_conf(ti.reshape(-1), pi, K, normalize)
    rr = arrays.raw(arrays.asnd(R))
    for p in np.ndindex(ref.shape):
        c.prove(s_eq(rr[p], np.float64(ref[p])) if abs(ref[p] - round(ref[p])) < 1e-12 or True else True,
                "confusion_counts" if normalize is None else "confusion_normalised", info=dict(pos=list(p)))


def replay_conf(inputs, label, n, A, K, enc, normalize):
    u = _util()
    ti = np.array(inputs["true_idx"], dtype=int).reshape(n, 1)
    pi = np.array(inputs["pred_idx"], dtype=int).reshape(n, A)
    yt = labels_from_idx(ti, K, enc, sym=False).reshape(-1)
    yp = labels_from_idx(pi, K, enc, sym=False)
    R = u.ext_confusion_matrix(yt, yp, normalize=normalize, **_kw(enc, K, True))
    ref = _ref_conf(ti.reshape(-1), pi, K, normalize)
    if label == "shape":
        return R.shape != ref.shape, f"{R.shape}"
    if R.shape == ref.shape and not np.allclose(R, ref):
        return True, (f"ext_confusion_matrix(y_true={yt.tolist()}, y_pred={yp.tolist()}, normalize={normalize!r}) = "
                      f"{R.tolist()} expected {ref.tolist()}")
    return False, "not reproduced"


# ----------------------------------------------------------------
def _cfg_votes(tier):
    out = []
    encs = ["float_nan", "int_m1"] if tier == "quick" else list(ENC)
    for enc in encs:
        for (n, A, K) in ([(2, 2, 2), (1, 2, 3)] if tier == "quick" else [(2, 2, 2), (1, 2, 3), (3, 2, 2), (2, 3, 2), (2, 2, 3)]):
            for wt in (False, True):
                out.append(dict(n=n, A=A, K=K, enc=enc, weighted=wt))
    return out


def _cfg_major(tier):
    # the weighted 3x2 / 2x3 matrices do not finish within the per-configuration budget (path explosion over symbolic weight
    # comparisons): weighted majority votes are covered up to 2x3 / 2x2x3 only; the largest shapes use two encodings
    out = []
    for c in _cfg_votes(tier):
        big = (c["n"], c["A"], c["K"]) in ((3, 2, 2), (2, 3, 2), (2, 2, 3))
        if big and c["enc"] not in ("float_nan", "str_nan"):
            continue
        if (c["n"], c["A"], c["K"]) in ((3, 2, 2), (2, 3, 2)) and c["weighted"]:
            continue
        out.append(c)
    return out


def _cfg_conf(tier):
    out = []
    encs = ["float_nan", "str_nan"] if tier == "quick" else list(ENC)
    for enc in encs:
        for (n, A, K) in ([(2, 1, 2), (2, 2, 2)] if tier == "quick" else [(2, 1, 2), (2, 2, 2), (3, 2, 2), (2, 2, 3), (3, 1, 3)]):
            for nz in (None, "true", "pred", "all"):
                out.append(dict(n=n, A=A, K=K, enc=enc, normalize=nz))
    return out


UNITS = ["skactiveml.utils._aggregation:compute_vote_vectors", "skactiveml.utils._aggregation:majority_vote",
         "skactiveml.utils._multi_annot:ext_confusion_matrix", "skactiveml.utils._label_encoder:ExtLabelEncoder",
         "skactiveml.utils._label:is_unlabeled", "skactiveml.utils._selection:rand_argmax"]

HARNESSES = [
    Harness("vote_vectors", sym_votes, replay_votes, _cfg_votes, UNITS[:1] + UNITS[3:5], required_witnesses=("all_missing",)),
    Harness("majority_vote", sym_majority, replay_majority, _cfg_major, UNITS[:2] + UNITS[3:]),
    Harness("ext_confusion_matrix", sym_conf, replay_conf, _cfg_conf, UNITS[2:5]),
]

BOUNDS = dict(quick="n <= 2 samples, A <= 2 annotators, K <= 3 classes; encodings float/NaN, int/-1, str/'nan'; all label and "
                    "missing patterns (enumerated by forking), weights symbolic >= 0 or NaN, symbolic seed",
              thorough="label matrices 2x2, 1x2, 3x2, 2x3 (K=2) and 2x2 (K=3), all four encodings (3x2 / 2x3: two encodings for "
                       "majority_vote, and unweighted only - the weighted ones exceed the per-configuration budget)",
              outside="larger matrices; negative weights (not claimed); classes=None inference is exercised only via majority_vote")
ASSUMPTIONS = [
    "sklearn LabelEncoder / confusion_matrix / check_array replaced by their documented contracts (symx/stubs.py)",
    "label patterns are discrete: the explorer forks over every entry in {missing, class 0..K-1}; the solver decides the "
    "obligations over weights and random draws on each pattern",
    "exact real arithmetic for weighted sums",
]
