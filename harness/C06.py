"""C06 — results are reproducible for a fixed random_state.
Non-interference by self-composition over RNG streams: the same unit is run
under two DIFFERENT process-global generator streams (disjoint solver
constants), on a repeated call and on a freshly constructed twin object; all
outputs must coincide. If any path lets a global draw influence the result, z3
finds draws on which the outputs differ."""
from __future__ import annotations

import copy
import inspect

import numpy as np
import z3

from harness import poollib as pl
from harness import streamlib as sl
from harness import models
from harness.common import Harness, rec
from symx import arrays, core, facade
from symx.core import b_and, b_or, boolexpr, s_eq

PID = "C06"
F = facade.FACADE


def make_rng_clusterer():
    """KMeans-like clusterer by contract: labels are drawn from the generator given as random_state, and from the
    process-global generator when random_state is None (scikit-learn's documented behaviour)"""
    class RngClusterer:
        def __init__(self, n_clusters=2, random_state=None, **kw):
            self.n_clusters = n_clusters
            self.random_state = random_state

        def _rng(self):
            return facade.check_random_state_stub(self.random_state)

        def fit_predict(self, X, y=None, sample_weight=None):
            labs = self._rng().randint(0, self.n_clusters, size=len(X))
            return labs

        def fit_transform(self, X, y=None, sample_weight=None):
            u = self._rng().random_sample((len(X), self.n_clusters))
            return u
    return RngClusterer


class ATypiClustRng(pl.ATypiClust):
    name = "TypiClust[rng-clusterer]"

    def make(self, seed, sym=True, inputs=None, **kw):
        if sym:
            return pl.pool().TypiClust(random_state=seed, cluster_algo=make_rng_clusterer(), k=1)
        return pl.pool().TypiClust(random_state=seed, k=1)     # the real KMeans


class AClueRng(pl.AClue):
    def __init__(self):
        super().__init__("least_confident")
        self.name = "Clue[rng-clusterer]"

    def make(self, seed, sym=True, inputs=None, **kw):
        if sym:
            return pl.pool().Clue(random_state=seed, cluster_algo=make_rng_clusterer(), method=self.method)
        return pl.pool().Clue(random_state=seed, method=self.method)     # the real KMeans


class AProbCoverRng(pl.AProbCover):
    name = "ProbCover[rng-clusterer]"

    def make(self, seed, sym=True, inputs=None, **kw):
        if sym:
            return pl.pool().ProbCover(random_state=seed, cluster_algo=make_rng_clusterer(), deltas=[0.5, 1.0],
                                       distance_func=pl._sym_abs_distances)
        return pl.pool().ProbCover(random_state=seed, deltas=[0.5, 1.0])     # the real KMeans


class ADropQueryRng(pl.ADropQuery):
    name = "DropQuery[rng-clusterer]"

    def make(self, seed, sym=True, inputs=None, **kw):
        if sym:
            return pl.pool().DropQuery(random_state=seed, cluster_algo=make_rng_clusterer(), n_dropout_samples=3, dropout_rate=0.5)
        return pl.pool().DropQuery(random_state=seed, n_dropout_samples=3, dropout_rate=0.5)     # the real KMeans


class ASubSampling(pl.AUncertainty):
    """SubSamplingWrapper around UncertaintySampling: the sub-sample is a draw of the wrapper's own generator"""

    def __init__(self):
        super().__init__("least_confident")
        self.name = "SubSamplingWrapper[UncertaintySampling]"
        self.units = ["skactiveml.pool._wrapper:SubSamplingWrapper.query"]

    def make(self, seed, sym=True, inputs=None, **kw):
        P = pl.pool()
        inner = P.UncertaintySampling(method="least_confident", random_state=seed)
        return P.SubSamplingWrapper(query_strategy=inner, max_candidates=2, random_state=seed)

    def call(self, qs, s, b, sym, table=None, return_utilities=True):
        return qs.query(s.X, s.y, clf=self.clf(sym, table, s.K), fit_clf=False, candidates=s.cand, batch_size=b,
                        return_utilities=return_utilities)


class AParallel(ASubSampling):
    def __init__(self):
        super().__init__()
        self.name = "ParallelUtilityEstimationWrapper[UncertaintySampling]"
        self.units = ["skactiveml.pool._wrapper:ParallelUtilityEstimationWrapper.query"]

    def make(self, seed, sym=True, inputs=None, **kw):
        P = pl.pool()
        inner = P.UncertaintySampling(method="least_confident", random_state=seed)
        return P.ParallelUtilityEstimationWrapper(query_strategy=inner, n_jobs=2, random_state=seed)

    def call(self, qs, s, b, sym, table=None, return_utilities=True):
        return qs.query(s.X, s.y, clf=self.clf(sym, table, s.K), fit_clf=False, candidates=s.cand, batch_size=1,
                        return_utilities=return_utilities)


def _sampling_classifier():
    """ensemble whose predictions are SAMPLED: sample_proba draws from the generator it is handed - the process-global one
    when random_state is None (the behaviour of ClassFrequencyEstimator.sample_proba)"""
    from skactiveml.base import SkactivemlClassifier

    class SamplingClf(SkactivemlClassifier):
        def fit(self, X, y, sample_weight=None):
            self.classes_ = np.arange(2)
            return self

        def predict_proba(self, X):
            raise core.Unencodable("predict_proba of the sampling ensemble")

        def sample_proba(self, X, n_samples=2, random_state=None):
            rng = facade.check_random_state_stub(random_state)
            u = rng.random_sample((n_samples, len(X)))
            return F.stack([u, 1 - u], axis=-1)
    clf = SamplingClf(classes=[0, 1])
    clf.classes_ = np.arange(2)
    return clf


class AQBCSample(pl.AQBC):
    """QueryByCommittee whose committee is sampled from one probabilistic classifier (sample_predictions_method_name)"""

    def __init__(self):
        super().__init__("KL_divergence")
        self.name = "QueryByCommittee[sample_proba]"

    def make(self, seed, sym=True, inputs=None, **kw):
        return pl.pool().QueryByCommittee(random_state=seed, sample_predictions_method_name="sample_proba",
                                          sample_predictions_dict={"n_samples": 2}, **kw)

    def ensemble(self, sym, table, K):
        if sym:
            return _sampling_classifier()
        from skactiveml.classifier import ParzenWindowClassifier
        return ParzenWindowClassifier(classes=[0, 1], class_prior=1.0, random_state=0).fit(np.array([[-1.0], [0.5], [2.0]]), np.array([0, 1, 0]))

    def call(self, qs, s, b, sym, table=None, return_utilities=True):
        return qs.query(s.X, s.y, self.ensemble(sym, table, s.K), fit_ensemble=False, candidates=s.cand, batch_size=b,
                        return_utilities=return_utilities)


_RNG_VARIANTS = {"QueryByCommittee[sample_proba]": AQBCSample,
                 "TypiClust[rng-clusterer]": ATypiClustRng, "Clue[rng-clusterer]": AClueRng, "ProbCover[rng-clusterer]": AProbCoverRng,
                 "DropQuery[rng-clusterer]": ADropQueryRng,
                 "SubSamplingWrapper[UncertaintySampling]": ASubSampling,
                 "ParallelUtilityEstimationWrapper[UncertaintySampling]": AParallel}


def _adapter(name):
    if name in _RNG_VARIANTS:
        return _RNG_VARIANTS[name]()
    return pl.ADAPTERS[name]


def _same_out(o1, o2):
    i1, u1 = o1
    i2, u2 = o2
    if [int(i) for i in i1] != [int(i) for i in i2]:
        return False
    r1, r2 = arrays.raw(arrays.asnd(u1)), arrays.raw(arrays.asnd(u2))
    if r1.shape != r2.shape:
        return False
    return b_and(*[b_or(boolexpr(s_eq(a, b)), b_and(pl.is_nan_z(a), pl.is_nan_z(b))) for a, b in zip(r1.reshape(-1), r2.reshape(-1))])


def sym_pool(c, strat, n, mode, b, rs="int"):
    a = _adapter(strat)
    s = pl.gen_scenario(c, n, mode, b, independent=a.independent)
    facade.set_global_seed(z3.Int("G1"))
    if rs == "instance":
        # random_state given as a RandomState INSTANCE shared by the original and its twin
        inst = facade.SymRandomState(s.seed)
        seed_arg = inst
    else:
        seed_arg = s.seed
    s_seed = s.seed
    s.seed = seed_arg
    qs = a.make(s.seed, sym=True)
    o1 = a.call(qs, s, b, True)
    o1b = a.call(qs, s, b, True)
    c.prove(_same_out(o1, o1b), "repeated_call_same_result", info=dict(first=[int(i) for i in o1[0]], second=[int(i) for i in o1b[0]]))
    facade.set_global_seed(z3.Int("G2"))
    twin = a.make(s.seed, sym=True)
    o2 = a.call(twin, s, b, True)
    c.prove(_same_out(o1, o2), "independent_of_global_generator_and_twin_equal",
            info=dict(first=[int(i) for i in o1[0]], twin=[int(i) for i in o2[0]]))
    c.witness(True, "ran")


def replay_pool(inputs, label, strat, n, mode, b, rs="int"):
    a = _adapter(strat)
    if rs == "instance":
        s = pl.real_scenario(inputs, n, mode)
        for seed in [s.seed, 0, 1, 2]:
            inst = np.random.RandomState(seed)
            qs = a.make(inst, sym=False, inputs=inputs)
            o1 = a.call(qs, s, b, False, table=inputs.get("__clf__"))
            o1b = a.call(qs, s, b, False, table=inputs.get("__clf__"))
            twin = a.make(inst, sym=False, inputs=inputs)
            o2 = a.call(twin, s, b, False, table=inputs.get("__clf__"))
            same = lambda x, y: np.array_equal(x[0], y[0]) and np.array_equal(x[1], y[1], equal_nan=True)
            if not same(o1, o1b) or not same(o1, o2):
                return True, (f"{strat}(random_state=RandomState({seed})).query(X={s.X.ravel().tolist()}, labeled={s.lab}, candidates="
                              f"{s.cand if mode != 'rows' else 'rows'}, batch_size={b}): first {np.asarray(o1[0]).tolist()}, repeated "
                              f"{np.asarray(o1b[0]).tolist()}, twin {np.asarray(o2[0]).tolist()}")
        return False, "not reproduced"
    datasets = [pl.real_scenario(inputs, n, mode)]
    if strat.split("[")[0] in ("TypiClust", "Clue", "ProbCover", "DropQuery"):
        # data on which k-means has several optimal partitions (duplicated / equidistant points)
        for X in ([0.0, 0.0, 1.0, 1.0, 2.0, 2.0], [0.0, 1.0, 2.0, 3.0, 4.0, 5.0]):
            s2 = pl.Scenario()
            s2.n, s2.mode, s2.K = len(X), "none", 2
            s2.X = np.array(X).reshape(-1, 1)
            s2.lab = [0] * len(X)
            s2.y = np.full(len(X), np.nan)
            s2.unl = list(range(len(X)))
            s2.cand, s2.cand_set, s2.ncols, s2.seed = None, list(range(len(X))), len(X), 0
            datasets.append(s2)
    for s in datasets:
        for seed in [s.seed, 0, 1]:
            outs = []
            for g in range(12):
                np.random.seed(g)
                qs = a.make(seed, sym=False, inputs=inputs)
                o = a.call(qs, s, min(max(b, 2), len(s.cand_set)) if s is not datasets[0] else b, False, table=inputs.get("__clf__"))
                o_rep = a.call(qs, s, min(max(b, 2), len(s.cand_set)) if s is not datasets[0] else b, False, table=inputs.get("__clf__"))
                if label == "repeated_call_same_result" and not (np.array_equal(o[0], o_rep[0]) and np.array_equal(o[1], o_rep[1], equal_nan=True)):
                    return True, f"{strat}(random_state={seed}): the same call repeated gives {np.asarray(o[0]).tolist()} then {np.asarray(o_rep[0]).tolist()}"
                outs.append((np.asarray(o[0]).tolist(), np.round(np.asarray(o[1], dtype=float), 12).tolist()))
            if label != "repeated_call_same_result" and any(repr(x) != repr(outs[0]) for x in outs):
                kinds = sorted({repr(x[0]) for x in outs})
                return True, (f"{strat}(random_state={seed}).query(X={s.X.ravel().tolist()}, batch_size={b}) depends on numpy's global "
                              f"generator: np.random.seed(0..11) give indices {kinds[:4]}")
    return False, "not reproduced"


# ---------------------------------------------------------------- stream side
def sym_stream(c, kind, name, sizes):
    B = sl.sym_budget(c)
    seed = core.fresh_int("seed", 0, 2 ** 31 - 2)
    rec(c, "seed", seed)
    chunks = []
    for t, m in enumerate(sizes):
        if kind == "manager":
            ch = sl.sym_utilities(c, m, name=f"u{t}_", nan=name != "BalancedIncrementalQuantileFilter")
        else:
            ch = arrays.SymNd(arrays._to_obj([core.fresh_float(f"x{t}_{i}") for i in range(m)]), float).reshape(m, 1)
        rec(c, f"chunk{t}", ch)
        chunks.append(ch)
    clf = models.StubClassifier(classes=[0, 1], n_classes=2)

    shared = None
    if kind == "strategy_shared_manager":
        # the caller hands the same budget-manager object to both twins: each strategy works on its own copy, so the twins
        # agree although the first one has already processed the stream
        from harness.C04 import _EXPLICIT
        mname, mkw = _EXPLICIT[name]
        K_ = getattr(sl.bm_mod(), mname)
        rkw = dict(random_state=seed) if "random_state" in inspect.signature(K_.__init__).parameters else {}
        shared = K_(budget=B, w=2, **mkw, **rkw)

    def run(gname):
        facade.set_global_seed(z3.Int(gname))
        res = []
        if kind == "strategy_shared_manager":
            import skactiveml.stream as st
            qs = getattr(st, name)(budget_manager=shared, random_state=seed, **mkw)
            for ch in chunks:
                idx, ut = qs.query(ch.copy(), clf, return_utilities=True)
                idl = [int(i) for i in idx]
                res.append((idl, ut))
                qs.update(ch.copy(), F.array(idl, dtype=int))
        elif kind == "manager":
            m = sl.bm_mod()
            kw = dict(budget=B if name != "BalancedIncrementalQuantileFilter" else 0.5)
            if "random_state" in inspect.signature(getattr(m, name).__init__).parameters:
                kw["random_state"] = seed
            if name == "FixedUncertaintyBudgetManager":
                kw["classes"] = [0, 1]
            bm = getattr(m, name)(**kw)
            for ch in chunks:
                idx = [int(i) for i in bm.query_by_utility(ch.copy())]
                res.append(idx)
                if name == "BalancedIncrementalQuantileFilter":
                    bm.update(F.zeros((len(ch), 1)), F.array(idx, dtype=int), ch.copy())
                else:
                    bm.update(F.zeros((len(ch), 1)), F.array(idx, dtype=int))
        else:
            import skactiveml.stream as st
            from harness.C03 import STRATS
            spec = STRATS[name]
            qs = getattr(st, spec.get("cls", name))(budget=B, random_state=seed, **spec["kw"])
            for ch in chunks:
                if spec["clf"]:
                    idx, ut = qs.query(ch.copy(), clf, return_utilities=True)
                else:
                    idx, ut = qs.query(ch.copy(), return_utilities=True)
                idl = [int(i) for i in idx]
                res.append((idl, ut))
                qs.update(ch.copy(), F.array(idl, dtype=int))
        return res
    r1 = run("G1")
    r2 = run("G2")
    for t, (a, b) in enumerate(zip(r1, r2)):
        if kind == "manager":
            c.prove(a == b, "independent_of_global_generator_and_twin_equal", info=dict(step=t, first=a, twin=b))
        else:
            c.prove(a[0] == b[0] and sl.eq_value(arrays.asnd(a[1]), arrays.asnd(b[1])) if a[0] == b[0] else False,
                    "independent_of_global_generator_and_twin_equal", info=dict(step=t, first=a[0], twin=b[0]))
    c.witness(True, "ran")


def replay_stream(inputs, label, kind, name, sizes):
    B = inputs.get("budget", 0.5)
    seed = int(inputs.get("seed", 0))
    chunks = [np.array(inputs[f"chunk{t}"], dtype=float) for t in range(len(sizes))]
    outs = []
    shared = None
    if kind == "strategy_shared_manager":
        import skactiveml.stream.budgetmanager as bmod
        from harness.C04 import _EXPLICIT
        mname, mkw = _EXPLICIT[name]
        K_ = getattr(bmod, mname)
        rkw = dict(random_state=seed) if "random_state" in inspect.signature(K_.__init__).parameters else {}
        shared = K_(budget=B, w=2, **mkw, **rkw)
    for g in range(8):
        np.random.seed(g)
        res = []
        if kind == "strategy_shared_manager":
            import skactiveml.stream as st
            clf = models.real_table_classifier([(row, p) for _, row, p in inputs.get("__clf__", [])])
            qs = getattr(st, name)(budget_manager=shared, random_state=seed, **mkw)
            for ch in chunks:
                ch = ch.reshape(-1, 1)
                idx = qs.query(ch.copy(), clf)
                res.append([int(i) for i in idx])
                qs.update(ch.copy(), np.asarray(idx, dtype=int))
        elif kind == "manager":
            bm = sl.real_manager(name, B if name != "BalancedIncrementalQuantileFilter" else 0.5, 100, {}, seed)
            for ch in chunks:
                idx = list(bm.query_by_utility(ch.copy()))
                res.append([int(i) for i in idx])
                if name == "BalancedIncrementalQuantileFilter":
                    bm.update(np.zeros((len(ch), 1)), np.array(idx, dtype=int), ch.copy())
                else:
                    bm.update(np.zeros((len(ch), 1)), np.array(idx, dtype=int))
        else:
            import skactiveml.stream as st
            from harness.C03 import STRATS
            spec = STRATS[name]
            clf = models.real_table_classifier([(row, p) for _, row, p in inputs.get("__clf__", [])])
            qs = getattr(st, spec.get("cls", name))(budget=B, random_state=seed, **spec["kw"])
            for ch in chunks:
                ch = ch.reshape(-1, 1)
                idx = qs.query(ch.copy(), clf) if spec["clf"] else qs.query(ch.copy())
                res.append([int(i) for i in idx])
                qs.update(ch.copy(), np.asarray(idx, dtype=int))
        outs.append(res)
    if any(o != outs[0] for o in outs):
        return True, f"{name}(random_state={seed}): decisions depend on numpy's global generator: {outs[:3]}"
    return False, "not reproduced"


# ---------------------------------------------------------------- Monte-Carlo integration helper of the regression strategies
def _sampling_regressor():
    """ProbabilisticRegressor by contract: sample_y draws from the generator it is handed (the process-global one when
    random_state is None - scikit-learn's / scipy's documented behaviour)"""
    from skactiveml.base import ProbabilisticRegressor

    class SamplingReg(ProbabilisticRegressor):
        def fit(self, X, y, sample_weight=None):
            return self

        def predict_target_distribution(self, X):
            raise core.Unencodable("predict_target_distribution")

        def sample_y(self, X, n_samples=1, random_state=None):
            rng = facade.check_random_state_stub(random_state)
            return rng.random_sample((len(X), n_samples))
    return SamplingReg()


def sym_mc_expect(c, n, m):
    from skactiveml.pool.utils import _conditional_expect
    seed = core.fresh_int("seed", 0, 2 ** 31 - 2)
    rec(c, "seed", seed)
    xs = [core.fresh_float(f"x{i}") for i in range(n)]
    X = arrays.SymNd(arrays._to_obj(xs), float).reshape(n, 1)
    rec(c, "X", X)
    outs = []
    for g in ("G1", "G2"):
        facade.set_global_seed(z3.Int(g))
        outs.append(_conditional_expect(X, lambda idx, x, y: y, _sampling_regressor(), method="monte_carlo",
                                        n_integration_samples=m, random_state=seed))
    a, b = arrays.raw(arrays.asnd(outs[0])).reshape(-1), arrays.raw(arrays.asnd(outs[1])).reshape(-1)
    c.prove(b_and(*[boolexpr(s_eq(u, v)) for u, v in zip(a, b)]), "monte_carlo_expectation_independent_of_global_generator")
    c.witness(True, "ran")


def replay_mc_expect(inputs, label, n, m):
    from skactiveml.pool.utils import _conditional_expect
    from skactiveml.regressor import NICKernelRegressor
    X = np.array(inputs["X"], dtype=float).reshape(n, 1)
    reg = NICKernelRegressor().fit(np.array([[0.0], [1.0], [2.0]]), np.array([0.0, 1.0, 0.5]))
    for seed in (int(inputs.get("seed", 0)), 0, 1):
        outs = []
        for g in range(4):
            np.random.seed(g)
            outs.append(np.asarray(_conditional_expect(X, lambda idx, x, y: y, reg, method="monte_carlo", n_integration_samples=m,
                                                       random_state=seed)))
        if any(not np.array_equal(o, outs[0]) for o in outs):
            return True, (f"_conditional_expect(method='monte_carlo', random_state={seed}) on NICKernelRegressor depends on numpy's "
                          f"global generator: {[o.tolist() for o in outs[:2]]}")
    return False, "not reproduced"


# ---------------------------------------------------------------- multi-annotator wrapper (ties of the aggregated votes)
def sym_saw_twin(c, cmode, amode):
    """SingleAnnotatorWrapper around UncertaintySampling on a label matrix whose annotators contradict each other (the
    aggregated label is a tie broken at random): the result must not depend on the process-global generator"""
    from harness import C07
    P = __import__("skactiveml.pool.multiannotator", fromlist=["SingleAnnotatorWrapper"])
    s = C07.gen(c, 2, 2, cmode, amode)
    if not s.avail:
        raise core.PathAbort("no available pair")
    outs = []
    for g in ("G1", "G2"):
        facade.set_global_seed(z3.Int(g))
        clf = models.StubClassifier(classes=[0, 1], n_classes=2, gen=7)
        clf.classes_ = np.arange(2)
        inner = pl.pool().UncertaintySampling(method="least_confident", random_state=s.seed)
        w = P.SingleAnnotatorWrapper(strategy=inner, random_state=s.seed)
        # (an availability row without annotators makes the wrapper loop forever: open finding of C07; bounded here by the
        #  same CPU-time alarm and left to C07)
        C07._alarm(2)
        try:
            outs.append(w.query(s.X, s.y, candidates=s.cand, annotators=s.annot, batch_size=2, return_utilities=True, clf=clf, fit_clf=True))
        except C07.Timeout:
            raise core.PathAbort("SingleAnnotatorWrapper.query does not terminate (C07)")
        finally:
            C07._alarm_off()
    def flat_idx(o):
        return [int(v) for v in arrays.raw(arrays.asnd(o[0])).reshape(-1)]
    same = flat_idx(outs[0]) == flat_idx(outs[1])
    if same:
        r1, r2 = arrays.raw(arrays.asnd(outs[0][1])), arrays.raw(arrays.asnd(outs[1][1]))
        same = r1.shape == r2.shape and b_and(*[b_or(boolexpr(s_eq(a, b)), b_and(pl.is_nan_z(a), pl.is_nan_z(b)))
                                                 for a, b in zip(r1.reshape(-1), r2.reshape(-1))])
    c.prove(same, "independent_of_global_generator_and_twin_equal", info=dict(first=flat_idx(outs[0]), twin=flat_idx(outs[1])))
    c.witness(True, "ran")


def sym_iet_twin(c, cmode, amode):
    """IntervalEstimationThreshold on annotators that contradict each other (its annotator model takes a majority vote whose
    ties are broken at random): the result must not depend on the process-global generator"""
    from harness import C07
    P = __import__("skactiveml.pool.multiannotator", fromlist=["IntervalEstimationThreshold"])
    s = C07.gen(c, 2, 2, cmode, amode)
    if not s.avail:
        raise core.PathAbort("no available pair")
    outs = []
    for g in ("G1", "G2"):
        facade.set_global_seed(z3.Int(g))
        clf = models.StubClassifier(classes=[0, 1], n_classes=2, gen=7)
        clf.classes_ = np.arange(2)
        qs = P.IntervalEstimationThreshold(random_state=s.seed)
        outs.append(qs.query(s.X, s.y, clf, fit_clf=False, candidates=s.cand, annotators=s.annot, batch_size=2, return_utilities=True))
    def flat_idx(o):
        return [int(v) for v in arrays.raw(arrays.asnd(o[0])).reshape(-1)]
    same = flat_idx(outs[0]) == flat_idx(outs[1])
    if same:
        r1, r2 = arrays.raw(arrays.asnd(outs[0][1])), arrays.raw(arrays.asnd(outs[1][1]))
        same = r1.shape == r2.shape and b_and(*[b_or(boolexpr(s_eq(a, b)), b_and(pl.is_nan_z(a), pl.is_nan_z(b)))
                                                 for a, b in zip(r1.reshape(-1), r2.reshape(-1))])
    c.prove(same, "independent_of_global_generator_and_twin_equal", info=dict(first=flat_idx(outs[0]), twin=flat_idx(outs[1])))
    c.witness(True, "ran")


def replay_iet_twin(inputs, label, cmode, amode):
    from skactiveml.classifier import ParzenWindowClassifier
    P = __import__("skactiveml.pool.multiannotator", fromlist=["IntervalEstimationThreshold"])
    # annotators that contradict each other on every labeled sample
    rs = np.random.RandomState(0)
    Xb = np.round(rs.randn(12, 1), 2)
    yb = np.full((12, 2), np.nan)
    yb[:6, 0], yb[:6, 1] = 0, 1
    for seed in (int(inputs.get("seed", 0)), 0, 1, 2):
        outs = []
        for g in range(8):
            np.random.seed(g)
            clf = ParzenWindowClassifier(classes=[0, 1], random_state=0).fit(Xb, np.where(np.arange(12) < 6, np.arange(12) % 2, np.nan).astype(float))
            o = P.IntervalEstimationThreshold(random_state=seed).query(Xb, yb, clf, fit_clf=False, batch_size=2, return_utilities=True)
            outs.append((np.asarray(o[0]).tolist(), np.round(np.asarray(o[1], dtype=float), 9).tolist()))
        if any(repr(o) != repr(outs[0]) for o in outs):
            return True, (f"IntervalEstimationThreshold(random_state={seed}).query on 12 samples with two contradicting annotators depends on "
                          f"numpy's global generator: {[o[0] for o in outs[:4]]}")
    return False, "not reproduced"


def replay_saw_twin(inputs, label, cmode, amode):
    from harness import C07
    from skactiveml.classifier import ParzenWindowClassifier
    P = __import__("skactiveml.pool.multiannotator", fromlist=["SingleAnnotatorWrapper"])
    s = C07.real_gen(inputs, 2, 2, cmode, amode)
    # the counterexample's own data, then a larger pool on which the two annotators contradict each other on every
    # labeled sample (the tie of the aggregated label then decides which class the classifier learns)
    rs = np.random.RandomState(0)
    Xb = np.round(rs.randn(12, 1), 2)
    yb = np.full((12, 2), np.nan)
    yb[:6, 0], yb[:6, 1] = 0, 1
    data = [(s.X, s.y, s.cand, s.annot), (Xb, yb, None, None)]
    for X, y, cand, annot in data:
        for seed in (int(inputs.get("seed", 0)), 0, 1, 2):
            outs = []
            for g in range(6):
                np.random.seed(g)
                inner = pl.pool().UncertaintySampling(method="least_confident", random_state=seed)
                w = P.SingleAnnotatorWrapper(strategy=inner, random_state=seed)
                C07._alarm(5)
                try:
                    o = w.query(X, y, candidates=cand, annotators=annot, batch_size=2, return_utilities=True,
                                clf=ParzenWindowClassifier(classes=[0, 1], random_state=seed), fit_clf=True)
                except C07.Timeout:
                    return False, "query does not terminate on these inputs (C07)"
                finally:
                    C07._alarm_off()
                outs.append((np.asarray(o[0]).tolist(), np.round(np.asarray(o[1], dtype=float), 9).tolist()))
            if any(repr(o) != repr(outs[0]) for o in outs):
                return True, (f"SingleAnnotatorWrapper(UncertaintySampling, random_state={seed}).query on {len(X)} samples with "
                              f"contradicting annotators depends on numpy's global generator: {[o[0] for o in outs[:3]]}")
    return False, "not reproduced"


# ---------------------------------------------------------------- classifier tie-breaking
def sym_clf(c, n, nq, kind="pwc", cost=False):
    from skactiveml.classifier import ParzenWindowClassifier, SklearnClassifier
    seed = core.fresh_int("seed", 0, 2 ** 31 - 2)
    rec(c, "seed", seed)
    lab = [c.choose([(-1, True), (0, True), (1, True)], f"label{i}") for i in range(n)]
    rec(c, "labels", list(lab))
    y = arrays.SymNd(np.array([np.nan if k < 0 else float(k) for k in lab]))
    C = [[0.0, 1.0], [1.0, 0.0]] if cost else None
    preds = []
    if kind == "pwc":
        ks = [[core.fresh_float(f"k{i}_{j}") for j in range(n)] for i in range(nq)]
        for row in ks:
            for v in row:
                c.assume(v.r >= 0)
        Kq = arrays.SymNd(arrays._to_obj(ks), float)
    else:
        from harness import C11
        Kq = arrays.SymNd(arrays._to_obj([core.fresh_float(f"q{i}") for i in range(nq)]), float).reshape(nq, 1)
    for g in ("G1", "G2"):
        facade.set_global_seed(z3.Int(g))
        if kind == "pwc":
            clf = ParzenWindowClassifier(metric="precomputed", classes=[0.0, 1.0], cost_matrix=C, random_state=seed).fit(F.zeros((n, 1)), y)
        else:
            # SklearnClassifier around a stub estimator: fitted path, and (no labels) the label-frequency fallback
            clf = SklearnClassifier(C11.make_stub_estimator()(), classes=[0.0, 1.0], cost_matrix=C, random_state=seed)
            clf.fit(F.arange(n).astype(float).reshape(n, 1), y)
        preds.append([float(v) for v in arrays.raw(arrays.asnd(clf.predict(Kq)))])
        preds.append([float(v) for v in arrays.raw(arrays.asnd(clf.predict(Kq)))])
    c.prove(preds[0] == preds[2], "independent_of_global_generator_and_twin_equal", info=dict(first=preds[0], twin=preds[2]))
    c.witness(True, "ran")


def replay_clf(inputs, label, n, nq, kind="pwc", cost=False):
    from sklearn.naive_bayes import GaussianNB
    from skactiveml.classifier import ParzenWindowClassifier, SklearnClassifier
    lab = [int(k) for k in inputs.get("labels", [-1] * n)]
    C = [[0.0, 1.0], [1.0, 0.0]] if cost else None
    # the counterexample's labels, then no labels at all (uniform probabilities: every prediction is a tie)
    for labels in (lab, [-1] * n):
        y = np.array([np.nan if k < 0 else float(k) for k in labels])
        X = np.arange(n, dtype=float).reshape(n, 1)
        Xq = np.zeros((40, 1))
        for seed in (int(inputs.get("seed", 0)), 0, 1):
            outs = []
            for g in range(6):
                np.random.seed(g)
                if kind == "pwc":
                    clf = ParzenWindowClassifier(classes=[0.0, 1.0], cost_matrix=C, random_state=seed).fit(X, y)
                else:
                    clf = SklearnClassifier(GaussianNB(), classes=[0.0, 1.0], cost_matrix=C, random_state=seed).fit(X, y)
                outs.append(np.asarray(clf.predict(Xq)).tolist())
            if any(o != outs[0] for o in outs):
                return True, (f"{kind} classifier (cost_matrix={C}, random_state={seed}) fitted on labels {labels}: predictions of 40 tied "
                              f"samples depend on numpy's global generator")
    return False, "not reproduced"


# ----------------------------------------------------------------
# (the plain "TypiClust" adapter uses an arbitrary-labels clusterer chosen per call: not a deterministic model)
POOL = [n for n in pl.ADAPTERS if n.split("[")[0] not in ("TypiClust", "Clue", "ProbCover", "DropQuery")] + list(_RNG_VARIANTS)


def _cfg_pool(name):
    def cfg(tier):
        a = _adapter(name)
        out = []
        for mode in (("none",) if tier == "quick" else ("none", "idx", "rows")):
            if mode == "rows" and not a.supports_rows:
                continue
            slow = getattr(a, "slow", False) and not name.startswith(("ProbCover", "DropQuery"))
            for b in (((1,) if slow else (2,)) if tier == "quick" else (1, 2, 3)):
                if slow and b > 1:
                    continue
                out.append(dict(strat=name, n=getattr(a, "n", None) or 3, mode=mode, b=b))
        if name in ("RandomSampling", "UncertaintySampling[least_confident]"):
            # random_state passed as a RandomState instance; explicit candidates incl. the fully labeled pool
            for mode in ("idx", "rows"):
                out.append(dict(strat=name, n=getattr(a, "n", None) or 3, mode=mode, b=2, rs="instance"))
        elif not getattr(a, "slow", False) or name.startswith(("ProbCover", "DropQuery")):
            # every strategy: a RandomState instance must not be consumed (the strategy works on its own copy)
            out.append(dict(strat=name, n=getattr(a, "n", None) or 3, mode="none", b=2, rs="instance"))
        return out
    return cfg


def _cfg_stream(tier):
    from harness.C03 import STRATS
    out = [dict(kind="manager", name=m, sizes=[2, 1]) for m in sl.ALL_MANAGERS]
    out += [dict(kind="strategy", name=s, sizes=[2, 1]) for s in STRATS]
    out += [dict(kind="strategy_shared_manager", name=s, sizes=[2, 1]) for s in ("FixedUncertainty", "VariableUncertainty",
                                                                                 "RandomVariableUncertainty", "Split")]
    if tier == "thorough":
        out += [dict(kind="manager", name=m, sizes=[2, 2, 1]) for m in sl.ALL_MANAGERS if m != "SplitBudgetManager"]
    return out


HARNESSES = [Harness(f"pool_twin[{name}]", sym_pool, replay_pool, _cfg_pool(name), pl.BASE_UNITS + _adapter(name).units,
                     product_abstraction=_adapter(name).product_abstraction, required_witnesses=("ran",)) for name in POOL] + [
    Harness("stream_twin", sym_stream, replay_stream, _cfg_stream,
            [sl.BM_UNITS[k] for k in sl.ALL_MANAGERS] + ["skactiveml.stream._uncertainty_zliobaite:UncertaintyZliobaite._validate_data",
                                                          "skactiveml.base:SingleAnnotatorStreamQueryStrategy._validate_random_state",
                                                          "skactiveml.utils._validation:check_random_state"], required_witnesses=("ran",)),
    Harness("monte_carlo_expectation", sym_mc_expect, replay_mc_expect, lambda tier: [dict(n=2, m=2)] + ([dict(n=3, m=3)] if tier != "quick" else []),
            ["skactiveml.pool.utils:_conditional_expect"], required_witnesses=("ran",)),
    Harness("single_annotator_wrapper_twin", sym_saw_twin, replay_saw_twin,
            lambda tier: [dict(cmode=cm, amode=am) for cm, am in ((("none", "none"), ("idx", "idx")) if tier == "quick" else
                                                                  [(a, b) for a in ("none", "idx", "rows") for b in ("none", "idx", "matrix")])],
            ["skactiveml.pool.multiannotator._wrapper:SingleAnnotatorWrapper.query", "skactiveml.utils._aggregation:majority_vote"],
            required_witnesses=("ran",)),
    Harness("interval_estimation_threshold_twin", sym_iet_twin, replay_iet_twin,
            lambda tier: [dict(cmode="none", amode="none")] + ([dict(cmode="idx", amode="idx")] if tier != "quick" else []),
            ["skactiveml.pool.multiannotator._interval_estimation_threshold:IntervalEstimationThreshold.query",
             "skactiveml.pool.multiannotator._interval_estimation_threshold:IntervalEstimationAnnotModel.fit",
             "skactiveml.utils._aggregation:majority_vote"], required_witnesses=("ran",)),
    Harness("classifier_tie_breaking", sym_clf, replay_clf,
            lambda tier: [dict(n=2, nq=2)] + [dict(n=2, nq=1, kind=k, cost=cm) for k in ("pwc", "sklearn") for cm in (False, True) if (k, cm) != ("pwc", False)],
            ["skactiveml.base:SkactivemlClassifier.predict", "skactiveml.utils._selection:rand_argmin"], required_witnesses=("ran",)),
]
BOUNDS = dict(quick="pool: n = 3, batch 2, candidates=None for the 29 adapter strategies (TypiClust / Clue / ProbCover / DropQuery with a clusterer that draws from the "
                    "generator it is given, global when random_state=None), random_state as int and as RandomState instance; the Monte-Carlo "
                    "branch of _conditional_expect; stream: all 7 managers and 7 strategies on 2 chunks (2+1); "
                    "ParzenWindowClassifier.predict tie-breaking; symbolic integer seed, two disjoint symbolic global streams",
              thorough="3 candidate modes, batch 1-3, 3 chunks",
              outside="determinism of third-party estimators themselves; random_state=None (no claim); the strategies without adapter")
ASSUMPTIONS = [
    "two generators produce the same numbers iff equal seed terms and equal draw histories (uninterpreted functions)",
    "clusterer contract: labels / distances are draws from the generator passed as random_state, from the global one if None",
    "replay: real code under np.random.seed(0..11); for TypiClust additionally on data with duplicated / equidistant points",
]
