"""Strategy-level stream scenarios for StreamProbabilisticAL (used by C03, C10): the real query / update with the
real default BalancedIncrementalQuantileFilter; the classifier's class-frequency estimates and the (gamma-function
heavy) cost_reduction are contract stubs in the symbolic run, the real ParzenWindowClassifier / cost_reduction in the
concrete replay."""
from __future__ import annotations

import numpy as np
import z3

from harness import models
from harness.common import dual_harness
from symx import arrays, core
from symx import stubs as _stubs

UNITS = ["skactiveml.stream._stream_probabilistic_al:StreamProbabilisticAL.query",
         "skactiveml.stream._stream_probabilistic_al:StreamProbabilisticAL.update",
         "skactiveml.stream._stream_probabilistic_al:StreamProbabilisticAL._validate_data",
         "skactiveml.stream.budgetmanager._balanced_incremental_quantile_filter:BalancedIncrementalQuantileFilter.query_by_utility",
         "skactiveml.stream.budgetmanager._balanced_incremental_quantile_filter:BalancedIncrementalQuantileFilter.update"]


def _cost_reduction_stub(k_vec_list, C=None, m_max=2, prior=1.0e-3):
    """contract of skactiveml.pool._probabilistic_al.cost_reduction: one finite real per row, a function of the row"""
    k = arrays.asnd(k_vec_list)
    f = models._fn("costred", k.shape[1])
    out = [core.SymFloat(f(z3.IntVal(0), z3.IntVal(0), *models._row_terms(list(r)))) for r in arrays.raw(k)]
    return arrays.SymNd(arrays._to_obj(out) if out else np.empty(0, dtype=object), float)


_stubs.MODULE_STUBS[("skactiveml.stream._stream_probabilistic_al", "cost_reduction")] = _cost_reduction_stub


def _freq_classifier(d):
    """ClassFrequencyEstimator by contract: predict_freq = non-negative uninterpreted function of the row"""
    from skactiveml.base import ClassFrequencyEstimator
    from skactiveml.utils import MISSING_LABEL
    if not d.sym:
        from skactiveml.classifier import ParzenWindowClassifier
        return ParzenWindowClassifier(classes=[0, 1]).fit(np.array([[-1.0], [0.5], [2.0]]), np.array([0, 1, 0]))

    class StubFreq(ClassFrequencyEstimator):
        def __init__(self, classes=None, missing_label=MISSING_LABEL, cost_matrix=None, class_prior=0.0, random_state=None):
            super().__init__(classes=classes, missing_label=missing_label, cost_matrix=cost_matrix, class_prior=class_prior,
                             random_state=random_state)

        def fit(self, X, y, sample_weight=None):
            return self

        def predict_freq(self, X):
            X = arrays.asnd(X)
            f = models._fn("freq", X.shape[1])
            c = core.ctx()
            out = np.empty((X.shape[0], 2), dtype=object)
            for i, r in enumerate(arrays.raw(X)):
                for k in range(2):
                    t = f(z3.IntVal(0), z3.IntVal(k), *models._row_terms(list(r)))
                    key = ("freq", t.get_id())
                    if key not in c.uf_axioms_done:
                        c.uf_axioms_done.add(key)
                        c.add(t >= 0)
                    out[i, k] = core.SymFloat(t)
            return arrays._wrap(out, arrays.FLOAT)
    clf = StubFreq(classes=[0, 1])
    clf.classes_ = np.arange(2)
    clf.class_prior_ = np.zeros((1, 2))     # (what ClassFrequencyEstimator._validate_data sets for class_prior=0)
    return clf


def _make(d, B, seed, w=None, metric=None, gamma=0.5):
    import skactiveml.stream as st
    from skactiveml.stream.budgetmanager import BalancedIncrementalQuantileFilter
    if metric is not None:
        return st.StreamProbabilisticAL(budget=B, random_state=seed, metric=metric, metric_dict={"gamma": gamma})
    if w is None:
        return st.StreamProbabilisticAL(budget=B, random_state=seed)
    # a window smaller than the stream (eviction inside a chunk)
    return st.StreamProbabilisticAL(budget=B, random_state=seed, budget_manager=BalancedIncrementalQuantileFilter(w=w, w_tol=w))


def _chunks(d, sizes):
    return [d.arr([[d.fl(f"x{t}_{i}", lo=-4.0, hi=4.0)] for i in range(m)], shape=(m, 1)) for t, m in enumerate(sizes)]


def _same(d, a, b):
    return d.eq_arr(a, b, 1e-12)


# ---------------------------------------------------------------- C10: update accepts the result; chunking invariance
def sc_chunking(d, n, comp, w=None, uw=False):
    """the stream x_0..x_{n-1} processed one by one and in the chunks of `comp`: same decisions, same utilities
    (uw: a per-instance utility_weight, e.g. a density estimate, is handed to query)"""
    B = 0.5
    seed = d.integer("seed", 0, 2 ** 31 - 2)
    clf = _freq_classifier(d)
    xs = [d.fl(f"x{i}", lo=-4.0, hi=4.0) for i in range(n)]
    uws = [d.fl(f"uw{i}", lo=0.25, hi=4.0) for i in range(n)] if uw else None

    def run(sizes):
        qs = _make(d, B, seed, w)
        pos = 0
        granted, utils = [], []
        for m in sizes:
            ch = d.arr([[xs[pos + i]] for i in range(m)], shape=(m, 1))
            kw = dict(utility_weight=d.arr([uws[pos + i] for i in range(m)])) if uw else {}
            idx, ut = qs.query(ch.copy(), clf, return_utilities=True, **kw)
            idl = [int(i) for i in idx]
            d.prove(all(0 <= i < m for i in idl) and all(a < b for a, b in zip(idl, idl[1:])),
                    "indices_strictly_increasing_in_range", info=dict(got=idl, chunk=m))
            d.prove(tuple(np.shape(ut)) == (m,), "one_utility_per_candidate")
            try:
                qs.update(ch.copy(), d.arr(idl, dtype=int), budget_manager_param_dict={"utilities": ut})
            except (core.Unencodable, core.PathAbort):
                raise
            except Exception as e:
                d.prove(False, "update_accepts_query_result", info=dict(error=repr(e)[:160], indices=idl))
                return None
            granted += [pos + i for i in idl]
            utils += list(d.flat(ut))
            pos += m
        return granted, utils
    ref = run([1] * n)
    got = run(list(comp))
    if ref is None or got is None:
        return
    d.prove(ref[0] == got[0], "decisions_independent_of_chunking", info=dict(one_by_one=ref[0], chunked=got[0], chunks=list(comp)))
    for a, b in zip(ref[1], got[1]):
        d.prove(d.eq(a, b, 1e-12), "utilities_independent_of_chunking")
    d.witness(len(ref[0]) >= 1, "some_granted")


# ---------------------------------------------------------------- C03: purity
def sc_purity(d, sizes, w=None, metric=None, gamma=0.5):
    from harness.C03 import scenario

    class Env:
        sym = d.sym

        @staticmethod
        def prove(cond, label, info=None):
            d.prove(cond, label, info)
    B = 0.5
    seed = d.integer("seed", 0, 2 ** 31 - 2)
    clf = _freq_classifier(d)
    chunks = _chunks(d, sizes)

    # with a kernel metric the strategy estimates the frequencies itself from the training data handed to query: the same
    # X array object every time, labels that depend on the chunk (the interposed extra queries see fewer labels)
    Xtr = d.arr([[d.fl(f"t{i}", lo=-4.0, hi=4.0)] for i in range(2)], shape=(2, 1)) if metric else None
    y_few, y_many = (d.arr([0.0, float("nan")]), d.arr([0.0, 1.0])) if metric else (None, None)
    # a data-dependent bandwidth (gamma='mean': from the variance of the training samples): the training window grows
    X3 = d.arr([[d.fl(f"t{i}", lo=-4.0, hi=4.0)] for i in range(3)], shape=(3, 1)) if gamma == "mean" else None
    X2 = d.arr([[X3[0, 0]], [X3[1, 0]]], shape=(2, 1)) if gamma == "mean" else None

    def kw(ch):
        if not metric:
            return {}
        if gamma == "mean":
            if ch is chunks[-1]:
                return dict(X=X2, y=y_few, fit_clf=False)
            return dict(X=X3, y=d.arr([0.0, 1.0, 0.0]), fit_clf=False)
        return dict(X=Xtr, y=(y_few if ch is chunks[-1] else y_many), fit_clf=False)

    def query(qs, ch):
        idx, ut = qs.query(ch.copy(), clf, return_utilities=True, **kw(ch))
        return [int(i) for i in idx], ut

    def update(qs, ch, idx):
        _, ut = qs.query(ch.copy(), clf, return_utilities=True, **kw(ch))
        qs.update(ch.copy(), d.arr(idx, dtype=int), budget_manager_param_dict={"utilities": ut})
    res = scenario(Env, lambda: _make(d, B, seed, w, metric, gamma), query, update, chunks, update_only_twin=False)   # (its update needs the utilities of a query)
    d.witness(any(len(r[0]) for r in res), "some_granted")


def _compositions(n):
    out = []
    for mask in range(1 << (n - 1)):
        sizes, cur = [], 1
        for i in range(n - 1):
            if mask >> i & 1:
                sizes.append(cur)
                cur = 1
            else:
                cur += 1
        sizes.append(cur)
        if len(sizes) < n:
            out.append(sizes)
    return out


def harnesses_c10():
    return [dual_harness("probabilistic_al_chunking", sc_chunking,
                         lambda tier: [dict(n=n, comp=c, w=w) for w in (None, 2) for n in ((2, 3) if tier == "quick" else (2, 3, 4))
                                       for c in _compositions(n)]
                         + [dict(n=n, comp=c, uw=True) for n in ((2,) if tier == "quick" else (2, 3)) for c in _compositions(n)],
                         UNITS, required_witnesses=("some_granted",), product_abstraction=True)]


def harnesses_c03():
    return [dual_harness("probabilistic_al_purity", sc_purity,
                         lambda tier: [dict(sizes=s, w=w) for w in (None, 2)
                                       for s in ([[1, 1], [2, 1]] if tier == "quick" else [[1, 1], [2, 1], [1, 2], [2, 2]])]
                         + [dict(sizes=[1, 1], metric="rbf"), dict(sizes=[1, 1], metric="rbf", gamma="mean")],
                         UNITS, required_witnesses=("some_granted",), product_abstraction=True)]
