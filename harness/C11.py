"""C11 — classifier outputs are valid probabilities and consistent decisions.
Real code executed symbolically: ClassFrequencyEstimator.predict_proba,
SkactivemlClassifier.predict/_validate_data (cost-matrix permutation),
ParzenWindowClassifier (precomputed kernel = fully symbolic input; with and
without n_neighbors), SklearnClassifier around a stub scikit-learn estimator
that saw any subset of the declared classes, SlidingWindowClassifier."""
from __future__ import annotations

import numpy as np
import z3

from harness.common import Harness, rec
from symx import arrays, core, facade
from symx.core import b_and, b_not, b_or, boolexpr, fresh_float, fresh_int, s_eq, s_le, s_lt

PID = "C11"
F = facade.FACADE
NAN = float("nan")
CLASS_SETS = {"sorted": [10.0, 20.0, 30.0], "unsorted": [20.0, 10.0, 30.0], "cyclic": [20.0, 30.0, 10.0]}


def _labels(c, n, classes, name="lab"):
    """explorer-chosen label pattern: -1 = missing, k = index into `classes`"""
    idx = [c.choose([(-1, True)] + [(k, True) for k in range(len(classes))], f"{name}[{i}]") for i in range(n)]
    y = [NAN if k < 0 else classes[k] for k in idx]
    return idx, y


def _sym_matrix(name, r, cdim, lo=0.0):
    xs = [[fresh_float(f"{name}{i}_{j}") for j in range(cdim)] for i in range(r)]
    for row in xs:
        for x in row:
            if lo is not None:
                core.ctx().assume(x.r >= lo)
    return arrays.SymNd(arrays._to_obj(xs), float)


def _simplex_obligations(c, P, nq, K, label):
    ok = tuple(P.shape) == (nq, K)
    c.prove(ok, f"{label}:proba_shape", info=dict(shape=tuple(P.shape)))
    if not ok:
        return None
    rp = arrays.raw(arrays.asnd(P))
    for i in range(nq):
        tot = np.float64(0.0)
        for k in range(K):
            v = rp[i, k]
            c.prove(boolexpr(core.s_isfinite(v)) if core.is_sym(v) else bool(np.isfinite(v)), f"{label}:proba_finite")
            c.prove(s_le(0, v), f"{label}:proba_non_negative")
            tot = core.s_add(tot, v)
        c.prove(s_eq(tot, 1), f"{label}:proba_rows_sum_to_one")
    return rp


def _decision_obligations(c, pred, rp, classes_sorted, C_sorted, nq, label):
    """pred: array of labels; must be in classes_ and minimise the expected cost"""
    K = len(classes_sorted)
    ok = tuple(np.shape(pred)) == (nq,)
    c.prove(ok, f"{label}:predict_shape")
    if not ok:
        return
    pr = list(arrays.raw(arrays.asnd(pred)))
    for i in range(nq):
        v = pr[i]
        if core.is_sym(v):
            v = v.__index__() if core.is_intish(v) else None
        hit = [k for k, cv in enumerate(classes_sorted) if v is not None and float(v) == float(cv)]
        c.prove(bool(hit), f"{label}:predict_returns_member_of_classes", info=dict(got=repr(pr[i]), classes=classes_sorted))
        if not hit:
            continue
        k0 = hit[0]

        def cost(k):
            acc = np.float64(0.0)
            for j in range(K):
                acc = core.s_add(acc, core.s_mul(rp[i, j], C_sorted[j][k]))
            return acc
        c.prove(b_and(*[boolexpr(s_le(cost(k0), cost(k))) for k in range(K)]), f"{label}:predict_minimises_expected_cost",
                info=dict(sample=i, predicted=classes_sorted[k0]))


def _cost_matrix(c, K, mode):
    if mode is None:
        return None, [[0.0 if a == b else 1.0 for b in range(K)] for a in range(K)]
    xs = [[fresh_float(f"cost{a}_{b}") for b in range(K)] for a in range(K)]
    for row in xs:
        for x in row:
            c.assume(x.r >= 0)
    C = arrays.SymNd(arrays._to_obj(xs), float)
    rec(c, "cost_matrix", C)
    return C, xs


# ---------------------------------------------------------------- ParzenWindowClassifier (precomputed kernel)
def sym_pwc(c, n, nq, K, cls_order, weights, prior, cost, n_neighbors):
    from skactiveml.classifier import ParzenWindowClassifier
    classes = CLASS_SETS[cls_order][:K]
    idx, y = _labels(c, n, classes)
    rec(c, "label_idx", idx)
    sw = None
    if weights:
        ws = [fresh_float(f"w{i}") for i in range(n)]
        for w in ws:
            c.assume(w.r >= 0)
        sw = arrays.SymNd(arrays._to_obj(ws), float)
        rec(c, "sample_weight", sw)
    pr = 0.0
    if prior == "scalar":
        pr = fresh_float("prior")
        c.assume(pr.r >= 0)
        rec(c, "class_prior", pr)
    elif prior == "vector":
        ps = [fresh_float(f"prior{k}") for k in range(K)]
        for p in ps:
            c.assume(p.r >= 0)
        pr = arrays.SymNd(arrays._to_obj(ps), float)
        rec(c, "class_prior", pr)
    C, Cx = _cost_matrix(c, K, cost)
    seed = fresh_int("seed", 0, 2 ** 31 - 2)
    rec(c, "seed", seed)
    clf = ParzenWindowClassifier(metric="precomputed", classes=classes, class_prior=pr, cost_matrix=C, n_neighbors=n_neighbors,
                                 random_state=seed)
    X = F.zeros((n, 1))
    clf.fit(X, arrays.SymNd(np.array(y, dtype=float)), sw)
    Kq = _sym_matrix("k", nq, n)
    rec(c, "K_query", Kq)
    Fq = clf.predict_freq(Kq)
    okf = tuple(Fq.shape) == (nq, K)
    c.prove(okf, "pwc:freq_shape")
    if okf:
        for v in arrays.raw(arrays.asnd(Fq)).reshape(-1):
            c.prove(s_le(0, v), "pwc:freq_non_negative")
    P = clf.predict_proba(Kq)
    rp = _simplex_obligations(c, P, nq, K, "pwc")
    if rp is None:
        return
    cs = sorted(classes)
    c.prove([float(v) for v in arrays.raw(arrays.asnd(clf.classes_))] == cs, "pwc:classes_sorted")
    # columns ordered as classes_: with a single labeled sample and no prior the whole mass sits on that class
    labeled = [k for k in idx if k >= 0]
    if not labeled and prior is None:
        for i in range(nq):
            for k in range(K):
                c.prove(s_eq(rp[i, k], 1.0 / K), "pwc:uniform_without_labels")
    if len(labeled) == 1 and prior is None and n_neighbors is None:
        col = cs.index(classes[labeled[0]])
        j = idx.index(labeled[0])
        rk = arrays.raw(Kq)
        for i in range(nq):
            wj = np.float64(1.0) if sw is None else arrays.raw(sw)[j]
            positive = b_and(boolexpr(s_lt(0, rk[i, j])), boolexpr(s_lt(0, wj)))
            c.prove(b_or(b_not(positive), boolexpr(s_eq(rp[i, col], 1))), "pwc:columns_ordered_as_classes_")
    # decisions
    order = [classes.index(v) for v in cs]
    Cs = [[Cx[order[a]][order[b]] for b in range(K)] for a in range(K)]
    pred = clf.predict(Kq)
    _decision_obligations(c, pred, rp, cs, Cs, nq, "pwc")
    c.witness(not labeled, "no_labels")
    c.witness(len(set(labeled)) == 1 and K > 1, "single_class_present")


def replay_pwc(inputs, label, n, nq, K, cls_order, weights, prior, cost, n_neighbors):
    from skactiveml.classifier import ParzenWindowClassifier
    classes = CLASS_SETS[cls_order][:K]
    idx = [int(v) for v in inputs["label_idx"]]
    y = np.array([NAN if k < 0 else classes[k] for k in idx], dtype=float)
    sw = np.array(inputs["sample_weight"], dtype=float) if weights else None
    pr = inputs.get("class_prior", 0.0)
    pr = np.array(pr, dtype=float) if isinstance(pr, list) else float(pr)
    C = np.array(inputs["cost_matrix"], dtype=float) if cost else None
    Kq = np.array(inputs["K_query"], dtype=float).reshape(nq, n)
    cs = sorted(classes)
    for seed in [int(inputs.get("seed", 0))] + list(range(10)):
        clf = ParzenWindowClassifier(metric="precomputed", classes=classes, class_prior=pr, cost_matrix=C,
                                     n_neighbors=n_neighbors, random_state=seed)
        clf.fit(np.zeros((n, 1)), y, sw)
        Fq = clf.predict_freq(Kq)
        P = clf.predict_proba(Kq)
        pred = clf.predict(Kq)
        bad = _conc_bad(P, Fq, pred, clf.classes_, cs, classes, C, nq, K, "pwc")
        if not [k for k in idx if k >= 0] and prior is None and not np.allclose(P, 1.0 / K):
            bad.add("pwc:uniform_without_labels")
        if label in bad:
            return True, (f"ParzenWindowClassifier(metric='precomputed', classes={classes}, class_prior={pr}, cost_matrix="
                          f"{None if C is None else C.tolist()}, n_neighbors={n_neighbors}).fit(y={y.tolist()}, sample_weight="
                          f"{None if sw is None else sw.tolist()}); K={Kq.tolist()}: proba={np.round(P, 4).tolist()} predict={pred.tolist()} -> {label}")
    return False, "not reproduced"


def _conc_bad(P, Fq, pred, classes_, cs, classes, C, nq, K, tag):
    bad = set()
    if Fq is not None and (Fq.shape != (nq, K) or np.any(Fq < 0)):
        bad |= {f"{tag}:freq_shape", f"{tag}:freq_non_negative"}
    if P.shape != (nq, K):
        bad.add(f"{tag}:proba_shape")
        return bad
    if not np.all(np.isfinite(P)):
        bad.add(f"{tag}:proba_finite")
    if np.any(P < 0):
        bad.add(f"{tag}:proba_non_negative")
    if not np.allclose(P.sum(axis=1), 1):
        bad.add(f"{tag}:proba_rows_sum_to_one")
    if [float(v) for v in classes_] != cs:
        bad.add(f"{tag}:classes_sorted")
    if np.shape(pred) != (nq,):
        bad.add(f"{tag}:predict_shape")
        return bad
    order = [classes.index(v) for v in cs]
    Cg = np.array([[0.0 if a == b else 1.0 for b in range(K)] for a in range(K)]) if C is None else C
    Cs = Cg[np.ix_(order, order)]
    for i in range(nq):
        hit = [k for k, cv in enumerate(cs) if float(pred[i]) == cv]
        if not hit:
            bad.add(f"{tag}:predict_returns_member_of_classes")
            continue
        costs = P[i] @ Cs
        if costs[hit[0]] > costs.min() + 1e-9:
            bad.add(f"{tag}:predict_minimises_expected_cost")
    return bad


# ---------------------------------------------------------------- SklearnClassifier around a stub estimator
def make_stub_estimator():
    from sklearn.base import BaseEstimator, ClassifierMixin
    from harness import models

    class StubSkEstimator(ClassifierMixin, BaseEstimator):
        """scikit-learn classifier by contract: classes_ = sorted unique labels it was fitted on; predict_proba rows lie
        on the simplex over classes_ (uninterpreted function of the row); predict = a most probable class"""

        def __init__(self, gen=3, support_partial=True):
            self.gen = gen
            self.support_partial = support_partial

        @staticmethod
        def _check_targets(y):
            # scikit-learn's check_classification_targets: an object array that holds numbers is of "unknown" label type
            a = arrays.asnd(y)
            if a._dt == object and len(arrays.raw(a)) and all(isinstance(v, (int, float, np.integer, np.floating)) and not isinstance(v, bool)
                                                             for v in arrays.raw(a).reshape(-1)):
                raise ValueError("Unknown label type: unknown. Maybe you are trying to fit a classifier, which expects discrete "
                                 "classes on a regression target with continuous values.")

        def fit(self, X, y, sample_weight=None):
            self._check_targets(y)
            self.fit_log_ = [(X, y, sample_weight)]
            self.classes_ = F.unique(y)
            return self

        def partial_fit(self, X, y, classes=None, sample_weight=None):
            self._check_targets(y)
            self.fit_log_ = getattr(self, "fit_log_", []) + [(X, y, sample_weight)]
            if not hasattr(self, "classes_"):
                self.classes_ = F.unique(classes)
            return self

        def predict_proba(self, X):
            X = arrays.asnd(X)
            Kc = len(self.classes_)
            f = models._fn("skP", X.shape[1])
            c = core.ctx()
            rx = arrays.raw(X)
            out = np.empty((X.shape[0], Kc), dtype=object)
            for i in range(X.shape[0]):
                args = models._row_terms(list(rx[i]))
                ps = [f(z3.IntVal(self.gen), z3.IntVal(k), *args) for k in range(Kc)]
                key = ("skP", ps[0].get_id(), Kc)
                if key not in c.uf_axioms_done:
                    c.uf_axioms_done.add(key)
                    c.add(z3.And(*[p >= 0 for p in ps], z3.Sum(ps) == 1))
                for k, p in enumerate(ps):
                    out[i, k] = core.SymFloat(p)
                if not hasattr(c, "inputs"):
                    c.inputs = {}
                c.inputs.setdefault("__clf__", []).append([self.gen, list(rx[i]), [core.SymFloat(p) for p in ps]])
            return arrays._wrap(out, arrays.FLOAT)

        def predict(self, X):
            P = self.predict_proba(X)
            return self.classes_[F.argmax(P, axis=1)]
    return StubSkEstimator


def real_table_estimator(table):
    from sklearn.base import BaseEstimator, ClassifierMixin

    class TableSk(ClassifierMixin, BaseEstimator):
        def __init__(self, table=None):
            self.table = table

        def fit(self, X, y, sample_weight=None):
            self.classes_ = np.unique(y)
            return self

        def partial_fit(self, X, y, classes=None, sample_weight=None):
            if not hasattr(self, "classes_"):
                self.classes_ = np.unique(classes)
            return self

        def predict_proba(self, X):
            X = np.asarray(X, dtype=float)
            Kc = len(self.classes_)
            out = np.full((len(X), Kc), 1.0 / Kc)
            for i, r in enumerate(X):
                for row, p in self.table or []:
                    if len(p) == Kc and np.array_equal(np.asarray(row, dtype=float), r):
                        out[i] = p
            return out

        def predict(self, X):
            return self.classes_[np.argmax(self.predict_proba(X), axis=1)]
    return TableSk(table=table)


def sym_sklearn(c, n, nq, K, cls_order, cost, fitfn):
    from skactiveml.classifier import SklearnClassifier
    classes = CLASS_SETS[cls_order][:K]
    idx, y = _labels(c, n, classes)
    rec(c, "label_idx", idx)
    C, Cx = _cost_matrix(c, K, cost)
    seed = fresh_int("seed", 0, 2 ** 31 - 2)
    rec(c, "seed", seed)
    est = make_stub_estimator()()
    clf = SklearnClassifier(est, classes=classes, cost_matrix=C, random_state=seed)
    X = F.arange(n).astype(float).reshape(n, 1)
    getattr(clf, fitfn)(X, arrays.SymNd(np.array(y, dtype=float)))
    xq = [fresh_float(f"q{i}") for i in range(nq)]
    Xq = arrays.SymNd(arrays._to_obj(xq), float).reshape(nq, 1)
    rec(c, "X_query", Xq)
    P = clf.predict_proba(Xq)
    rp = _simplex_obligations(c, P, nq, K, "sklearn")
    if rp is None:
        return
    cs = sorted(classes)
    c.prove([float(v) for v in arrays.raw(arrays.asnd(clf.classes_))] == cs, "sklearn:classes_sorted")
    present = sorted({classes[k] for k in idx if k >= 0})
    # columns of classes the estimator never saw carry no mass
    if present and fitfn == "fit":   # (partial_fit hands the full class list to the estimator)
        for i in range(nq):
            for k, cv in enumerate(cs):
                if cv not in present:
                    c.prove(s_eq(rp[i, k], 0), "sklearn:no_mass_on_unseen_classes", info=dict(cls=cv))
    if not present:
        for i in range(nq):
            for k in range(K):
                c.prove(s_eq(rp[i, k], 1.0 / K), "sklearn:uniform_without_labels")
    order = [classes.index(v) for v in cs]
    Cs = [[Cx[order[a]][order[b]] for b in range(K)] for a in range(K)]
    pred = clf.predict(Xq)
    # (also when the estimator was not fitted: the decision is taken on the fallback probabilities)
    _decision_obligations(c, pred, rp, cs, Cs, nq, "sklearn")
    c.witness(0 < len(present) < K, "estimator_saw_fewer_classes")
    c.witness(not present, "no_labels")


def replay_sklearn(inputs, label, n, nq, K, cls_order, cost, fitfn):
    from skactiveml.classifier import SklearnClassifier
    classes = CLASS_SETS[cls_order][:K]
    idx = [int(v) for v in inputs["label_idx"]]
    y = np.array([NAN if k < 0 else classes[k] for k in idx], dtype=float)
    C = np.array(inputs["cost_matrix"], dtype=float) if cost else None
    Xq = np.array(inputs["X_query"], dtype=float).reshape(nq, 1)
    cs = sorted(classes)
    present = sorted({classes[k] for k in idx if k >= 0})
    for table in ([(row, p) for _, row, p in inputs.get("__clf__", [])], []):
        for seed in [int(inputs.get("seed", 0))] + list(range(12)):
            clf = SklearnClassifier(real_table_estimator(table), classes=classes, cost_matrix=C, random_state=seed)
            getattr(clf, fitfn)(np.arange(n, dtype=float).reshape(n, 1), y)
            P = clf.predict_proba(Xq)
            pred = clf.predict(Xq)
            bad = _conc_bad(P, None, pred, clf.classes_, cs, classes, C, nq, K, "sklearn")
            if label in bad:
                return True, (f"SklearnClassifier(<estimator>, classes={classes}, cost_matrix={None if C is None else C.tolist()})."
                              f"{fitfn}(y={y.tolist()}); X_query={Xq.ravel().tolist()}: proba={np.round(P, 4).tolist()} "
                              f"predict={np.asarray(pred).tolist()} classes_={clf.classes_.tolist()} -> {label}")
    return False, "not reproduced"


# ----------------------------------------------------------------
def _cfg_pwc(tier):
    out = []
    base = [(2, 1, 2), (2, 2, 2)] if tier == "quick" else [(2, 1, 2), (2, 2, 2), (3, 1, 2), (2, 1, 3), (3, 2, 3)]
    for (n, nq, K) in base:
        for order in ("sorted", "unsorted"):
            for weights in (False, True):
                for prior in (None, "scalar") if tier == "quick" else (None, "scalar", "vector"):
                    for cost in (None, "sym"):
                        if tier == "quick" and (weights and prior and cost):
                            continue
                        if cost and K > 2 and tier == "quick":
                            continue
                        if cost and (n, nq, K) == (3, 2, 3):
                            continue    # 3 training x 2 query samples x 3 classes with a symbolic cost matrix exceed the budget
                        if (n, nq, K) == (3, 2, 3) and weights and prior == "vector":
                            continue    # (as above: weights and a prior vector on top exceed the 20 min budget per configuration)
                        out.append(dict(n=n, nq=nq, K=K, cls_order=order, weights=weights, prior=prior, cost=cost, n_neighbors=None))
    # a class order whose sorting permutation is not its own inverse (3-cycle), with a symbolic cost matrix
    out.append(dict(n=2, nq=1, K=3, cls_order="cyclic", weights=False, prior=None, cost="sym", n_neighbors=None))
    out.append(dict(n=3, nq=1, K=2, cls_order="sorted", weights=False, prior=None, cost=None, n_neighbors=1))
    out.append(dict(n=3, nq=1, K=2, cls_order="unsorted", weights=True, prior="scalar", cost=None, n_neighbors=2))
    return out


def _cfg_sk(tier):
    out = []
    out.append(dict(n=2, nq=1, K=3, cls_order="cyclic", cost="sym", fitfn="fit"))
    for (n, nq, K) in ([(2, 1, 2), (2, 1, 3)] if tier == "quick" else [(2, 1, 2), (2, 1, 3), (3, 2, 3), (3, 1, 2)]):
        for order in ("sorted", "unsorted"):
            for cost in (None, "sym"):
                for fitfn in ("fit", "partial_fit"):
                    if cost and (n, nq, K) == (3, 2, 3):
                        continue
                    out.append(dict(n=n, nq=nq, K=K, cls_order=order, cost=cost, fitfn=fitfn))
    return out


UNITS = ["skactiveml.base:ClassFrequencyEstimator.predict_proba", "skactiveml.base:SkactivemlClassifier.predict",
         "skactiveml.base:SkactivemlClassifier._validate_data", "skactiveml.base:ClassFrequencyEstimator._validate_data",
         "skactiveml.classifier._parzen_window_classifier:ParzenWindowClassifier.fit",
         "skactiveml.classifier._parzen_window_classifier:ParzenWindowClassifier.predict_freq",
         "skactiveml.classifier._wrapper:SklearnClassifier._fit", "skactiveml.classifier._wrapper:SklearnClassifier.predict_proba",
         "skactiveml.classifier._wrapper:SklearnClassifier.predict", "skactiveml.utils._validation:check_cost_matrix",
         "skactiveml.utils._validation:check_class_prior", "skactiveml.utils._aggregation:compute_vote_vectors",
         "skactiveml.utils._selection:rand_argmin"]
HARNESSES = [
    Harness("parzen_window_precomputed", sym_pwc, replay_pwc, _cfg_pwc, UNITS[:6] + UNITS[9:], required_witnesses=("no_labels", "single_class_present"),
            timeout_ms=30000),
    Harness("sklearn_wrapper", sym_sklearn, replay_sklearn, _cfg_sk, UNITS[1:3] + UNITS[6:10] + UNITS[12:],
            required_witnesses=("estimator_saw_fewer_classes", "no_labels"), timeout_ms=30000),
]
BOUNDS = dict(quick="n_train <= 2, n_query <= 2, K <= 3 classes (declared in sorted and unsorted order), every label/missing pattern, "
                    "symbolic kernel matrix (>= 0), sample weights (>= 0), class prior (scalar), cost matrix (fully symbolic, >= 0), "
                    "symbolic estimator probabilities; fit and partial_fit for the sklearn wrapper",
              thorough="n_train <= 3, K <= 3, vector priors, n_neighbors in {1,2}; symbolic cost matrices up to 3 training x 1 query x 2 classes / "
                       "2 x 1 x 3 (3 x 2 x 3 only without cost matrix)",
              outside="MixtureModelClassifier, AnnotatorEnsembleClassifier, AnnotatorLogisticRegression (EM / scipy.optimize: no bounded "
                      "encoding), SlidingWindowClassifier (delegates to the wrapped classifier), rbf kernels (only 'precomputed'), "
                      "numerical behaviour of real scikit-learn estimators, floating point rounding")
ASSUMPTIONS = [
    "kernel values, weights, priors and costs are non-negative finite reals (documented domains)",
    "wrapped scikit-learn estimator = stub: classes_ = unique labels seen, predict_proba on the simplex over classes_ "
    "(uninterpreted function of the row), predict = argmax",
    "z3 nonlinear real arithmetic decides normalisation (rows sum to one) and expected-cost comparisons",
]


# ---------------------------------------------------------------- SklearnClassifier around an estimator that cannot be fitted
def sc_unfittable(d, n, nq, K, cls_order, fitfn):
    """the wrapped estimator raises in fit: predict_proba falls back to the label frequencies (uniform without labels),
    one column per declared class in classes_ order; predict returns members of classes_"""
    from sklearn.base import BaseEstimator, ClassifierMixin
    from skactiveml.classifier import SklearnClassifier

    class Unfittable(ClassifierMixin, BaseEstimator):
        def fit(self, X, y, sample_weight=None):
            raise ValueError("this estimator cannot be fitted")

        def partial_fit(self, X, y, classes=None, sample_weight=None):
            raise ValueError("this estimator cannot be fitted")

        def predict_proba(self, X):
            raise NotImplementedError

        def predict(self, X):
            raise NotImplementedError
    classes = CLASS_SETS[cls_order][:K]
    idx = [d.choose(f"label{i}", [-1] + list(range(K))) for i in range(n)]
    y = d.arr([NAN if k < 0 else classes[k] for k in idx])
    X = d.arr([[float(i)] for i in range(n)], shape=(n, 1))
    seed = d.integer("seed", 0, 2 ** 31 - 2)
    if not d.sym and not getattr(d, "_seed_sweep", False):
        # concrete replay: a decision that depends on a random draw shows under some seeds only
        d._seed_sweep = True
        try:
            for sd in [seed] + list(range(12)):
                d._forced_seed = sd
                sc_unfittable(d, n, nq, K, cls_order, fitfn)
        finally:
            d._seed_sweep = False
            d._forced_seed = None
        return
    if not d.sym and getattr(d, "_forced_seed", None) is not None:
        seed = d._forced_seed
    clf = SklearnClassifier(Unfittable(), classes=classes, random_state=seed)
    try:
        getattr(clf, fitfn)(X, y)
    except (core.Unencodable, core.PathAbort):
        raise
    except Exception as e:
        d.prove(False, "unfittable:fit_does_not_fail", info=dict(error=repr(e)[:160]))
        return
    Xq = d.arr([[d.fl(f"q{i}")] for i in range(nq)], shape=(nq, 1))
    try:
        P = clf.predict_proba(Xq)
        pred = clf.predict(Xq)
    except (core.Unencodable, core.PathAbort):
        raise
    except Exception as e:
        d.prove(False, "unfittable:predict_falls_back", info=dict(error=repr(e)[:160]))
        return
    cs = sorted(classes)
    d.prove(tuple(np.shape(P)) == (nq, K), "unfittable:proba_shape", info=dict(shape=list(np.shape(P))))
    if tuple(np.shape(P)) != (nq, K):
        return
    counts = [sum(1 for k in idx if k >= 0 and classes[k] == cv) for cv in cs]
    tot = sum(counts)
    flat = d.flat(P)
    for i in range(nq):
        for k in range(K):
            want = counts[k] / tot if tot else 1.0 / K
            d.prove(d.eq(flat[i * K + k], want, 1e-12), "unfittable:proba_is_label_frequency", info=dict(cls=cs[k], counts=counts))
    best = max(counts) if tot else 0
    for v in d.flat(pred):
        ok = False
        opt = False
        for k, cv in enumerate(cs):
            hit = d.eq(v, cv) if d.sym else bool(v == cv)
            ok = core.b_or(ok, hit) if d.sym else (ok or hit)
            if counts[k] == best:
                opt = core.b_or(opt, hit) if d.sym else (opt or hit)
        d.prove(ok, "unfittable:predict_returns_member_of_classes")
        # the most probable class under the fallback probabilities (any class without labels)
        d.prove(opt, "unfittable:predict_is_a_most_frequent_class", info=dict(counts=counts))
    d.witness(0 < tot and counts[-1] == 0, "last_class_unobserved")
    d.witness(tot == 0, "no_labels")


from harness.common import dual_harness  # noqa: E402

HARNESSES.append(dual_harness(
    "sklearn_wrapper_unfittable", sc_unfittable,
    lambda tier: [dict(n=n, nq=2, K=K, cls_order=o, fitfn=f) for n in ((2,) if tier == "quick" else (2, 3)) for K in (2, 3)
                  for o in ("sorted", "cyclic") for f in ("fit", "partial_fit")],
    UNITS[6:9], required_witnesses=("last_class_unobserved", "no_labels")))


# ---------------------------------------------------------------- MixtureModelClassifier around a stub mixture model
def _stub_mixture(d, n_components):
    """sklearn GaussianMixture by contract: fit returns self; predict_proba rows (responsibilities) lie on the simplex and
    are a function of the (concrete) row: chosen by the explorer from a menu of dyadic vectors, cached per row - so the
    class frequencies stay linear in the symbolic sample weights"""
    from sklearn.mixture import GaussianMixture
    MENU = [(1.0, 0.0), (0.5, 0.5), (0.25, 0.75)]

    class StubMixture(GaussianMixture):
        def fit(self, X, y=None):
            self.converged_ = True
            return self

        def predict_proba(self, X):
            X = np.asarray(arrays.raw(arrays.asnd(X)) if d.sym else X, dtype=float)
            out = np.zeros((len(X), self.n_components))
            for i, r in enumerate(X):
                out[i] = MENU[d.choose(f"resp[{float(r[0])}]", [0, 1, 2]) if f"resp[{float(r[0])}]" not in _RESP else _RESP[f"resp[{float(r[0])}]"]]
                _RESP.setdefault(f"resp[{float(r[0])}]", MENU.index(tuple(out[i])))
            return arrays.SymNd(out) if d.sym else out
    _RESP = {}
    return StubMixture(n_components=n_components)


def sc_mixture(d, n, nq, K, cls_order, weights, prior, cost):
    from skactiveml.classifier import MixtureModelClassifier
    classes = CLASS_SETS[cls_order][:K]
    idx = [d.choose(f"label{i}", [-1] + list(range(K))) for i in range(n)]
    y = d.arr([NAN if k < 0 else classes[k] for k in idx])
    X = d.arr([[float(i)] for i in range(n)], shape=(n, 1))      # concrete rows: the mixture stub is keyed by the row
    sw = d.arr([d.fl(f"w{i}", lo=0.0, hi=4.0) for i in range(n)]) if weights else None
    C = None
    if cost:
        C = [[0.0 if a == b else float(1 + ((2 * a + b) % 3)) for b in range(K)] for a in range(K)]   # asymmetric, zero diagonal
    seed = d.integer("seed", 0, 2 ** 31 - 2)
    clf = MixtureModelClassifier(mixture_model=_stub_mixture(d, 2), classes=classes, class_prior=prior, cost_matrix=C, random_state=seed)
    try:
        clf.fit(X, y, sw)
        Xq = d.arr([[float(d.choose(f"query_row{i}", [0, 5]))] for i in range(nq)], shape=(nq, 1))   # a training row or a new one
        P = clf.predict_proba(Xq)
        pred = clf.predict(Xq)
    except (core.Unencodable, core.PathAbort):
        raise
    except Exception as e:
        d.prove(False, "mixture:fit_predict_succeed", info=dict(error=repr(e)[:160]))
        return
    cs = sorted(classes)
    d.prove(tuple(np.shape(P)) == (nq, K), "mixture:proba_shape", info=dict(shape=list(np.shape(P))))
    if tuple(np.shape(P)) != (nq, K):
        return
    flat = d.flat(P)
    lab = [k for k in idx if k >= 0]
    for i in range(nq):
        row = flat[i * K:(i + 1) * K]
        tot = 0.0
        for v in row:
            d.prove(d.le(0, v), "mixture:proba_non_negative")
            tot = tot + v
        d.prove(d.eq(tot, 1.0, 1e-9), "mixture:rows_sum_to_one")
        if not lab and not prior:
            for v in row:
                d.prove(d.eq(v, 1.0 / K, 1e-12), "mixture:uniform_without_labels")
    order = [classes.index(v) for v in cs]           # cost matrix is given in the order of `classes`
    Cs = [[(C[order[a]][order[b]] if C else (0.0 if a == b else 1.0)) for b in range(K)] for a in range(K)]
    for i, v in enumerate(d.flat(pred)):
        member = [cv for cv in cs if (float(v) == cv if not core.is_sym(v) else False)]
        d.prove(bool(member), "mixture:predict_returns_member_of_classes")
        if not member:
            continue
        p = cs.index(member[0])
        row = flat[i * K:(i + 1) * K]

        def exp_cost(k):
            acc = 0.0
            for a in range(K):
                acc = acc + row[a] * Cs[a][k]
            return acc
        for k in range(K):
            d.prove(d.le(exp_cost(p), exp_cost(k) + 0.0), "mixture:predict_minimises_expected_cost", info=dict(predicted=cs[p], other=cs[k]))
    d.witness(bool(lab) and len(set(lab)) < K, "some_class_unobserved")
    d.witness(not lab, "no_labels")


HARNESSES.append(dual_harness(
    "mixture_model_classifier", sc_mixture,
    lambda tier: [dict(n=2, nq=1, K=K, cls_order=o, weights=w, prior=pr, cost=cm)
                  for K, o in ((2, "sorted"), (3, "cyclic")) for w in (False, True) for pr in (0.0, 0.5) for cm in (False, True)
                  if tier != "quick" or (w, pr, cm) in ((False, 0.0, False), (True, 0.5, True), (True, 0.0, True))],
    ["skactiveml.classifier._mixture_model_classifier:MixtureModelClassifier.fit",
     "skactiveml.classifier._mixture_model_classifier:MixtureModelClassifier.predict_freq",
     "skactiveml.base:ClassFrequencyEstimator.predict_proba", "skactiveml.base:SkactivemlClassifier.predict",
     "skactiveml.utils._aggregation:compute_vote_vectors"],
    required_witnesses=("some_class_unobserved", "no_labels"), timeout_ms=30000))


# ---------------------------------------------------------------- AnnotatorEnsembleClassifier (stub members)
def sc_annot_ensemble(d, n, A, K, voting):
    """one stub member per annotator (hard voting: their argmax predictions; soft voting: their probabilities): the
    ensemble's probabilities are a distribution over classes_ for every label matrix - also when some or all annotators
    have not provided a single label"""
    from harness import models
    from skactiveml.classifier.multiannotator import AnnotatorEnsembleClassifier
    idx = [[d.choose(f"label{i}_{a}", [-1] + list(range(K))) for a in range(A)] for i in range(n)]
    X = d.arr([[d.fl(f"x{i}", lo=-4.0, hi=4.0)] for i in range(n)], shape=(n, 1))
    Xq = d.arr([[d.fl("q0", lo=-4.0, hi=4.0)]], shape=(1, 1))
    Y = d.arr([[NAN if k < 0 else float(k) for k in row] for row in idx], shape=(n, A))
    seed = d.integer("seed", 0, 2 ** 31 - 2)
    if d.sym:
        members = [(f"m{a}", models.StubClassifier(n_classes=K, gen=30 + a)) for a in range(A)]
    else:
        from skactiveml.classifier import ParzenWindowClassifier
        members = [(f"m{a}", ParzenWindowClassifier(random_state=int(seed) + a)) for a in range(A)]
    clf = AnnotatorEnsembleClassifier(estimators=members, classes=[float(k) for k in range(K)], voting=voting, random_state=seed)
    try:
        clf.fit(X, Y)
        P = clf.predict_proba(Xq)
        pred = clf.predict(Xq)
    except (core.Unencodable, core.PathAbort):
        raise
    except Exception as e:
        d.prove(False, "ensemble:fit_predict_succeed", info=dict(error=repr(e)[:160]))
        return
    d.prove(tuple(np.shape(P)) == (1, K), "ensemble:proba_shape", info=dict(shape=list(np.shape(P))))
    if tuple(np.shape(P)) != (1, K):
        return
    tot = 0.0
    for v in d.flat(P):
        if d.sym:
            d.prove(core.b_and(core.b_not(core.boolexpr(core.s_isnan(v))), core.boolexpr(core.s_le(0, v))), "ensemble:proba_non_negative_number")
        else:
            d.prove(bool(np.isfinite(v) and v >= 0), "ensemble:proba_non_negative_number")
        tot = tot + v
    d.prove(d.eq(tot, 1.0, 1e-9), "ensemble:rows_sum_to_one")
    for v in d.flat(pred):
        d.prove(any(float(v) == float(k) for k in range(K)) if not core.is_sym(v) else False, "ensemble:predict_returns_member_of_classes")
    nolab = [a for a in range(A) if all(idx[i][a] < 0 for i in range(n))]
    d.witness(0 < len(nolab) < A, "one_silent_annotator")
    d.witness(len(nolab) == A, "no_labels")


HARNESSES.append(dual_harness(
    "annotator_ensemble", sc_annot_ensemble,
    lambda tier: [dict(n=2, A=2, K=K, voting=v) for v in ("hard", "soft") for K in ((2,) if tier == "quick" else (2, 3))],
    ["skactiveml.classifier.multiannotator._annotator_ensemble_classifier:AnnotatorEnsembleClassifier.fit",
     "skactiveml.classifier.multiannotator._annotator_ensemble_classifier:AnnotatorEnsembleClassifier.predict_proba",
     "skactiveml.base:SkactivemlClassifier.predict", "skactiveml.utils._aggregation:compute_vote_vectors"],
    required_witnesses=("one_silent_annotator", "no_labels"), product_abstraction=False, timeout_ms=30000))


# ---------------------------------------------------------------- AnnotatorLogisticRegression (bounded, see C12)
from harness import C12 as _C12  # noqa: E402,F401  (registers the optimiser / softmax stand-ins before the facade is installed)


def sc_alr_proba(d, n, A):
    """AnnotatorLogisticRegression after two EM iterations (one-gradient-step optimiser, harness/C12.py) with arbitrary
    non-negative label weights - incl. a sample whose labels all carry weight zero: finite probabilities that sum to one,
    finite annotator confusion matrices"""
    from skactiveml.classifier.multiannotator import AnnotatorLogisticRegression
    idx = [[d.choose(f"label{i}_{a}", [-1, 0, 1]) for a in range(A)] for i in range(n)]
    if not any(k >= 0 for r in idx for k in r):
        if d.sym:
            raise core.PathAbort("no label")
        return
    xs = [d.fl(f"x{i}", lo=-2.0, hi=2.0) for i in range(n)]
    # (one label weight is 0 or 1, the others are 1: a sample whose only label carries weight zero is the case of interest;
    #  fully symbolic weights exceed the quick budget)
    ws = [[float(d.choose("w0_0", [0, 1])) if (i, a) == (0, 0) else 1.0 for a in range(A)] for i in range(n)]
    X = d.arr([[x] for x in xs], shape=(n, 1))
    y = d.arr([[NAN if k < 0 else float(k) for k in r] for r in idx], shape=(n, A))
    try:
        clf = AnnotatorLogisticRegression(classes=[0, 1], max_iter=2, fit_intercept=False, random_state=0).fit(X, y, d.arr(ws, shape=(n, A)))
        P = clf.predict_proba(d.arr([[d.fl("q0", lo=-2.0, hi=2.0)]], shape=(1, 1)))
    except (core.Unencodable, core.PathAbort):
        raise
    except Exception as e:
        d.prove(False, "alr:fit_predict_succeed", info=dict(error=repr(e)[:160]))
        return
    def finite(v):
        return core.b_and(core.b_not(core.boolexpr(core.s_isnan(v))), core.boolexpr(core.s_isfinite(v))) if d.sym else bool(np.isfinite(v))
    for v in d.flat(clf.W_):
        d.prove(finite(v), "alr:weights_finite")
    for v in d.flat(clf.Alpha_):
        d.prove(finite(v), "alr:confusion_matrices_finite")
    for v in d.flat(P):
        d.prove(finite(v), "alr:proba_finite")
    d.witness(True, "ran")


HARNESSES.append(dual_harness(
    "annotator_logistic_regression", sc_alr_proba, lambda tier: [dict(n=2, A=2)],
    ["skactiveml.classifier.multiannotator._annotator_logistic_regression:AnnotatorLogisticRegression.fit",
     "skactiveml.classifier.multiannotator._annotator_logistic_regression:AnnotatorLogisticRegression.predict_proba"],
    required_witnesses=("ran",), product_abstraction=True, resample=10))
