"""C15 — regressor predictions are coherent with their predictive distribution.
NICKernelRegressor / NadarayaWatsonRegressor with a precomputed (fully symbolic)
kernel, ProbabilisticRegressor.predict / sample_y, and the NotFittedError
fallbacks of SklearnRegressor / SklearnNormalRegressor; each scenario runs
symbolically and, for replay, concretely on the unpatched code."""
from __future__ import annotations

import numpy as np
import z3

from harness.common import dual_harness
from symx import arrays, core

PID = "C15"
NAN = float("nan")


def _targets(d, n, missing=NAN):
    miss = [d.choose(f"missing{i}", [0, 1]) for i in range(n)]
    # (with the numeric sentinel -1 the targets are kept non-negative, i.e. different from it)
    yv = [missing if miss[i] else d.fl(f"y{i}", lo=(None if missing != missing else 0.0)) for i in range(n)]
    return miss, yv, d.arr(yv), [i for i in range(n) if not miss[i]]


def _dist_params(d, rv):
    """(df, loc, scale) of the distribution object returned by predict_target_distribution"""
    if d.sym:
        return rv.df, rv.loc, rv.scale
    return rv.kwds.get("df"), rv.kwds.get("loc"), rv.kwds.get("scale")


def _make_nic(d, kind, n, nq):
    import skactiveml.regressor as R
    if kind == "nic_default":
        return R.NICKernelRegressor(), True
    if kind == "nic_symbolic_prior":
        k0, n0 = d.fl("kappa_0", lo=0.0), d.fl("nu_0", lo=0.0)
        m0, s0 = d.fl("mu_0"), d.fl("sigma_sq_0", lo=0.0)
        if d.sym:
            d.c.assume(core.b_and(core.boolexpr(core.s_lt(0, k0)), core.boolexpr(core.s_lt(0, n0))))  # proper prior
        return R.NICKernelRegressor(kappa_0=k0, nu_0=n0, mu_0=m0, sigma_sq_0=s0), True
    if kind == "nadaraya_watson":
        return R.NadarayaWatsonRegressor(), False
    raise ValueError(kind)


def sc_posterior(d, kind, n, nq, weights):
    miss, yv, y, lab = _targets(d, n)
    reg, proper = _make_nic(d, kind, n, nq)
    ws = [d.fl(f"w{i}", lo=0.0) for i in range(n)] if weights else None
    xs = [d.fl(f"x{i}") for i in range(n)]
    try:
        reg.fit(d.arr([[x] for x in xs], shape=(n, 1)), y, None if ws is None else d.arr(ws))
    except ValueError as e:
        # documented: weights that are all zero on the labeled samples are rejected - and nothing else is
        if not weights:
            raise
        if not lab:
            # no labeled sample: there is no weight to object to - the training set "zero labeled samples" is inside the
            # property's quantifier with and without weights
            d.prove(False, "fit_accepts_zero_labeled_samples_with_weights", info=dict(error=repr(e)[:120]))
            return
        tot = ws[lab[0]]
        for i in lab[1:]:
            tot = tot + ws[i]
        d.prove(d.eq(tot, 0.0), "fit_rejects_only_zero_weight_on_the_labeled_samples", info=dict(error=repr(e)[:120]))
        return
    # query points; the kernel between them and the labeled samples is an uninterpreted positive function (rbf in the replay)
    # (query points anywhere: far from every labeled sample the kernel underflows to exactly 0 in floats, which the
    #  kernel stub allows - the replay re-draws the query point in this range)
    far = 1000.0 if proper else 4.0
    if not proper and d.sym:
        # Nadaraya-Watson has no prior to fall back to: where the kernel underflows to 0 for every labeled sample no
        # prediction is defined (outside the claim); its kernel values are kept strictly positive
        d.c.kernel_strictly_positive = True
    Kq = d.arr([[d.fl(f"q{i}", lo=-far, hi=far)] for i in range(nq)], shape=(nq, 1))
    if not proper and len(lab) < 1:
        return  # Nadaraya-Watson needs at least one label (property's quantifier)
    try:
        rv = reg.predict_target_distribution(Kq)
    except (core.Unencodable, core.PathAbort):
        raise
    except Exception as e:
        d.prove(False, "predict_target_distribution_succeeds", info=dict(error=repr(e)[:200]))
        return
    df, loc, scale = _dist_params(d, rv)
    for v in d.flat(scale):
        if d.sym:
            ok = core.b_and(core.b_not(core.boolexpr(core.s_isnan(v))), core.boolexpr(core.s_isfinite(v)), core.boolexpr(core.s_le(0, v)))
        else:
            ok = bool(np.isfinite(v) and v >= 0)
        if proper or len(lab) >= 2:
            d.prove(ok, "scale_finite_and_non_negative", info=dict(labeled=len(lab)))
    for v in d.flat(df):
        d.prove(d.lt(0, v) if (proper or lab) else True, "degrees_of_freedom_positive")
    for v in d.flat(loc):
        if d.sym:
            d.prove(core.boolexpr(core.s_isfinite(v)), "location_finite")
        else:
            d.prove(bool(np.isfinite(v)), "location_finite")
    # predict is exactly mean / std / entropy of that distribution
    exp_mean, exp_std, exp_ent = rv.mean(), rv.std(), rv.entropy()
    for rs in (False, True):
        for re_ in (False, True):
            out = reg.predict(Kq, return_std=rs, return_entropy=re_)
            out = out if isinstance(out, tuple) else (out,)
            want = [exp_mean] + ([exp_std] if rs else []) + ([exp_ent] if re_ else [])
            d.prove(len(out) == len(want), "predict_returns_requested_statistics", info=dict(return_std=rs, return_entropy=re_))
            for o, w in zip(out, want):
                d.prove(d.eq_arr(o, w, 1e-12), "predict_equals_statistics_of_returned_distribution",
                        info=dict(return_std=rs, return_entropy=re_))
    # sample_y: shape and reproducibility
    seed = d.integer("seed", 0, 2 ** 31 - 2)
    s1 = reg.sample_y(Kq, n_samples=2, random_state=seed)
    s2 = reg.sample_y(Kq, n_samples=2, random_state=seed)
    d.prove(tuple(np.shape(s1)) == (nq, 2), "sample_y_shape", info=dict(shape=tuple(np.shape(s1))))
    if tuple(np.shape(s1)) == tuple(np.shape(s2)):
        d.prove(d.eq_arr(s1, s2), "sample_y_reproducible_for_fixed_random_state")
    d.witness(len(lab) == 0, "no_labels")
    d.witness(len(lab) == 1, "one_label")


def make_unfittable(npm, partial=False):
    """partial=True models estimators such as sklearn's RANSACRegressor (one labeled sample): fit sets some fitted
    attributes and then fails, so that a later predict passes check_is_fitted and dies with an AttributeError"""
    from sklearn.base import BaseEstimator, RegressorMixin
    from sklearn.exceptions import NotFittedError

    class Unfittable(RegressorMixin, BaseEstimator):
        def fit(self, X, y, sample_weight=None):
            if partial:
                self.n_trials_ = 0
            raise ValueError("this estimator cannot be fitted")

        def predict(self, X, return_std=False):
            if not hasattr(self, "n_trials_"):
                raise NotFittedError("not fitted")
            return self.model_.predict(X)

        def sample_y(self, X, n_samples=1, random_state=None):
            raise NotFittedError("not fitted")
    return Unfittable()


def sc_fallback(d, n, nq, normal, partial=False, missing=NAN):
    import skactiveml.regressor as R
    miss, yv, y, lab = _targets(d, n, missing)
    xs = [d.fl(f"x{i}") for i in range(n)]
    X = d.arr([[x] for x in xs], shape=(n, 1))
    Kc = R.SklearnNormalRegressor if normal else R.SklearnRegressor
    reg = Kc(make_unfittable(d.np, partial), missing_label=missing)
    try:
        reg.fit(X, y)
    except Exception as e:
        d.prove(False, "fit_does_not_fail_when_estimator_cannot_be_fitted", info=dict(error=repr(e)[:200]))
        return
    Xq = d.arr([[d.fl(f"q{i}")] for i in range(nq)], shape=(nq, 1))
    if lab:
        tot = 0.0
        for i in lab:
            tot = tot + yv[i]
        mean = tot / len(lab)
    else:
        mean = 0.0
    try:
        if normal:
            out = reg.predict(Xq, return_std=True)
            pm, ps = out
        else:
            pm = reg.predict(Xq)
            ps = None
    except (core.Unencodable, core.PathAbort):
        raise
    except Exception as e:
        d.prove(False, "predict_falls_back_instead_of_failing", info=dict(error=repr(e)[:200]))
        return
    d.prove(tuple(np.shape(pm)) == (nq,), "fallback_shape")
    for v in d.flat(pm):
        d.prove(d.eq(v, mean, 1e-12), "fallback_predicts_label_mean_or_zero", info=dict(labeled=len(lab)))
    if ps is not None:
        for v in d.flat(ps):
            if len(lab) <= 1:
                d.prove(d.eq(v, 1.0), "fallback_std_is_one_with_less_than_two_labels")
            else:
                d.prove(d.le(0, v), "fallback_std_non_negative")
    # sample_y of the wrapper falls back as well: shape (n_query, n_samples), reproducible for a fixed random_state
    # (SklearnRegressor: the wrapped stub offers sample_y and raises NotFittedError, so the wrapper's own fallback draws)
    if True:
        seed = d.integer("seed", 0, 2 ** 31 - 2)
        try:
            s1 = reg.sample_y(Xq, n_samples=2, random_state=seed)
            s2 = reg.sample_y(Xq, n_samples=2, random_state=seed)
        except (core.Unencodable, core.PathAbort):
            raise
        except Exception as e:
            d.prove(False, "sample_y_falls_back_instead_of_failing", info=dict(error=repr(e)[:200]))
            return
        d.prove(tuple(np.shape(s1)) == (nq, 2), "fallback_sample_y_shape", info=dict(shape=tuple(np.shape(s1))))
        if tuple(np.shape(s1)) == tuple(np.shape(s2)):
            d.prove(d.eq_arr(s1, s2), "fallback_sample_y_reproducible_for_fixed_random_state")
    d.witness(len(lab) == 0, "no_labels")


UNITS = ["skactiveml.regressor._nic_kernel_regressor:NICKernelRegressor.fit",
         "skactiveml.regressor._nic_kernel_regressor:NICKernelRegressor._estimate_ml_params",
         "skactiveml.regressor._nic_kernel_regressor:NICKernelRegressor._estimate_update_params",
         "skactiveml.regressor._nic_kernel_regressor:NICKernelRegressor.predict_target_distribution",
         "skactiveml.regressor._nic_kernel_regressor:_combine_params",
         "skactiveml.base:ProbabilisticRegressor.predict", "skactiveml.base:ProbabilisticRegressor.sample_y",
         "skactiveml.regressor._wrapper:SklearnRegressor._fit", "skactiveml.regressor._wrapper:SklearnRegressor.predict",
         "skactiveml.regressor._wrapper:SklearnNormalRegressor.predict_target_distribution"]

HARNESSES = [
    dual_harness("nic_posterior", sc_posterior,
                 lambda tier: [dict(kind=k, n=n, nq=1, weights=w) for k in ("nic_default", "nic_symbolic_prior", "nadaraya_watson")
                               for n in ((1, 2) if tier == "quick" else (1, 2, 3)) for w in (False, True)
                               if not (k == "nic_symbolic_prior" and n > 2)],
                 UNITS[:7], required_witnesses=("no_labels", "one_label"), timeout_ms=60000, product_abstraction=True, resample=40),
    dual_harness("wrapper_fallback", sc_fallback,
                 lambda tier: [dict(n=n, nq=2, normal=nm, partial=pt) for n in ((1, 2, 3) if tier == "quick" else (1, 2, 3, 4)) for nm in (False, True) for pt in (False, True)]
                 + [dict(n=3, nq=1, normal=nm, partial=False, missing=-1.0) for nm in (False, True)],
                 UNITS[7:], required_witnesses=("no_labels",)),
]
BOUNDS = dict(quick="n_train <= 2 (wrapper fallback <= 3), 1-2 query points, every missing pattern, symbolic features and targets, "
                    "uninterpreted positive kernel, sample weights, symbolic proper prior (kappa_0, nu_0 > 0); 60 s per nonlinear query",
              thorough="n_train <= 3",
              outside="scipy's t / norm internals (stub records parameters; the df dependent factor of std and the entropy constant are not "
                      "modelled), kernels that evaluate to exactly 0, real scikit-learn regressors, rounding")
ASSUMPTIONS = [
    "scipy.stats.t / norm frozen distributions by contract (location-scale family recording df, loc, scale)",
    "kernel = uninterpreted symmetric function in [0, 1] with k(x, x) = 1 (0 = underflow for distant points; strictly positive for Nadaraya-Watson; rbf in the replay)",
    "products / quotients of two symbolic terms are abstracted by uninterpreted functions with sign axioms (over-approximation: "
    "the sign argument for the posterior scale goes through; counterexamples must replay)",
    "sqrt is an uninterpreted function with sqrt(x) >= 0 for x >= 0 and NaN for x < 0; nonlinear real arithmetic by z3",
]


# ---------------------------------------------------------------- the ML variance under the standard model of float arithmetic
def sc_variance_rounding(d, n, weights):
    """NICKernelRegressor / NadarayaWatsonRegressor._estimate_ml_params with every arithmetic result perturbed by a
    relative rounding error (1 + delta), |delta| <= 2**-10 (standard model of floating-point arithmetic; overflow /
    underflow outside): the variance estimate stays non-negative for ALL roundings. A one-pass formula
    E[y^2] - E[y]^2 does not (cancellation) - in exact reals the two are the same number, which is why this scenario
    exists. Concrete replay: targets with large offsets (1e6 .. 2e9) through the real code."""
    import skactiveml.regressor as R
    if d.sym:
        xs = [d.fl(f"x{i}", lo=-2.0, hi=2.0) for i in range(n)]
        ys = [d.fl(f"y{i}") for i in range(n)]
        ws = [d.fl(f"w{i}", lo=0.0, hi=4.0) for i in range(n)] if weights else None
        if weights:
            tot = 0.0
            for w in ws:
                tot = core.s_add(tot, w)
            d.c.assume(core.s_lt(0, tot))
        reg = R.NICKernelRegressor().fit(d.arr([[x] for x in xs], shape=(n, 1)), d.arr(ys), d.arr(ws) if weights else None)
        xq = d.arr([[d.fl("q", lo=-2.0, hi=2.0)]], shape=(1, 1))
        d.c.rounding_eps = z3.RealVal("1/1024")
        try:
            N, mu, var = reg._estimate_ml_params(xq)
        finally:
            d.c.rounding_eps = None
        v = d.flat(var)[0]
        # hint for the model search: all feature rows equal (every kernel value is then 1)
        same_rows = z3.And(*[core.lift(x).r == core.lift(xs[0]).r for x in xs[1:]], core.lift(d.flat(xq)[0]).r == core.lift(xs[0]).r)
        ok = d.c.prove_with_tactic(core.lift(v).r >= 0, "ml_variance_non_negative_under_rounding", hints=[same_rows])
        if not ok and d.c.cex:
            # (the patched Ctx.prove attaches concrete inputs to counterexamples; do the same here)
            from harness import common as _cm
            cx = d.c.cex[-1]
            if getattr(cx, "model", None) is not None:
                cx.inputs = _cm.concretize(getattr(d.c, "inputs", {}), cx.model)
                cx.inputs["__rng__"] = {}
                cx.model = None
        d.witness(True, "ran")
        return
    # concrete: offsets at which cancellation shows in double precision
    rs = np.random.RandomState(0)
    for offset in (1e6, 1e7, 1e8, 1e9, 1.7e9, 2e9):
        for _ in range(3):
            X = rs.uniform(-2, 2, size=(max(n, 5), 1))
            y = offset + rs.randint(0, 6, size=len(X)).astype(float)
            w = rs.uniform(0.5, 2.0, size=len(X)) if weights else None
            reg = R.NICKernelRegressor(metric_dict={"gamma": 0.5}).fit(X, y, w)
            N, mu, var = reg._estimate_ml_params(rs.uniform(-2, 2, size=(4, 1)))
            if not np.all(var >= 0):
                d.prove(False, "ml_variance_non_negative_under_rounding", info=dict(offset=offset, variance=np.asarray(var).tolist()))
                return


HARNESSES.append(dual_harness(
    "ml_variance_rounding", sc_variance_rounding,
    # (n = 3 with weights: the nonlinear solver answers `unknown` within its budget - not listed rather than reported inconclusive on every run)
    lambda tier: [dict(n=n, weights=w) for n in ((2,) if tier == "quick" else (2, 3)) for w in (False, True) if not (n == 3 and w)],
    [UNITS[1]], required_witnesses=("ran",), timeout_ms=60000))
