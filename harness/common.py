"""Shared machinery for the per-property harness modules: job runner (one
process per harness configuration), counterexample concretisation, replay on
the unpatched code, known findings, evidence files, exit protocol."""
from __future__ import annotations

import hashlib
import importlib
import inspect
import json
import math
import multiprocessing as mp
import os
import sys
import signal
import time
import traceback
import warnings

VERIF = os.path.dirname(os.path.dirname(os.path.abspath(__file__)))
REPO = os.environ.get("VERIF_REPO", "/repo")
if REPO not in sys.path:
    sys.path.insert(0, REPO)
if VERIF not in sys.path:
    sys.path.insert(0, VERIF)

import numpy as np  # noqa: E402
import z3  # noqa: E402

from symx import arrays, core, facade  # noqa: E402
from symx.core import Sym, is_sym  # noqa: E402

core.REPO_PATH = os.path.realpath(REPO)

warnings.filterwarnings("ignore")


# --------------------------------------------------------------------------
class Harness:
    """One unit-level harness.

    sym(c, **params): executes the real code symbolically, registers inputs via
        rec(c, name, value) and states obligations via c.prove(...).
    replay(inputs, label, **params) -> (reproduced: bool, detail: str): runs the
        UNPATCHED code on concrete inputs and evaluates predicate `label`.
    configs(tier) -> list of params dicts.
    """

    def __init__(self, name, sym, replay, configs, units, timeout_ms=20000, product_abstraction=False,
                 required_witnesses=(), max_paths=100000, concrete=None, notes=""):
        self.name = name
        self.sym = sym
        self.replay = replay
        self.configs = configs
        self.units = units  # list of "module:qualname" executed symbolically
        self.timeout_ms = timeout_ms
        self.product_abstraction = product_abstraction
        self.required_witnesses = tuple(required_witnesses)
        self.max_paths = max_paths
        self.concrete = concrete  # differential validation: concrete(rng) -> int (#traces validated)
        self.notes = notes


def rec(c, name, value):
    """register a named input of the current path (for counterexample models)"""
    if not hasattr(c, "inputs"):
        c.inputs = {}
    # arrays are snapshotted: code under test that writes into an argument must not rewrite the recorded input
    if isinstance(value, (arrays.SymNd, np.ndarray)):
        value = value.copy()
    c.inputs[name] = value


def concretize(v, m):
    if isinstance(v, arrays.SymNd):
        return _tolist(arrays.raw(v), m)
    if isinstance(v, np.ndarray):
        return _tolist(v, m)
    if isinstance(v, Sym) and is_sym(v):
        return core.model_value(m, v)
    if isinstance(v, (list, tuple)):
        return [concretize(x, m) for x in v]
    if isinstance(v, dict):
        return {k: concretize(x, m) for k, x in v.items()}
    if isinstance(v, np.generic):
        return v.item()
    if isinstance(v, z3.ExprRef):
        r = m.eval(v, model_completion=True)
        if z3.is_int_value(r):
            return r.as_long()
        if z3.is_rational_value(r):
            return r.numerator_as_long() / r.denominator_as_long()
        if z3.is_true(r):
            return True
        if z3.is_false(r):
            return False
        return str(r)
    return v


def _tolist(a, m):
    return concretize(np.asarray(a, dtype=object).tolist() if a.ndim else a[()], m)


def dyadic_model(c, prop_neg, scale=64, timeout_ms=3000):
    """Try to find a model of pc & prop_neg in which every recorded finite input
    real is a multiple of 1/scale (exactly representable). Returns model or None."""
    reals = []
    for v in getattr(c, "inputs", {}).values():
        _collect_reals(v, reals)
    if not reals:
        return None
    s = c.solver
    s.push()
    try:
        s.set("timeout", timeout_ms)
        if prop_neg is not None:
            s.add(prop_neg)
        for i, r in enumerate(reals):
            k = z3.Int(f"dy!{i}")
            s.add(r * scale == z3.ToReal(k))
            s.add(k >= -8 * scale, k <= 8 * scale)
        res = s.check()
        c.stats.queries += 1
        if res == z3.sat:
            return s.model()
        return None
    finally:
        s.pop()
        s.set("timeout", c.timeout_ms)


def exact_model(c, neg, timeout_ms=15000):
    s = z3.Solver()
    s.set("timeout", timeout_ms)
    memo = {}
    try:
        for e in c.pc:
            s.add(core.exactify(e, memo))
        if neg is not None:
            s.add(core.exactify(neg, memo))
        # prefer exactly representable inputs
        reals = []
        for v in getattr(c, "inputs", {}).values():
            _collect_reals(v, reals)
        s.push()
        for i, r in enumerate(reals):
            k = z3.Int(f"dy!{i}")
            s.add(r * 16 == z3.ToReal(k), k >= -16 * 16, k <= 16 * 16)
        c.stats.queries += 1
        if s.check() == z3.sat:
            return s.model()
        s.pop()
        c.stats.queries += 1
        if s.check() == z3.sat:
            return s.model()
    except z3.Z3Exception:
        return None
    return None


def _collect_reals(v, out):
    if isinstance(v, arrays.SymNd):
        for x in arrays.raw(v).flat:
            _collect_reals(x, out)
    elif type(v) is core.SymFloat:
        if z3.is_const(v.r) and v.r.decl().kind() == z3.Z3_OP_UNINTERPRETED:
            out.append(v.r)
    elif isinstance(v, (list, tuple)):
        for x in v:
            _collect_reals(x, out)
    elif isinstance(v, dict):
        for x in v.values():
            _collect_reals(x, out)


def rng_table(c, m):
    """model values of every draw made on this path (for the scripted replay generator)"""
    out = []
    for seed, hist, i, kind, term in getattr(c, "draw_records", [])[:400]:
        try:
            sv = m.eval(seed, model_completion=True).as_long()
            v = m.eval(term, model_completion=True)
            if z3.is_int_value(v):
                val = v.as_long()
            elif z3.is_rational_value(v):
                val = v.numerator_as_long() / v.denominator_as_long()
            else:
                continue
            out.append(dict(seed=sv, hist=[list(h) for h in hist], i=i, kind=kind, value=val))
        except Exception:
            continue
    return out


# monkeypatch Ctx.prove to concretise inputs eagerly (models are not picklable) --
_orig_prove = core.Ctx.prove


def _prove(self, prop, label, info=None):
    ncex = len(self.cex)
    ok = _orig_prove(self, prop, label, info)
    if ok:
        pl_ = getattr(self, "proved_labels", None)
        if pl_ is None:
            pl_ = self.proved_labels = []
        if label not in pl_:
            pl_.append(label)
    if not ok and len(self.cex) > ncex:
        cex = self.cex[-1]
        p = prop.e if isinstance(prop, core.SymBool) else prop
        neg = None if core._isc(p) else z3.Not(p)
        m = None
        if self.product_abstraction:
            m = exact_model(self, neg)      # a model of the un-abstracted formula, if z3 finds one quickly
        if m is None:
            try:
                m = dyadic_model(self, neg)
            except z3.Z3Exception:
                m = None
        if m is None:
            m = cex.model
        cex.inputs = concretize(getattr(self, "inputs", {}), m)
        cex.inputs["__rng__"] = rng_table(self, m)
        cex.info = info if not callable(info) else info(m)
        cex.model = None
    return ok


core.Ctx.prove = _prove


# --------------------------------------------------------------------------
def _jsonable(x):
    if isinstance(x, float):
        if math.isnan(x):
            return {"__f__": "nan"}
        if math.isinf(x):
            return {"__f__": "inf" if x > 0 else "-inf"}
        return x
    if isinstance(x, (np.floating,)):
        return _jsonable(float(x))
    if isinstance(x, (np.integer,)):
        return int(x)
    if isinstance(x, (np.bool_,)):
        return bool(x)
    if isinstance(x, np.ndarray):
        return _jsonable(x.tolist())
    if isinstance(x, (list, tuple)):
        return [_jsonable(v) for v in x]
    if isinstance(x, dict):
        return {str(k): _jsonable(v) for k, v in x.items()}
    if x is None or isinstance(x, (str, int, bool)):
        return x
    return repr(x)


def _unjson(x):
    if isinstance(x, dict):
        if set(x) == {"__f__"}:
            return float(x["__f__"])
        return {k: _unjson(v) for k, v in x.items()}
    if isinstance(x, list):
        return [_unjson(v) for v in x]
    return x


def run_replay(h, inputs, label, params):
    """real seeds first; then the solver's draws through a scripted RandomState"""
    if label.startswith("unexpected_exception:"):
        want = label.split(":", 1)[1]
        try:
            rep, detail = h.replay(inputs, label, **params)
            if rep:
                return rep, detail
        except Exception as e:
            if type(e).__name__ == want and core._innermost_repo_frame(e) is not None:
                return True, (f"{h.name}{params}: the real code raised {e!r} at {core._innermost_repo_frame(e)} on inputs "
                              f"{ {k: v for k, v in inputs.items() if not k.startswith('__')} }")
            raise
        return False, "the exception did not reproduce"
    rep, detail = h.replay(inputs, label, **params)
    if rep or not inputs.get("__rng__"):
        return rep, detail
    from symx import replay_rng
    with replay_rng.scripted(inputs["__rng__"]):
        inp = dict(inputs)
        inp["__scripted__"] = True
        rep2, detail2 = h.replay(inp, label, **params)
    if rep2:
        return True, "[scripted-rng: draws taken from the solver model] " + str(detail2)
    return rep, detail


class JobTimeout(BaseException):
    pass


def _job(args):
    """worker: explore one harness configuration; replay counterexamples."""
    modname, hname, params, tier, deadline_s = args
    t0 = time.time()
    out = dict(harness=hname, params=params, cex=[], error=None)
    # hard wall-clock bound per configuration (3 x the exploration budget + 5 min for replays): the exploration budget is
    # only checked between paths, so real code that does not return on some input would otherwise block the check forever.
    # The timer keeps firing (an exception raised while a z3 callback is on the stack is swallowed there).
    def _hard(signum, frame):
        raise JobTimeout(f"configuration exceeded the hard bound of {int(3 * deadline_s + 300)} s")
    try:
        signal.signal(signal.SIGALRM, _hard)
        signal.setitimer(signal.ITIMER_REAL, 3 * deadline_s + 300, 5)
    except (ValueError, OSError):
        pass
    try:
        mod = importlib.import_module(modname)
        h = next(x for x in mod.HARNESSES if x.name == hname)
        del PENDING_VALIDATION[:]
        core.CROSS.update(budget=(4 if tier == "thorough" or os.environ.get("VERIF_CROSS") else 0), tally={}, disagreements=[])
        facade.install(getattr(mod, "EXTRA_STUBS", None))
        ex = core.Explorer(timeout_ms=h.timeout_ms, max_paths=h.max_paths,
                           product_abstraction=h.product_abstraction,
                           deadline=time.time() + deadline_s)
        def _run_path(c):
            ncex = len(c.cex)
            h.sym(c, **params)
            # translator validation for harnesses with a validate() hook that do not capture path models themselves
            limit = 2 if getattr(h, "validate", None) is not None else 1
            if not getattr(h, "captures_itself", False) and len(PENDING_VALIDATION) < limit and len(c.cex) == ncex \
                    and getattr(c, "inputs", None) and getattr(c, "proved_labels", None):
                try:
                    m = dyadic_model(c, None) or c.model()
                except z3.Z3Exception:
                    m = c.model()
                if m is not None:
                    inp = concretize(getattr(c, "inputs", {}), m)
                    inp["__rng__"] = rng_table(c, m)
                    inp = _unjson(_jsonable(inp))
                    inp["__proved__"] = list(c.proved_labels)[:12]
                    PENDING_VALIDATION.append(inp)
        try:
            ex.run(_run_path)
        finally:
            facade.uninstall()
        if ex.collected and not ex.truncated:
            ex.cex.extend(post_reach(ex, h.timeout_ms))
        out["stats"] = ex.stats.as_dict()
        out["cross"] = dict(core.CROSS["tally"])
        out["cross_disagreements"] = list(core.CROSS["disagreements"])[:3]
        out["truncated"] = ex.truncated
        out["unencodable"] = sorted(set(ex.unencodable))[:10]
        out["n_unencodable_paths"] = len(ex.unencodable)
        out["inconclusive"] = sorted(set(ex.inconclusive))[:20]
        out["notes"] = ex.notes[:10]
        out["samples"] = ex.samples
        # replay counterexamples on the unpatched code (dedupe by label)
        # at most 8 per predicate, spread evenly over the exploration order (neighbouring paths share their discrete
        # choices, so the first few counterexamples are near-duplicates)
        by_label = {}
        for cx in ex.cex:
            by_label.setdefault(cx.label, []).append(cx)
        chosen = []
        for key, lst in by_label.items():
            if len(lst) > 8:
                step = (len(lst) - 1) / 7.0
                lst = [lst[int(round(i * step))] for i in range(8)]
            chosen.extend(lst)
        for cx in chosen:
            inputs = getattr(cx, "inputs", {})
            try:
                rep, detail = run_replay(h, _unjson(_jsonable(inputs)), cx.label, params)
            except Exception as e:  # replay harness failure => unconfirmed
                rep, detail = False, "replay raised " + repr(e) + "\n" + traceback.format_exc()[-600:]
            out["cex"].append(dict(label=cx.label, inputs=_jsonable(inputs), info=_jsonable(cx.info),
                                   reproduced=bool(rep), candidate_only=rep is None, detail=str(detail)[:600]))
        out["n_cex_total"] = len(ex.cex)
        if PENDING_VALIDATION and (getattr(h, "validate", None) is not None or h.replay is not None):
            nval, mism = 0, []
            for inp in list(PENDING_VALIDATION):
                proved = inp.pop("__proved__", [])
                try:
                    with warnings.catch_warnings():
                        warnings.simplefilter("ignore")
                        if getattr(h, "validate", None) is not None:
                            bad = h.validate(inp, **params)
                        else:
                            # generic: none of the predicates proven on this path may be reproducible by the harness's
                            # own replay (which runs the real code on these inputs, over several seeds)
                            bad = []
                            for lb in proved:
                                rep, _det = h.replay(dict(inp), lb, **params)
                                if rep:
                                    bad.append(lb)
                except Exception as e:
                    bad = ["raised " + repr(e)[:120]]
                if bad:
                    # the real code violates a predicate on the solver's model of a path the encoding proved: if the
                    # harness's replay confirms it, it is a violation of the property demonstrated on the real code
                    # (an assumption of the encoding - typically a stub contract - does not hold for the implementation)
                    promoted = False
                    pid_ = modname.rsplit(".", 1)[-1]
                    covered = any(k.get("status", "open") == "open" and k["property"] == pid_ and k["harness"] == hname
                                  and all(_pmatch(params.get(a), b) for a, b in k.get("params", {}).items())
                                  for k in load_known())
                    for lb in ([] if covered else bad[:4]):
                        if not isinstance(lb, str) or lb.startswith("raised ") or h.replay is None:
                            continue
                        try:
                            rep, detail = run_replay(h, _unjson(_jsonable(inp)), lb, params)
                        except Exception:
                            rep, detail = False, ""
                        if rep:
                            out["cex"].append(dict(label=lb, inputs=_jsonable(inp),
                                                   info=dict(found_by="translator validation: model of a proven path"),
                                                   reproduced=True, candidate_only=False,
                                                   detail="[real code on the model of a proven path] " + str(detail)[:560]))
                            promoted = True
                            break
                    if not promoted:
                        mism.append(dict(inputs={k: v for k, v in inp.items() if not k.startswith("__")}, violated=bad[:4]))
                else:
                    nval += 1
            out["validated"] = nval
            out["validation_mismatch"] = mism[:3]
        if h.concrete is not None:
            try:
                out["validated"] = int(h.concrete(params))
            except Exception as e:
                out["validated"] = 0
                out["validation_error"] = repr(e) + traceback.format_exc()[-800:]
    except BaseException as e:  # machinery failure
        out["error"] = repr(e) + " @ " + " <- ".join(
            f"{os.path.basename(fr.filename)}:{fr.lineno}" for fr in traceback.extract_tb(e.__traceback__)[-4:])
    finally:
        try:
            signal.setitimer(signal.ITIMER_REAL, 0)
        except (ValueError, OSError):
            pass
    out["wall_s"] = round(time.time() - t0, 3)
    return out


# --------------------------------------------------------------------------
def load_known():
    p = os.path.join(VERIF, "known_findings.json")
    if not os.path.exists(p):
        return []
    with open(p) as f:
        return json.load(f).get("findings", [])


def _pmatch(value, want):
    """a known finding names a parameter value or, as {"any_of": [...]}, several spellings of the same input"""
    if isinstance(want, dict) and "any_of" in want:
        return value in want["any_of"]
    return value == want


def match_known(known, pid, hname, label, params, inputs=None):
    for k in known:
        if k.get("status", "open") != "open":
            continue  # a 'fixed' entry suppresses nothing
        if k["property"] != pid or k["harness"] != hname:
            continue
        if k.get("label") and k["label"] != label:
            continue
        want = k.get("params", {})
        if all(_pmatch(params.get(a), b) for a, b in want.items()):
            return k
    return None


def source_hashes(units):
    res = {}
    for u in units:
        try:
            modname, qual = u.split(":")
            obj = importlib.import_module(modname)
            for part in qual.split("."):
                obj = getattr(obj, part)
            obj = inspect.unwrap(obj) if callable(obj) else obj
            src = inspect.getsource(obj)
            file = inspect.getsourcefile(obj)
            line = inspect.getsourcelines(obj)[1]
            res[u] = dict(where=f"{os.path.relpath(file, REPO)}:{line}",
                          sha1=hashlib.sha1(src.encode()).hexdigest()[:12])
        except Exception as e:
            res[u] = dict(error=repr(e))
    return res


def run_property(pid, modname, tier, seed, level_note, assumptions, bounds, only=None, extra=None):
    t0 = time.time()
    mod = importlib.import_module(modname)
    jobs = []
    budget = float(os.environ.get("VERIF_JOB_DEADLINE_S", 240 if tier == "quick" else 1200))
    for h in mod.HARNESSES:
        if only and h.name not in only:
            continue
        for params in h.configs(tier):
            jobs.append((modname, h.name, params, tier, budget))
    nproc = int(os.environ.get("VERIF_PROCS", min(16, os.cpu_count() or 4)))
    results = []
    if jobs:
        ctxm = mp.get_context("fork")
        with ctxm.Pool(min(nproc, len(jobs)), maxtasksperchild=8) as pool:
            for r in pool.imap_unordered(_job, jobs, chunksize=1):
                results.append(r)
    results.sort(key=lambda r: (r["harness"], json.dumps(r["params"], sort_keys=True, default=str)))

    known = load_known()
    extra_res = extra(tier, known) if extra is not None else None
    agg = core.Stats()
    violations, known_hits, unconfirmed, errors, inconclusive, candidates = [], [], [], [], [], []
    validated = 0
    cross = {}        # cross-solver sample: verdicts of z3 4.8.12 / cvc5 on exported queries
    mismatches = []   # translator validation: real code violates a predicate on inputs of a path that was proven
    per_h = {}
    samples = []
    units = {}
    hmap = {h.name: h for h in mod.HARNESSES}
    for r in results:
        h = hmap[r["harness"]]
        ph = per_h.setdefault(r["harness"], dict(configs=0, paths=0, queries=0, unsat=0, sat=0, unknown=0,
                                                 obligations=0, proved=0, solver_s=0.0, wall_s=0.0,
                                                 witnesses={}, truncated=0, unencodable=[], inconclusive=[]))
        ph["configs"] += 1
        ph["wall_s"] = round(ph["wall_s"] + r.get("wall_s", 0), 3)
        if r.get("error"):
            errors.append(f"{r['harness']} {r['params']}: {r['error']}")
            continue
        st = r["stats"]
        ph["paths"] += st["paths"]
        ph["queries"] += st["solver_queries"]
        for k in ("unsat", "sat", "unknown", "obligations", "proved"):
            ph[k] += st[k]
        ph["solver_s"] = round(ph["solver_s"] + st["solver_s"], 3)
        for k, v in st["witnesses"].items():
            ph["witnesses"][k] = ph["witnesses"].get(k, 0) + v
        if r.get("truncated"):
            ph["truncated"] += 1
            inconclusive.append(f"{r['harness']} {r['params']}: path/time budget reached, exploration truncated")
        if r.get("unencodable"):
            ph["unencodable"] = sorted(set(ph["unencodable"] + r["unencodable"]))[:10]
            inconclusive.append(f"{r['harness']} {r['params']}: {r['n_unencodable_paths']} path(s) hit an "
                                f"unmodelled construct: {r['unencodable'][:3]}")
        if r.get("inconclusive"):
            ph["inconclusive"] = sorted(set(ph["inconclusive"] + r["inconclusive"]))[:10]
            inconclusive.append(f"{r['harness']} {r['params']}: solver unknown for {r['inconclusive'][:5]}")
        validated += r.get("validated", 0)
        for k_, v_ in (r.get("cross") or {}).items():
            cross[k_] = cross.get(k_, 0) + v_
        for dis in r.get("cross_disagreements") or []:
            inconclusive.append(f"{r['harness']} {r['params']}: cross-solver disagreement: {dis}")
        for mm in r.get("validation_mismatch", []) or []:
            # a real-code violation that belongs to an open known finding of this harness is that finding, not an
            # encoding disagreement
            if any(k.get("status", "open") == "open" and k["property"] == pid and k["harness"] == r["harness"]
                   and all(_pmatch(r["params"].get(a), b) for a, b in k.get("params", {}).items()) for k in known):
                continue
            mismatches.append(dict(harness=r["harness"], params=r["params"], **mm))
        if r.get("validation_error"):
            errors.append(f"{r['harness']} {r['params']}: differential validation failed: {r['validation_error']}")
        if r.get("samples") and len(samples) < 6:
            samples.append(dict(harness=r["harness"], params=r["params"], path=r["samples"][0]))
        for cx in r["cex"]:
            entry = dict(harness=r["harness"], params=r["params"], label=cx["label"], inputs=cx["inputs"],
                         info=cx.get("info"), detail=cx["detail"])
            if cx.get("candidate_only"):
                candidates.append(entry)
                continue
            if not cx["reproduced"]:
                unconfirmed.append(entry)
                continue
            k = match_known(known, pid, r["harness"], cx["label"], r["params"], cx["inputs"])
            if k is not None:
                known_hits.append((k, entry))
            else:
                violations.append(entry)
    if extra_res:
        for v in extra_res.get("violations", []):
            k = match_known(known, pid, v["harness"], v["label"], v["params"], v.get("inputs"))
            if k is not None:
                known_hits.append((k, v))
            else:
                violations.append(v)
        unconfirmed += extra_res.get("unconfirmed", [])
        errors += extra_res.get("errors", [])
        inconclusive += extra_res.get("inconclusive", [])
        validated += extra_res.get("validated", 0)
        if extra_res.get("samples"):
            samples = extra_res["samples"][:3] + samples
    # vacuity guards
    broken = []
    for h in mod.HARNESSES:
        if only and h.name not in only:
            continue
        ph = per_h.get(h.name)
        if ph is None:
            continue
        if ph["paths"] == 0 and not any(h.name in e for e in errors):
            broken.append(f"{h.name}: no path completed (vacuous harness)")
        for w in h.required_witnesses:
            if ph["witnesses"].get(w, 0) == 0 and ph["paths"] > 0:
                broken.append(f"{h.name}: reachability witness '{w}' never satisfiable")
        for u in h.units:
            units[u] = None
    units = source_hashes(list(units))
    missing_units = [u for u, v in units.items() if "error" in v]

    # output -----------------------------------------------------------------
    os.makedirs(os.path.join(VERIF, "evidence"), exist_ok=True)
    os.makedirs(os.path.join(VERIF, "replays", pid), exist_ok=True)
    lines = []
    printed_known = set()
    for k, entry in known_hits:
        if k["id"] not in printed_known:
            printed_known.add(k["id"])
            lines.append(f"KNOWN-FINDING: property={pid} {k['what']}")
    vio_files = []
    seen_v = set()
    for v in violations:
        key = (v["harness"], v["label"], json.dumps(v["params"], sort_keys=True, default=str))
        if key in seen_v:
            continue
        seen_v.add(key)
        blob = json.dumps(dict(property=pid, module=modname, **v), sort_keys=True, default=str)
        hname = hashlib.sha1(blob.encode()).hexdigest()[:12]
        path = os.path.join(VERIF, "replays", pid, f"{hname}.json")
        with open(path, "w") as f:
            f.write(blob)
        vio_files.append(path)
        lines.append(f"VIOLATION property={pid} replay={path}")
        lines.append(f"  harness={v['harness']} predicate={v['label']} params={v['params']} :: {v['detail'][:300]}")
    for u in unconfirmed[:10]:
        lines.append(f"UNCONFIRMED property={pid} harness={u['harness']} predicate={u['label']} "
                     f"params={u['params']} (solver model did not reproduce on the real code: {u['detail'][:200]})")
    cand_keys = sorted({(u["harness"], u["label"], json.dumps(u["params"], sort_keys=True, default=str)) for u in candidates})
    for hk, lb, pr in cand_keys[:10]:
        lines.append(f"NOT-INDUCTIVE property={pid} harness={hk} predicate={lb} params={pr} (counterexample starts from a "
                     f"symbolic pre-state that may be unreachable; only runs from a fresh object are reported)")
    for i in inconclusive[:20]:
        lines.append(f"INCONCLUSIVE property={pid} {i}")
    for mm in mismatches[:5]:
        lines.append(f"VALIDATION-MISMATCH property={pid} harness={mm['harness']} params={mm['params']}: the real code on the "
                     f"inputs of a proven path shows {mm['violated']} (inputs {str(mm['inputs'])[:200]}) - encoding and "
                     f"implementation disagree; the proof of this configuration is not trusted")
    for b in broken:
        lines.append(f"HARNESS-BROKEN property={pid} {b}")
    for e in errors[:8]:
        lines.append(f"HARNESS-ERROR property={pid} {e[:600]}")
    if len(errors) > 8:
        lines.append(f"HARNESS-ERROR property={pid} ... and {len(errors) - 8} more")

    tot = dict(paths=0, queries=0, unsat=0, sat=0, unknown=0, obligations=0, proved=0, solver_s=0.0)
    for ph in per_h.values():
        for k in tot:
            tot[k] += ph[k]
    if extra_res:
        tot["paths"] += extra_res.get("states", 0)
        tot["queries"] += extra_res.get("transitions", 0)
        tot["obligations"] += extra_res.get("obligations", 0)
        tot["proved"] += extra_res.get("proved", 0)
        tot["unsat"] += extra_res.get("unsat", 0)
        tot["sat"] += extra_res.get("sat", 0)
        for u, v in extra_res.get("functions", {}).items():
            units[u] = v
    tot["solver_s"] = round(tot["solver_s"], 3)
    wall = round(time.time() - t0, 3)
    if not samples:
        samples = [dict(note="no path sample recorded")]
    ev = dict(
        property_id=pid, tier=tier, seed=int(seed), level="model_checking",
        coverage=dict(
            states=max(tot["paths"], 0), transitions=max(tot["queries"], 0),
            traces_validated_against_impl=validated, samples=samples,
            explanation="states = feasible execution paths of the real functions explored by the SYMX engine "
                        "(every branch on symbolic data forks; infeasible sides pruned by z3); transitions = SMT "
                        "queries discharged (branch feasibility + obligations); obligations are assertions "
                        "checked for ALL values of the symbolic inputs on each path.",
            exhaustive=not inconclusive and not errors and not broken and not mismatches,
            validation_mismatches=mismatches[:10],
            cross_solver_sample=cross,
            obligations=tot["obligations"], discharged=tot["proved"],
            queries_by_verdict=dict(unsat=tot["unsat"], sat=tot["sat"], unknown=tot["unknown"]),
            solver_seconds=tot["solver_s"], solver="z3 " + z3.get_version_string(),
            functions_encoded=units, harnesses=per_h, bounds=bounds,
            inconclusive=inconclusive[:40], unconfirmed_counterexamples=len(unconfirmed),
            not_inductive_candidates=[dict(harness=a, predicate=b, params=json.loads(cc)) for a, b, cc in cand_keys[:20]],
            known_findings_hit=sorted(printed_known),
            slowest_configs=[dict(harness=r["harness"], params=r["params"], wall_s=r.get("wall_s"),
                                  paths=(r.get("stats") or {}).get("paths"), solver_s=(r.get("stats") or {}).get("solver_s"))
                             for r in sorted(results, key=lambda r: -r.get("wall_s", 0))[:6]], harness_broken=broken, errors=[e[:400] for e in errors][:10],
            units_missing=missing_units,
            regenerated_from=REPO,
            **({"paramflow": extra_res.get("coverage", {})} if extra_res else {}),
        ),
        assumptions=assumptions, wall_s=wall, violations=len(vio_files),
    )
    with open(os.path.join(VERIF, "evidence", f"{pid}.json"), "w") as f:
        json.dump(ev, f, indent=1, default=str)
    for ln in lines:
        print(ln)
    print(f"[{pid}] tier={tier} harnesses={len(per_h)} configs={sum(p['configs'] for p in per_h.values())} "
          f"paths={tot['paths']} queries={tot['queries']} obligations={tot['obligations']} proved={tot['proved']} "
          f"violations={len(vio_files)} known={len(printed_known)} unconfirmed={len(unconfirmed)} "
          f"inconclusive={len(inconclusive)} validated={validated} wall={wall}s")
    if vio_files:
        return 1
    if errors or broken:
        # a configuration that could not be explored (machinery / oracle failure, vacuous harness) is not a pass: reserved
        # exit code 2, no VIOLATION line. Does not occur on the unchanged tree; on a changed tree it means the change left
        # the fragment the harness can decide (the evidence lists the configuration)
        return 2
    return 0


def replay_file(path):
    with open(path) as f:
        d = json.load(f)
    mod = importlib.import_module(d["module"])
    h = next(x for x in mod.HARNESSES if x.name == d["harness"])
    rep, detail = run_replay(h, _unjson(d["inputs"]), d["label"], d["params"])
    print(("REPRODUCED " if rep else "NOT-REPRODUCED ") + str(detail))
    if rep:
        print(f"VIOLATION property={d['property']} replay={path}")
    return 1 if rep else 0


def _mentions(e, idset):
    """does expression e contain a constant whose id is in idset (memoised DAG walk)"""
    seen = set()
    stack = [e]
    while stack:
        x = stack.pop()
        i = x.get_id()
        if i in seen:
            continue
        seen.add(i)
        if i in idset:
            return True
        stack.extend(x.children())
    return False


def collect_reach(c, label, key, premise):
    """Records, for the cross-path obligation
        forall inputs: premise_key(inputs) -> exists draws: some path with this key is taken,
    the closed formula  exists draws. (path condition)  of the current path.  The obligation
    itself is discharged after the exploration (post_reach), because the disjunction ranges
    over all paths that produced `key`."""
    terms, seen = [], set()
    for t in getattr(c, "draw_terms", []):
        if t.get_id() not in seen:
            seen.add(t.get_id())
            terms.append(t)
    if isinstance(premise, core.SymBool):
        premise = premise.e
    pc = z3.And(*c.pc) if c.pc else z3.BoolVal(True)
    if terms:
        bound = [z3.Const(f"bd!{i}", t.sort()) for i, t in enumerate(terms)]
        pc = z3.Exists(bound, z3.substitute(pc, *zip(terms, bound)))
    slot = c.collected.setdefault((label, key), dict(premise=core.z3b(premise), alts=[],
                                                      assumptions=list(c.assumptions),
                                                      inputs=dict(getattr(c, "inputs", {}))))
    slot["alts"].append(pc)


def post_reach(ex, timeout_ms):
    """discharge the obligations recorded by collect_reach; returns list of Counterexample"""
    out = []
    for (label, key), slot in ex.collected.items():
        s = z3.Solver()
        s.set("timeout", timeout_ms)
        for a in slot["assumptions"]:
            s.add(a)
        s.add(slot["premise"])
        s.add(z3.Not(z3.Or(*slot["alts"])))
        t0 = time.time()
        r = s.check()
        ex.stats.queries += 1
        ex.stats.obligations += 1
        ex.stats.solver_s += time.time() - t0
        if r == z3.unsat:
            ex.stats.unsat += 1
            ex.stats.proved += 1
        elif r == z3.sat:
            ex.stats.sat += 1
            cx = core.Counterexample(label, None, dict(key=repr(key)))
            cx.inputs = concretize(slot["inputs"], s.model())
            out.append(cx)
        else:
            ex.stats.unknown += 1
            ex.inconclusive.append(label)
            ex.stats.unknown_labels.append(label)
    return out


# helpers for harness authors ------------------------------------------------
def farr(c, name, n, nan=True, inf=False, shape=None):
    """fresh symbolic float array"""
    xs = [core.fresh_float(f"{name}{i}", nan=nan, inf=inf) for i in range(n)]
    a = arrays.SymNd(arrays._to_obj(xs), float)
    if shape is not None:
        a = a.reshape(shape)
    return a


def nparr(x, dtype=float):
    return np.array(x, dtype=dtype)


def real_run(fn):
    """run fn() with the facade removed (the unpatched code on real numpy)."""
    saved = list(facade._SAVED)
    facade.uninstall()
    try:
        return fn()
    finally:
        if saved:
            facade.install()


def _close(fa, fb, tol):
    """concrete comparison of two floats: NaN equals NaN, an infinite value only equals itself (a relative tolerance
    times infinity would accept anything), finite values within the relative tolerance"""
    if fa != fa or fb != fb:
        return fa != fa and fb != fb
    if math.isinf(fa) or math.isinf(fb):
        return fa == fb
    return fa == fb or abs(fa - fb) <= tol * max(1.0, abs(fa), abs(fb))


class Dual:
    """One scenario, two executions: symbolic (real code under the facade, conditions become SMT
    obligations) and concrete replay (unpatched code on the solver's values, conditions evaluated)."""

    def __init__(self, c=None, inputs=None):
        self.c = c
        self.sym = c is not None
        self.inputs = inputs or {}
        self.violated = {}
        self.np = facade.FACADE if self.sym else np
        self.resample = None     # replay only: a RandomState that re-draws the continuous inputs (see dual_harness)
        self.drawn = {}

    def fl(self, name, lo=None, hi=None, nan=False, inf=False):
        if self.sym:
            x = core.fresh_float(name, nan=nan, inf=inf)
            tagged = core.b_or(x.nan, x.pinf, x.ninf)
            if lo is not None:
                self.c.assume(core.b_or(tagged, x.r >= lo))
            if hi is not None:
                self.c.assume(core.b_or(tagged, x.r <= hi))
            rec(self.c, name, x)
            return x
        if self.resample is not None:
            a, b = (-4.0 if lo is None else lo), (4.0 if hi is None else hi)
            if b < a:
                b = a + 8.0
            v = float(np.round(self.resample.uniform(a, b), 3))
            self.drawn[name] = v
            return v
        return float(self.inputs.get(name, 0.0 if lo is None else lo))

    def integer(self, name, lo, hi):
        if self.sym:
            x = core.fresh_int(name, lo, hi)
            rec(self.c, name, x)
            return x
        return int(self.inputs.get(name, lo))

    def choose(self, name, options):
        if self.sym:
            v = self.c.choose([(o, True) for o in options], name)
            rec(self.c, name, v)
            return v
        return self.inputs.get(name, options[0])

    def arr(self, rows, dtype=float, shape=None):
        if self.sym:
            o = arrays._to_obj(rows) if len(rows) else np.empty(0, dtype=object)
            a = arrays.SymNd(o, dtype)
        else:
            a = np.array(rows, dtype=dtype) if len(rows) else np.empty(0, dtype=dtype)
        return a.reshape(shape) if shape is not None else a

    def zeros(self, shape):
        return self.np.zeros(shape)

    def prove(self, cond, label, info=None):
        if self.sym:
            self.c.prove(cond, label, info)
        elif not bool(cond):
            self.violated.setdefault(label, info)

    def witness(self, cond, label):
        if self.sym:
            self.c.witness(cond, label)

    def eq(self, a, b, tol=0.0):
        if self.sym:
            if tol and not core.is_sym(a) and not core.is_sym(b) and core.is_numeric(a) and core.is_numeric(b):
                # both sides are concrete floats (the path computed them with real float arithmetic): compare like the
                # concrete replay does, within the stated tolerance
                fa, fb = float(a), float(b)
                return _close(fa, fb, tol)
            e = core.boolexpr(core.s_eq(a, b))
            if core.is_floatish(a) and core.is_floatish(b):
                e = core.b_or(e, core.b_and(core.boolexpr(core.s_isnan(a)), core.boolexpr(core.s_isnan(b))))
            return e
        try:
            if a is None or b is None:
                return a is None and b is None
            fa, fb = float(a), float(b)
            return _close(fa, fb, tol)
        except (TypeError, ValueError):
            return a == b

    def eq_arr(self, a, b, tol=0.0):
        if self.sym:
            ra, rb = arrays.raw(arrays.asnd(a)), arrays.raw(arrays.asnd(b))
        else:
            ra, rb = np.asarray(a), np.asarray(b)
        if ra.shape != rb.shape:
            return False
        conds = [self.eq(x, y, tol) for x, y in zip(ra.reshape(-1), rb.reshape(-1))]
        return core.b_and(*conds) if self.sym else all(conds)

    def flat(self, a):
        return list(arrays.raw(arrays.asnd(a)).reshape(-1)) if self.sym else list(np.asarray(a).reshape(-1))

    def le(self, a, b):
        return core.s_le(a, b) if self.sym else bool(a <= b)

    def lt(self, a, b):
        return core.s_lt(a, b) if self.sym else bool(a < b)


PENDING_VALIDATION = []   # per worker job: path models awaiting a concrete run of the real code


def dual_harness(name, scenario, configs, units, resample=0, **kw):
    """Harness whose symbolic run and replay share one scenario(d: Dual, **params) function.
    resample=k (opt-in, only for scenarios without solver-side assumptions on their continuous inputs): when the solver's
    values do not reproduce - typically because the concrete run uses a real model where the symbolic run used an
    uninterpreted one - the replay keeps the counterexample's discrete choices (label patterns, operations) and re-draws
    the continuous inputs k times inside their declared ranges; a violation on the real code is reported with those inputs."""
    def sym(c, **params):
        ncex = len(c.cex)
        scenario(Dual(c), **params)
        # translator validation: for the first paths of every configuration a model of the path condition is kept; after
        # the exploration the same scenario runs on the REAL code with these inputs and must satisfy every predicate
        if len(PENDING_VALIDATION) < 2 and len(c.cex) == ncex and getattr(c, "inputs", None):
            try:
                m = dyadic_model(c, None) or c.model()
            except z3.Z3Exception:
                m = c.model()
            if m is not None:
                inp = concretize(getattr(c, "inputs", {}), m)
                PENDING_VALIDATION.append(_unjson(_jsonable(inp)))

    def validate(inputs, **params):
        d = Dual(None, inputs)
        scenario(d, **params)
        return sorted(d.violated)

    def replay(inputs, label, **params):
        tries = [(inputs, None)] + [(inputs, np.random.RandomState(1000 + i)) for i in range(resample)]
        last = "not reproduced"
        for inp, rs in tries:
            d = Dual(None, inp)
            d.resample = rs
            shown = {k: v for k, v in inp.items() if not k.startswith("__")}
            try:
                scenario(d, **params)
                if rs is not None:
                    shown = dict(shown, **d.drawn)
            except (ValueError, TypeError, IndexError, ZeroDivisionError, FloatingPointError, AttributeError,
                    UnboundLocalError, KeyError) as e:
                # the unpatched code fails on the solver's inputs where the property promises a result
                return True, f"{name}{params}: the real code raised {e!r} (symbolic predicate {label}) with inputs {shown}"
            except Exception as e:
                last = f"replay raised {e!r}"
                continue
            if label in d.violated:
                return True, f"{name}{params}: {label} {d.violated[label]} with inputs {shown}"
            if d.violated:
                other = sorted(d.violated)[0]
                return True, (f"{name}{params}: symbolic predicate {label}; on the real code the same inputs violate {other} "
                              f"{d.violated[other]}; inputs {shown}")
        return False, last
    h = Harness(name, sym, replay, configs, units, **kw)
    h.validate = validate
    h.captures_itself = True
    return h
