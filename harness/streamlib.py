"""Shared construction of symbolic pre-states for budget managers and stream
strategies (used by C03, C04, C06, C10)."""
from __future__ import annotations

import copy
from collections import deque

import numpy as np
import z3

from harness.common import rec
from symx import arrays, core, facade
from symx.core import SymFloat, SymInt, b_and, b_not, b_or, boolexpr, fresh_float, fresh_int, s_le, s_lt


def bm_mod():
    import skactiveml.stream.budgetmanager as m
    return m


def st_mod():
    import skactiveml.stream as m
    return m


WINDOW_MANAGERS = ["FixedUncertaintyBudgetManager", "VariableUncertaintyBudgetManager",
                   "RandomVariableUncertaintyBudgetManager", "SplitBudgetManager", "RandomBudgetManager"]
ALL_MANAGERS = WINDOW_MANAGERS + ["DensityBasedSplitBudgetManager", "BalancedIncrementalQuantileFilter"]

BM_UNITS = {
    "FixedUncertaintyBudgetManager": "skactiveml.stream.budgetmanager._estimated_budget_zliobaite:FixedUncertaintyBudgetManager",
    "VariableUncertaintyBudgetManager": "skactiveml.stream.budgetmanager._estimated_budget_zliobaite:VariableUncertaintyBudgetManager",
    "RandomVariableUncertaintyBudgetManager": "skactiveml.stream.budgetmanager._estimated_budget_zliobaite:RandomVariableUncertaintyBudgetManager",
    "SplitBudgetManager": "skactiveml.stream.budgetmanager._estimated_budget_zliobaite:SplitBudgetManager",
    "RandomBudgetManager": "skactiveml.stream.budgetmanager._estimated_budget_zliobaite:RandomBudgetManager",
    "DensityBasedSplitBudgetManager": "skactiveml.stream.budgetmanager._threshold_budget:DensityBasedSplitBudgetManager",
    "BalancedIncrementalQuantileFilter": "skactiveml.stream.budgetmanager._balanced_incremental_quantile_filter:BalancedIncrementalQuantileFilter",
    "EstimatedBudgetZliobaite.update": "skactiveml.stream.budgetmanager._estimated_budget_zliobaite:EstimatedBudgetZliobaite.update",
    "BudgetManager._validate_budget": "skactiveml.base:BudgetManager._validate_budget",
}


def sym_budget(c, name="B", concrete=None):
    if concrete is not None:
        return float(concrete)
    B = fresh_float(name)
    c.assume(z3.And(B.r > 0, B.r <= 1))
    rec(c, "budget", B)
    return B


def make_manager(c, cls, budget, w=3, pre="arbitrary", tag="", seed_name="seed"):
    """Construct the real manager and (pre='arbitrary') overwrite its fitted state
    with an arbitrary value of its type under the representation invariant.
    Returns (manager, state dict of symbolic pre-state values)."""
    m = bm_mod()
    K = getattr(m, cls)
    kw = dict(budget=budget)
    seed = None
    if cls in ("RandomVariableUncertaintyBudgetManager", "SplitBudgetManager", "RandomBudgetManager",
               "DensityBasedSplitBudgetManager"):
        seed = fresh_int(seed_name + tag, 0, 2 ** 32 - 1)
        rec(c, "seed" + tag, seed)
        kw["random_state"] = seed
    if cls == "FixedUncertaintyBudgetManager":
        kw["classes"] = [0, 1]
    if cls not in ("DensityBasedSplitBudgetManager",):
        kw["w"] = w
    bm = K(**kw)
    st = {}
    if pre == "arbitrary":
        # let the real code create its fitted attributes, then overwrite them
        bm._validate_data(facade.FACADE.array([]))
        if hasattr(bm, "u_t_"):
            u = fresh_float("u_t" + tag)
            c.assume(u.r >= 0)
            bm.u_t_ = u
            st["u_t_"] = u
        if hasattr(bm, "theta_"):
            th = fresh_float("theta" + tag)
            c.assume(th.r > 0)  # theta_ starts at theta > 0 and is only multiplied by (1 +- s), 0 < s < 1
            bm.theta_ = th
            st["theta_"] = th
        if hasattr(bm, "u_"):
            u = fresh_int("u" + tag, 0, None)
            t = fresh_int("t" + tag, 0, None)
            c.assume(u.e <= t.e)
            bm.u_ = u
            bm.t_ = t
            st["u_"] = u
            st["t_"] = t
        if cls == "BalancedIncrementalQuantileFilter":
            # counters as reals (relaxation of the integers; they are floats in the real code after the
            # first update anyway): keeps the queries in pure nonlinear real arithmetic
            o = fresh_float("obs" + tag)
            q = fresh_float("qd" + tag)
            c.assume(z3.And(q.r >= 0, q.r <= o.r))
            bm.observed_samples_ = o
            bm.queried_samples_ = q
            st["observed_samples_"] = o
            st["queried_samples_"] = q
        if hasattr(bm, "random_state_"):
            # a fresh unconstrained seed term stands for an arbitrary generator state
            g = facade.SymRandomState(z3.Int("genstate" + tag))
            bm.random_state_ = g
        for k, v in st.items():
            rec(c, "pre_" + k + tag, v)
    return bm, st


def bm_state(bm):
    """the fitted (trailing underscore) state of a manager / strategy as a dict"""
    out = {}
    for k, v in vars(bm).items():
        if k.endswith("_") and not k.startswith("_"):
            out[k] = v
    return out


def eq_value(a, b):
    """z3/py condition: two state values are equal by content"""
    if isinstance(a, np.random.RandomState) and not isinstance(a, facade.SymRandomState):
        if not isinstance(b, np.random.RandomState):
            return False
        sa, sb = a.get_state(), b.get_state()
        if sa[0] == "scripted" or sb[0] == "scripted":
            return sa[0] == sb[0] and sa[1:3] == sb[1:3]
        return sa[0] == sb[0] and np.array_equal(sa[1], sb[1]) and sa[2:] == sb[2:]
    if isinstance(a, facade.SymRandomState) or isinstance(b, facade.SymRandomState):
        if not (isinstance(a, facade.SymRandomState) and isinstance(b, facade.SymRandomState)):
            return False
        return a.same_state(b)
    if isinstance(a, (deque, list, tuple)) or isinstance(b, (deque, list, tuple)):
        if not isinstance(a, (deque, list, tuple)) or not isinstance(b, (deque, list, tuple)):
            return False
        if len(a) != len(b):
            return False
        if isinstance(a, deque) and isinstance(b, deque) and a.maxlen != b.maxlen:
            return False       # a sliding window that lost its bound is a different state
        return b_and(*[eq_value(x, y) for x, y in zip(a, b)])
    if isinstance(a, np.ndarray) or isinstance(b, np.ndarray):
        a = arrays.asnd(a)
        b = arrays.asnd(b)
        if a.shape != b.shape:
            return False
        return b_and(*[eq_value(x, y) for x, y in zip(arrays.raw(a).reshape(-1), arrays.raw(b).reshape(-1))])
    if core.is_numeric(a) and core.is_numeric(b):
        e = boolexpr(core.s_eq(a, b))
        if core.is_floatish(a) and core.is_floatish(b):
            e = b_or(e, b_and(boolexpr(core.s_isnan(a)), boolexpr(core.s_isnan(b))))
        return e
    if hasattr(a, "get_params") and hasattr(b, "get_params"):
        return eq_state(bm_state(a), bm_state(b))
    try:
        return bool(a == b)
    except Exception:
        return a is b


def eq_state(sa, sb, skip=("n_features_in_",)):
    conds = []
    for k in set(sa) | set(sb):
        if k in skip:
            continue
        if k not in sa or k not in sb:
            conds.append(False)
            continue
        conds.append(eq_value(sa[k], sb[k]))
    return b_and(*conds)


def diff_keys(c, sa, sb, skip=("n_features_in_",)):
    """keys whose values can differ (solver decided)"""
    out = []
    for k in sorted(set(sa) | set(sb)):
        if k in skip:
            continue
        if k not in sa or k not in sb:
            out.append(k)
            continue
        e = eq_value(sa[k], sb[k])
        if core._isc(e):
            if not e:
                out.append(k)
        else:
            r, _ = c._check(z3.Not(e))
            if r != "unsat":
                out.append(k)
    return out


def sym_utilities(c, n, name="util", nan=True, lo=None, hi=None):
    xs = []
    for i in range(n):
        x = fresh_float(f"{name}{i}", nan=nan)
        if lo is not None:
            c.assume(b_or(x.nan, x.r >= lo))
        if hi is not None:
            c.assume(b_or(x.nan, x.r <= hi))
        xs.append(x)
    a = arrays.SymNd(arrays._to_obj(xs) if xs else np.empty(0, dtype=object), float)
    return a


def compositions(n):
    """all ordered compositions of n into positive parts"""
    if n == 0:
        yield []
        return
    for first in range(1, n + 1):
        for rest in compositions(n - first):
            yield [first] + rest


# ---- concrete replay helpers -------------------------------------------------
def real_manager(cls, budget, w, state, seed):
    m = bm_mod()
    K = getattr(m, cls)
    kw = dict(budget=float(budget))
    if cls in ("RandomVariableUncertaintyBudgetManager", "SplitBudgetManager", "RandomBudgetManager",
               "DensityBasedSplitBudgetManager"):
        kw["random_state"] = int(seed)
    if cls == "FixedUncertaintyBudgetManager":
        kw["classes"] = [0, 1]
    if cls != "DensityBasedSplitBudgetManager":
        kw["w"] = w
    bm = K(**kw)
    if state:
        bm._validate_data(np.array([]))
        for k, v in state.items():
            setattr(bm, k, v)
    return bm
