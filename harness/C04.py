"""C04 — budget managers never spend more labels than the budget allows.
Inductive step on the REAL query_by_utility/query + update from an arbitrary
pre-state under the representation invariant (covers histories of any length
and any chunking), plus the base case from a fresh object."""
from __future__ import annotations

import numpy as np
import z3

from harness import streamlib as sl
from harness.common import Harness, rec
from symx import arrays, core, facade
from symx.core import b_and, b_not, b_or, boolexpr, fresh_float, fresh_int, s_le, s_lt, s_eq

PID = "C04"
F = facade.FACADE


def _cands(n):
    return F.zeros((n, 1))


# ------------------------------------------------------------------ window managers
def sym_window(c, cls, w, chunk, pre, inf=False):
    B = sl.sym_budget(c)
    bm, st = sl.make_manager(c, cls, B, w=w, pre=pre)
    if pre == "arbitrary":
        u0 = st["u_t_"]
        c.assume(s_le(u0, B * w + 1))
        D = fresh_float("D")  # D = L - u - n*(B + 1/w)  for the (L, n) of the history so far
        c.assume(D.r <= 0)
        rec(c, "D", D)
    else:
        u0 = np.float64(0.0)
        D = np.float64(0.0)
    util = sl.sym_utilities(c, chunk, nan=True)
    if inf:
        util = arrays.SymNd(arrays._to_obj([fresh_float(f"util{i}", nan=True, inf=True) for i in range(chunk)]), float)
    rec(c, "utilities", util)
    idx = bm.query_by_utility(util)
    idx = [int(i) for i in idx]
    c.prove(all(0 <= i < chunk for i in idx) and all(a < b for a, b in zip(idx, idx[1:])), "indices_increasing_in_range")
    u = u0
    k = 0
    fac = np.float64((w - 1) / w)
    for j in range(chunk):
        granted = j in idx
        if granted:
            c.prove(s_lt(u / w, B), "granted_only_below_budget")
            k += 1
        u = u * fac + (1.0 if granted else 0.0)
        c.prove(s_le(u, B * w + 1), "u_t_bounded")
        # L_n <= u_n + n (B + 1/w)  -> the property's bound  B n + n/w + B w + 1
        c.prove(s_le(D + k - (u - u0) - (j + 1) * (B + 1.0 / w), 0), "label_bound_prefix")
    bm.update(_cands(chunk), F.array(idx, dtype=int))
    c.prove(s_eq(bm.u_t_, u), "update_commits_u_t")
    c.witness(boolexpr(s_eq(k, chunk)), "all_granted")
    c.witness(boolexpr(s_eq(k, 0)) if chunk else True, "none_granted")


def replay_window(inputs, label, cls, w, chunk, pre, inf=False):
    B = inputs.get("budget")
    util = np.array(inputs["utilities"], dtype=float)
    state = {}
    if pre == "arbitrary":
        state["u_t_"] = inputs["pre_u_t_"]
        if "pre_theta_" in inputs:
            state["theta_"] = inputs["pre_theta_"]
        return None, "symbolic pre-state (possibly unreachable): candidate only"
    for seed in [int(inputs.get("seed", 0))] + list(range(60)):
        bm = sl.real_manager(cls, B, w, state, seed)
        idx = list(bm.query_by_utility(util.copy()))
        u = 0.0
        k = 0
        for j in range(chunk):
            g = j in idx
            if g and label == "granted_only_below_budget" and not (u / w < B):
                return True, f"{cls}(budget={B}, w={w}) utilities={util.tolist()} grants {j} at u_t/w={u / w}"
            k += g
            u = u * ((w - 1) / w) + g
            if label == "u_t_bounded" and u > B * w + 1 + 1e-9:
                return True, f"u_t={u} > B*w+1"
            if label == "label_bound_prefix" and k > B * (j + 1) + (j + 1) / w + B * w + 1 + 1e-9:
                return True, f"{k} labels among first {j + 1} instances, budget {B}, w={w}"
        if label == "indices_increasing_in_range" and not (all(0 <= i < chunk for i in idx) and all(a < b for a, b in zip(idx, idx[1:]))):
            return True, f"indices {idx}"
        bm.update(np.zeros((chunk, 1)), np.array(idx, dtype=int))
        if label == "update_commits_u_t" and abs(bm.u_t_ - u) > 1e-9:
            return True, f"{cls}: u_t_ after update {bm.u_t_} != simulated {u} (idx={idx})"
    return False, "not reproduced"


# ------------------------------------------------------------------ density based split manager
def sym_dbs(c, chunk, pre):
    B = sl.sym_budget(c)
    bm, st = sl.make_manager(c, "DensityBasedSplitBudgetManager", B, pre=pre)
    if pre == "arbitrary":
        u0, t0 = st["u_"], st["t_"]
        # invariant: u <= B*t + 1
        c.assume(s_le(u0, B * t0 + 1))
    else:
        u0, t0 = 0, 0
    util = sl.sym_utilities(c, chunk, nan=True)
    rec(c, "utilities", util)
    idx = [int(i) for i in bm.query_by_utility(util)]
    c.prove(all(0 <= i < chunk for i in idx) and all(a < b for a, b in zip(idx, idx[1:])), "indices_increasing_in_range")
    u, t = u0, t0
    for j in range(chunk):
        t = t + 1
        if j in idx:
            c.prove(s_lt(u, B * t), "granted_only_below_budget")
            u = u + 1
        c.prove(s_le(u, B * t + 1), "label_bound_prefix")
    bm.update(_cands(chunk), F.array(idx, dtype=int))
    c.prove(b_and(boolexpr(s_eq(bm.u_, u)), boolexpr(s_eq(bm.t_, t))), "update_commits_counters")
    c.witness(len(idx) == chunk, "all_granted")


def replay_dbs(inputs, label, chunk, pre):
    if pre == "arbitrary":
        return None, "symbolic pre-state: candidate only"
    B = inputs["budget"]
    util = np.array(inputs["utilities"], dtype=float)
    for seed in [int(inputs.get("seed", 0))] + list(range(200)):
        bm = sl.real_manager("DensityBasedSplitBudgetManager", B, None, {}, seed)
        idx = list(bm.query_by_utility(util.copy()))
        u = t = 0
        for j in range(chunk):
            t += 1
            if j in idx:
                if label == "granted_only_below_budget" and not u < B * t:
                    return True, f"granted {j} with u={u}, t={t}, B={B}"
                u += 1
            if label == "label_bound_prefix" and u > B * t + 1:
                return True, f"{u} labels among first {t}, budget {B} (seed {seed})"
        bm.update(np.zeros((chunk, 1)), np.array(idx, dtype=int))
        if label == "update_commits_counters" and (bm.u_ != u or bm.t_ != t):
            return True, f"u_,t_={bm.u_},{bm.t_} expected {u},{t}"
    return False, "not reproduced"


# ------------------------------------------------------------------ baseline strategies with exact counters
def sym_baseline(c, cls, chunk, pre):
    st = sl.st_mod()
    B = sl.sym_budget(c)
    seed = fresh_int("seed", 0, 2 ** 32 - 1)
    rec(c, "seed", seed)
    if cls == "PeriodicSampling":
        qs = st.PeriodicSampling(budget=B, random_state=seed)
    else:
        qs = st.StreamRandomSampling(allow_exceeding_budget=False, budget=B, random_state=seed)
    if pre == "arbitrary":
        qs._validate_data(F.zeros((1, 1)), False)
        o = fresh_int("obs", 0, None)
        q = fresh_int("qd", 0, None)
        c.assume(s_le(q, B * o))  # invariant: queried <= B * observed
        qs.observed_samples_ = o
        qs.queried_samples_ = q
        qs.random_state_ = facade.SymRandomState(z3.Int("genstate"))
        rec(c, "pre_observed", o)
        rec(c, "pre_queried", q)
    else:
        o, q = 0, 0
    X = _cands(chunk)
    idx, util = qs.query(X, return_utilities=True)
    idx = [int(i) for i in idx]
    c.prove(all(0 <= i < chunk for i in idx) and all(a < b for a, b in zip(idx, idx[1:])), "indices_increasing_in_range")
    k = 0
    for j in range(chunk):
        if j in idx:
            k += 1
        c.prove(s_le(q + k, B * (o + (j + 1))), "label_bound_prefix")
    qs.update(X, F.array(idx, dtype=int))
    c.prove(b_and(boolexpr(s_eq(qs.observed_samples_, o + chunk)), boolexpr(s_eq(qs.queried_samples_, q + k))),
            "update_commits_counters")
    c.witness(k >= 1, "some_granted")


def replay_baseline(inputs, label, cls, chunk, pre):
    if pre == "arbitrary":
        return None, "symbolic pre-state: candidate only"
    st = sl.st_mod()
    B = inputs["budget"]
    for seed in [int(inputs.get("seed", 0))] + list(range(300)):
        qs = st.PeriodicSampling(budget=B, random_state=seed) if cls == "PeriodicSampling" else \
            st.StreamRandomSampling(allow_exceeding_budget=False, budget=B, random_state=seed)
        X = np.zeros((chunk, 1))
        idx = list(qs.query(X))
        k = 0
        for j in range(chunk):
            k += j in idx
            if label == "label_bound_prefix" and k > B * (j + 1):
                return True, f"{cls}(budget={B}) grants {k} labels among the first {j + 1} instances (seed {seed})"
        qs.update(X, np.array(idx, dtype=int))
        if label == "update_commits_counters" and (qs.observed_samples_ != chunk or qs.queried_samples_ != k):
            return True, f"counters {qs.observed_samples_},{qs.queried_samples_}"
    return False, "not reproduced"


# a vacuity witness for the whole approach: with allow_exceeding_budget=True (not claimed by the property)
# the same obligation must FAIL
def sym_vacuity(c, chunk):
    st = sl.st_mod()
    B = sl.sym_budget(c)
    qs = st.StreamRandomSampling(allow_exceeding_budget=True, budget=B, random_state=1)
    X = _cands(chunk)
    idx = [int(i) for i in qs.query(X)]
    c.witness(boolexpr(s_lt(B * chunk, len(idx))), "overspend_reachable_when_allowed")


# ------------------------------------------------------------------
def _cfg_window(tier):
    out = []
    ws = [1, 3, 100] if tier == "quick" else [1, 2, 3, 10, 100]
    for cls in sl.WINDOW_MANAGERS:
        for w in ws:
            for pre in ("arbitrary", "fresh"):
                mx = 3 if tier == "quick" else (4 if cls == "SplitBudgetManager" else 5)
                if cls == "SplitBudgetManager" and tier == "quick":
                    mx = 2
                for chunk in range(1, mx + 1):
                    if w == 100 and chunk == 5 and pre == "fresh":
                        # from a fresh object the accounting is a chain of concrete floats; after five steps of 0.99*u its
                        # rounding error exceeds the tolerance with which float constants are mapped to rationals, and the
                        # solver reports boundary cases that do not replay (chunk 5 is covered from the symbolic pre-state)
                        continue
                    out.append(dict(cls=cls, w=w, chunk=chunk, pre=pre))
    out.append(dict(cls="FixedUncertaintyBudgetManager", w=3, chunk=2, pre="arbitrary", inf=True))
    out.append(dict(cls="RandomBudgetManager", w=3, chunk=2, pre="arbitrary", inf=True))
    return out


def _cfg_dbs(tier):
    return [dict(chunk=ch, pre=p) for p in ("arbitrary", "fresh") for ch in range(1, (3 if tier == "quick" else 5) + 1)]


def _cfg_base(tier):
    return [dict(cls=k, chunk=ch, pre=p) for k in ("PeriodicSampling", "StreamRandomSampling")
            for p in ("arbitrary", "fresh") for ch in range(1, (3 if tier == "quick" else 5) + 1)]


HARNESSES = [
    Harness("window_manager_step", sym_window, replay_window, _cfg_window,
            [sl.BM_UNITS[k] for k in sl.WINDOW_MANAGERS] + [sl.BM_UNITS["EstimatedBudgetZliobaite.update"],
                                                            sl.BM_UNITS["BudgetManager._validate_budget"]],
            required_witnesses=("all_granted", "none_granted")),
    Harness("density_split_step", sym_dbs, replay_dbs, _cfg_dbs, [sl.BM_UNITS["DensityBasedSplitBudgetManager"]],
            required_witnesses=("all_granted",)),
    Harness("baseline_step", sym_baseline, replay_baseline, _cfg_base,
            ["skactiveml.stream._stream_baselines:PeriodicSampling", "skactiveml.stream._stream_baselines:StreamRandomSampling",
             "skactiveml.base:SingleAnnotatorStreamQueryStrategy._validate_data"], required_witnesses=("some_granted",)),
    Harness("vacuity_allow_exceeding", sym_vacuity, lambda *a, **k: (False, ""), lambda tier: [dict(chunk=2)],
            ["skactiveml.stream._stream_baselines:StreamRandomSampling"],
            required_witnesses=("overspend_reachable_when_allowed",)),
]

from harness import density as _density  # noqa: E402
HARNESSES = HARNESSES + _density.harnesses_c04()

BOUNDS = dict(quick="one query+update step on a chunk of <= 3 instances (Split: <= 2) from ANY state satisfying the invariant "
                    "(arbitrary history / chunking), and from a fresh object; w in {1,3,100}; budget symbolic in (0,1]",
              thorough="chunks <= 5 (Split <= 4); w in {1,2,3,10,100}",
              outside="floating point rounding of u_t*(w-1)/w; window sizes other than those listed; "
                      "StreamDensityBasedAL / CognitiveDual* strategy level accounting (see DESIGN.md)")
ASSUMPTIONS = [
    "invariant (window managers): 0 <= u_t <= B*w+1 and L <= u_t + n*(B+1/w); it implies the property's bound and is "
    "shown to hold in the initial state and to be preserved by every chunk",
    "invariant (density split): u <= B*t + 1; (periodic / random strict): queried <= B*observed",
    "exact real arithmetic instead of IEEE doubles",
    "RandomState draws: uninterpreted functions of (seed, history); an unconstrained seed term stands for an arbitrary generator state",
    "violations are reported only from pre='fresh' runs; a counterexample from a symbolic pre-state is a candidate only",
]


# ------------------------------------------------------------------ the configured budget reaches the budget manager
def sc_budget_plumbing(d, name, via):
    """every stream strategy enforces ITS budget: after the first query (or update) the budget manager it created
    carries the budget given to the strategy (symbolic, in (0, 1])"""
    import skactiveml.stream as st
    from harness import density as dn
    from harness.C03 import STRATS
    if name == "StreamProbabilisticAL":
        B = 0.03125         # (its quantile filter needs a concrete budget in the model)
    else:
        B = d.fl("budget", lo=0.0, hi=1.0)
        if d.sym:
            d.c.assume(core.s_lt(0, B))
        elif B <= 0:
            B = 0.03125
    seed = d.integer("seed", 0, 2 ** 31 - 2)
    if name in STRATS:
        spec = STRATS[name]
        qs = getattr(st, spec.get("cls", name))(budget=B, random_state=seed, **spec["kw"])
        needs_clf = spec["clf"]
    elif name == "StreamProbabilisticAL":
        from harness import spal
        qs = st.StreamProbabilisticAL(budget=B, random_state=seed)
        needs_clf = "freq"
    else:
        qs = dn._make(d, name, B, seed)
        needs_clf = True
    ch = d.arr([[d.fl("x0", lo=-4.0, hi=4.0)]], shape=(1, 1))
    if via == "query":
        if needs_clf == "freq":
            from harness import spal
            qs.query(ch.copy(), spal._freq_classifier(d))
        elif needs_clf:
            qs.query(ch.copy(), dn._clf(d))
        else:
            qs.query(ch.copy())
    else:
        kw = {"budget_manager_param_dict": {"utilities": d.arr([0.5])}} if name == "StreamProbabilisticAL" else {}
        qs.update(ch.copy(), d.arr([], dtype=int), **kw)
    bm = getattr(qs, "budget_manager_", None)
    if bm is None:
        got = getattr(qs, "budget_", None)          # the baselines keep the budget themselves
        d.prove(got is not None and d.eq(got, B), "strategy_enforces_configured_budget", info=dict(where="strategy.budget_"))
    else:
        got = getattr(bm, "budget_", None)
        if got is None:
            got = bm.budget
        d.prove(got is not None and d.eq(got, B), "budget_manager_carries_configured_budget",
                info=dict(manager=type(bm).__name__, got=repr(got)[:40]))
    d.witness(True, "ran")


from harness.common import dual_harness  # noqa: E402


def _plumbing_cfg(tier):
    from harness import density as dn
    from harness.C03 import STRATS
    names = list(STRATS) + list(dn.NAMES) + ["StreamProbabilisticAL"]
    return [dict(name=n, via=v) for n in names for v in ("query", "update")]


HARNESSES.append(dual_harness(
    "budget_plumbing", sc_budget_plumbing, _plumbing_cfg,
    ["skactiveml.utils._validation:check_budget_manager", "skactiveml.base:BudgetManager._validate_budget",
     "skactiveml.stream._uncertainty_zliobaite:UncertaintyZliobaite._validate_data",
     "skactiveml.stream._stream_baselines:StreamRandomSampling._validate_data"],
    required_witnesses=("ran",)))


# ---------------------------------------------------------------- a budget manager handed to the strategy
_EXPLICIT = {
    "FixedUncertainty": ("FixedUncertaintyBudgetManager", dict(classes=[0, 1])),
    "VariableUncertainty": ("VariableUncertaintyBudgetManager", {}),
    "RandomVariableUncertainty": ("RandomVariableUncertaintyBudgetManager", {}),
    "Split": ("SplitBudgetManager", {}),
}


def sc_explicit_manager(d, name, n, w=2):
    """a Zliobaite strategy that is handed its budget manager (strategy budget=None): the manager the strategy works with
    is created once and its label accounting u_t = u_{t-1} (w-1)/w + [label granted] runs over the whole stream, whatever
    the order of query / update calls - so the labeling-cost estimate the bound rests on is never reset"""
    import skactiveml.stream as st
    import skactiveml.stream.budgetmanager as bmod
    from harness import density as dn
    B = d.fl("budget", lo=0.0, hi=1.0)
    if d.sym:
        d.c.assume(core.s_lt(0, B))
    elif B <= 0:
        B = 0.03125
    seed = d.integer("seed", 0, 2 ** 31 - 2)
    mname, mkw = _EXPLICIT[name]
    manager = getattr(bmod, mname)(budget=B, w=w, **mkw)
    qs = getattr(st, name)(budget_manager=manager, random_state=seed, **mkw)
    clf = dn._clf(d)
    u = 0.0
    first = None
    for t in range(n):
        ch = d.arr([[d.fl(f"x{t}", lo=-4.0, hi=4.0)]], shape=(1, 1))
        idx = qs.query(ch.copy(), clf)
        g = 1.0 if len(idx) else 0.0
        qs.update(ch.copy(), d.arr([int(i) for i in idx], dtype=int))
        bm = getattr(qs, "budget_manager_", None)
        d.prove(bm is not None and bm is not manager, "strategy_works_on_its_own_copy_of_the_manager")
        if bm is None:
            return
        if first is None:
            first = bm
        d.prove(bm is first, "budget_manager_created_once", info=dict(step=t))
        u = u * (w - 1) / w + g
        got = getattr(bm, "u_t_", None)
        d.prove(got is not None and d.eq(got, u, 1e-12), "label_accounting_runs_over_the_whole_stream", info=dict(step=t, expected=u))
        d.prove(d.eq(getattr(bm, "budget_", B), B), "budget_manager_carries_configured_budget")
    d.witness(True, "ran")


HARNESSES.append(dual_harness(
    "strategy_with_explicit_manager", sc_explicit_manager,
    lambda tier: [dict(name=nm, n=n) for nm in _EXPLICIT for n in ((2,) if tier == "quick" else (2, 3))],
    ["skactiveml.utils._validation:check_budget_manager", "skactiveml.stream._uncertainty_zliobaite:UncertaintyZliobaite._validate_data",
     "skactiveml.stream._uncertainty_zliobaite:UncertaintyZliobaite.query", "skactiveml.stream._uncertainty_zliobaite:UncertaintyZliobaite.update"],
    required_witnesses=("ran",), product_abstraction=True))
