"""Model stubs: real subclasses of the skactiveml base classes whose outputs are
symbolic. predict_proba is an uninterpreted function of (model generation,
class, feature row) constrained to the probability simplex, so equal rows give
equal probabilities (needed for relational properties) while nothing else is
assumed about the model."""
from __future__ import annotations

import itertools

import numpy as np
import z3

from symx import arrays, core
from symx.arrays import SymNd, asnd, raw

_GEN = itertools.count(1)
_FUNCS = {}


def _fn(name, d, out=z3.RealSort()):
    key = (name, d)
    if key not in _FUNCS:
        _FUNCS[key] = z3.Function(f"{name}{d}", z3.IntSort(), z3.IntSort(), *([z3.RealSort()] * d), out)
    return _FUNCS[key]


_TRAIN = {}


def _elem_key(v):
    if isinstance(v, core.Sym) and core.is_sym(v):
        t = type(v).__name__
        if t == "SymFloat":
            return ("f", v.r.get_id(), repr(v.nan), repr(v.pinf), repr(v.ninf))
        return (t, v.e.get_id())
    if isinstance(v, float) and v != v:
        return "nan"
    return v


def _train_key(base, X, y, sw):
    parts = [base]
    for a in (X, y, sw):
        if a is None:
            parts.append(None)
        else:
            a = asnd(a)
            parts.append((a.shape, tuple(_elem_key(v) for v in raw(a).reshape(-1))))
    key = tuple(parts)
    if key not in _TRAIN:
        _TRAIN[key] = 1000 + len(_TRAIN)
    return _TRAIN[key]


def _row_terms(row):
    out = []
    for v in row:
        v = core.lift(v)
        out.append(v.r)
    return out


def make_stub_classifier():
    from skactiveml.base import SkactivemlClassifier
    from skactiveml.utils import MISSING_LABEL

    class StubClassifier(SkactivemlClassifier):
        """contract: predict_proba returns rows on the simplex; fit returns self and yields a new,
        unrelated model; nothing else."""

        def __init__(self, classes=None, missing_label=MISSING_LABEL, cost_matrix=None, random_state=None,
                     n_classes=2, gen=0, validate=False):
            super().__init__(classes=classes, missing_label=missing_label, cost_matrix=cost_matrix,
                             random_state=random_state)
            self.n_classes = n_classes
            self.gen = gen
            self.validate = validate

        def fit(self, X, y, sample_weight=None):
            if self.validate:
                # the real SkactivemlClassifier._validate_data: label encoder _le, classes_, cost_matrix_, ...
                X, y, sample_weight = self._validate_data(X, y, sample_weight)
            self.fit_log_ = getattr(self, "fit_log_", []) + [(X, y, sample_weight)]
            # a deterministic learner: the fitted model is a function of the training data (and of the estimator's
            # parameters) only -> equal training sets give the same model generation
            self.gen_ = _train_key(self.gen, X, y, sample_weight)
            self.classes_ = np.arange(self.n_classes) if self.classes is None else np.asarray(self.classes)
            return self

        def predict_proba(self, X):
            X = asnd(X)
            if X.ndim != 2:
                raise ValueError("Expected 2D array")
            gen = getattr(self, "gen_", self.gen)
            d = X.shape[1]
            f = _fn("clfP", d)
            c = core.ctx()
            rx = raw(X)
            out = np.empty((X.shape[0], self.n_classes), dtype=object)
            for i in range(X.shape[0]):
                args = _row_terms(list(rx[i]))
                ps = [f(z3.IntVal(gen), z3.IntVal(k), *args) for k in range(self.n_classes)]
                key = ("clfP", ps[0].get_id())
                if key not in c.uf_axioms_done:
                    c.uf_axioms_done.add(key)
                    c.add(z3.And(*[p >= 0 for p in ps], z3.Sum(ps) == 1))
                for k, p in enumerate(ps):
                    out[i, k] = core.SymFloat(p)
                if not hasattr(c, "inputs"):
                    c.inputs = {}
                c.inputs.setdefault("__clf__", []).append([gen, list(rx[i]), [core.SymFloat(p) for p in ps]])
            return arrays._wrap(out, arrays.FLOAT)

        def predict(self, X):
            # contract: the class with the largest predicted probability (first one on ties)
            from symx import facade
            P = self.predict_proba(X)
            classes = getattr(self, "classes_", np.arange(self.n_classes))
            return np.array([classes[int(facade.FACADE.argmax(P[i]))] for i in range(P.shape[0])])

    class StubPartialClassifier(StubClassifier):
        """the same learner with an incremental interface: the model after partial_fit is a function of the model before
        and of the new batch (and of nothing else)"""

        def partial_fit(self, X, y, sample_weight=None):
            if self.validate:
                X, y, sample_weight = self._validate_data(X, y, sample_weight)
            self.fit_log_ = getattr(self, "fit_log_", []) + [("partial", X, y, sample_weight)]
            self.gen_ = _train_key(getattr(self, "gen_", self.gen), X, y, sample_weight)
            self.classes_ = np.arange(self.n_classes) if self.classes is None else np.asarray(self.classes)
            return self

    StubClassifier.Partial = StubPartialClassifier
    return StubClassifier


_CACHE = {}


CREATED = []   # every model handed out by the two factories below (C05 inspects them after a query)


def StubClassifier(partial=False, **kw):
    if "cls" not in _CACHE:
        _CACHE["cls"] = make_stub_classifier()
    m = (_CACHE["cls"].Partial if partial else _CACHE["cls"])(**kw)
    CREATED.append(m)
    return m


def real_table_classifier(table, n_classes=2, validate=False):
    """concrete classifier for replays: predict_proba looks rows up in `table`
    (list of (row, probs)); unknown rows get the uniform distribution."""
    from skactiveml.base import SkactivemlClassifier
    from skactiveml.utils import MISSING_LABEL

    class TableClassifier(SkactivemlClassifier):
        def __init__(self, classes=None, missing_label=MISSING_LABEL, cost_matrix=None, random_state=None,
                     table=None, n_classes=2, validate=False):
            super().__init__(classes=classes, missing_label=missing_label, cost_matrix=cost_matrix,
                             random_state=random_state)
            self.table = table
            self.n_classes = n_classes
            self.validate = validate

        def fit(self, X, y, sample_weight=None):
            if self.validate:
                self._validate_data(X, y, sample_weight)
            self.classes_ = np.arange(self.n_classes)
            self.fit_count_ = getattr(self, "fit_count_", 0) + 1
            return self

        def predict_proba(self, X):
            X = np.asarray(X, dtype=float)
            out = np.full((len(X), self.n_classes), 1.0 / self.n_classes)
            for i, r in enumerate(X):
                for row, p in self.table or []:
                    if np.array_equal(np.asarray(row, dtype=float), r):
                        out[i] = p
            return out

        def predict(self, X):
            # class LABELS (classes_ when the harness has set them), not column indices
            labels = np.asarray(getattr(self, "classes_", np.arange(self.n_classes)))
            return labels[np.argmax(self.predict_proba(X), axis=1)]

    m = TableClassifier(table=table, n_classes=n_classes, classes=list(range(n_classes)), validate=validate)
    CREATED.append(m)
    return m


# --------------------------------------------------------------------------
# class-frequency estimators (the real ClassFrequencyEstimator.predict_proba runs on stubbed frequencies)
# --------------------------------------------------------------------------
def make_stub_freq_classifier():
    from skactiveml.base import ClassFrequencyEstimator
    from skactiveml.utils import MISSING_LABEL

    class StubFreqClassifier(ClassFrequencyEstimator):
        """contract: predict_freq returns non-negative class frequencies (a row may be all zero: no kernel mass); the
        fitted model is a function of the training data; predict_proba / predict are the real base-class code"""

        def __init__(self, classes=None, missing_label=MISSING_LABEL, cost_matrix=None, class_prior=0.0, random_state=None,
                     n_classes=2, gen=0):
            super().__init__(classes=classes, missing_label=missing_label, cost_matrix=cost_matrix, class_prior=class_prior,
                             random_state=random_state)
            self.n_classes = n_classes
            self.gen = gen

        def fit(self, X, y, sample_weight=None):
            X, y, sample_weight = self._validate_data(X, y, sample_weight)
            self.gen_ = _train_key(self.gen, X, y, sample_weight)
            return self

        def predict_freq(self, X):
            X = asnd(X)
            gen = getattr(self, "gen_", self.gen)
            f = _fn("clfF", X.shape[1])
            c = core.ctx()
            rx = raw(X)
            out = np.empty((X.shape[0], self.n_classes), dtype=object)
            for i in range(X.shape[0]):
                args = _row_terms(list(rx[i]))
                fs = [f(z3.IntVal(gen), z3.IntVal(k), *args) for k in range(self.n_classes)]
                key = ("clfF", fs[0].get_id())
                if key not in c.uf_axioms_done:
                    c.uf_axioms_done.add(key)
                    c.add(z3.And(*[t >= 0 for t in fs]))
                for k, t in enumerate(fs):
                    out[i, k] = core.SymFloat(t)
                if not hasattr(c, "inputs"):
                    c.inputs = {}
                c.inputs.setdefault("__freq__", []).append([gen, list(rx[i]), [core.SymFloat(t) for t in fs]])
            return arrays._wrap(out, arrays.FLOAT)
    return StubFreqClassifier


def StubFreqClassifier(**kw):
    if "freq" not in _CACHE:
        _CACHE["freq"] = make_stub_freq_classifier()
    m = _CACHE["freq"](**kw)
    CREATED.append(m)
    return m


def real_table_freq_classifier(table, n_classes=2):
    """concrete replay: frequencies looked up by row (unknown rows: zero frequencies)"""
    from skactiveml.base import ClassFrequencyEstimator
    from skactiveml.utils import MISSING_LABEL

    class TableFreq(ClassFrequencyEstimator):
        def __init__(self, classes=None, missing_label=MISSING_LABEL, cost_matrix=None, class_prior=0.0, random_state=None,
                     table=None, n_classes=2):
            super().__init__(classes=classes, missing_label=missing_label, cost_matrix=cost_matrix, class_prior=class_prior,
                             random_state=random_state)
            self.table = table
            self.n_classes = n_classes

        def fit(self, X, y, sample_weight=None):
            self._validate_data(X, y, sample_weight)
            self.fit_count_ = getattr(self, "fit_count_", 0) + 1
            return self

        def predict_freq(self, X):
            X = np.asarray(X, dtype=float)
            out = np.zeros((len(X), self.n_classes))
            for i, r in enumerate(X):
                for row, fr in self.table or []:
                    if np.array_equal(np.asarray(row, dtype=float), r):
                        out[i] = fr
            return out
    m = TableFreq(table=table, n_classes=n_classes, classes=list(range(n_classes)))
    CREATED.append(m)
    return m
