#!/usr/bin/env python3
"""Evaluate a seeded change produced by a sub-agent.

usage: tools/eval_seed.py <seed dir containing patch.diff, demo.py, notes.md> <property id> [check ids ...]

1. fresh scratch worktree of /repo HEAD (outside /repo and /verif), demo must PASS
2. apply patch, demo must FAIL, the tests of the touched packages must still pass
3. run the given checks (default: the property's own) against the patched worktree (VERIF_REPO)
4. write /verif/seeded/<name>/{patch.diff,demo.py,meta.json}; remove the worktree
"""
import json
import os
import shutil
import subprocess
import sys
import tempfile
import time

VERIF = os.path.dirname(os.path.dirname(os.path.abspath(__file__)))


def sh(cmd, cwd=None, env=None, timeout=3600):
    p = subprocess.run(cmd, shell=True, cwd=cwd, env=env, capture_output=True, text=True, timeout=timeout)
    return p.returncode, (p.stdout + p.stderr)


def main():
    seed_dir, pid = sys.argv[1], sys.argv[2]
    checks = sys.argv[3:] or [pid]
    var = os.environ.get("SEED_VARIANT", "")
    sfx = f"_{var}" if var else ""
    name = os.environ.get("SEED_NAME", pid + "-" + os.path.basename(os.path.dirname(os.path.abspath(seed_dir))).replace("wt_", "s"))
    wt = tempfile.mkdtemp(prefix="seedwt.", dir="/tmp")
    os.rmdir(wt)
    meta = dict(property=pid, name=name, checks={}, ran=[])
    try:
        rc, out = sh(f"git -C /repo worktree add -q --detach {wt} HEAD")
        assert rc == 0, out
        os.makedirs(f"{wt}/seed", exist_ok=True)
        shutil.copy(f"{seed_dir}/demo{sfx}.py", f"{wt}/seed/demo.py")
        rc0, out0 = sh("/venv/bin/python seed/demo.py", cwd=wt, timeout=900)
        meta["demo_without_patch"] = dict(exit=rc0, tail=out0[-300:])
        meta["ran"].append("demo.py on unpatched HEAD")
        rc, out = sh(f"git apply {os.path.abspath(seed_dir)}/patch{sfx}.diff", cwd=wt)
        meta["patch_applies"] = rc == 0
        if rc != 0:
            meta["error"] = out[-400:]
            return meta
        rc1, out1 = sh("/venv/bin/python seed/demo.py", cwd=wt, timeout=900)
        meta["demo_with_patch"] = dict(exit=rc1, tail=out1[-400:])
        meta["ran"].append("demo.py with patch")
        # tests of the touched packages
        rc, files = sh("git diff --name-only", cwd=wt)
        touched = [f for f in files.split() if f.endswith(".py") and "/tests/" not in f]
        meta["touched"] = touched
        pkgs = sorted({os.path.dirname(f) for f in touched})
        test_dirs = []
        for p in pkgs:
            q = p
            while q and q != "skactiveml":
                if os.path.isdir(f"{wt}/{q}/tests"):
                    test_dirs.append(f"{q}/tests")
                q = os.path.dirname(q)
            if os.path.isdir(f"{wt}/skactiveml/tests") and "skactiveml/tests" not in test_dirs:
                test_dirs.append("skactiveml/tests")
        test_dirs = sorted(set(test_dirs))
        # prefer the test modules of the touched files (the sub-agents already ran the package level tests)
        mods = []
        for f in touched:
            stem = os.path.basename(f)[:-3].lstrip("_")
            cand = os.path.join(os.path.dirname(f), "tests", f"test_{stem}.py")
            if os.path.exists(f"{wt}/{cand}"):
                mods.append(cand)
        if mods and len(mods) == len(touched) and not os.environ.get("SEED_PACKAGE_TESTS"):
            test_dirs = sorted(set(mods + ["skactiveml/tests/test_base.py"]))
        if os.environ.get("SEED_FULL_TESTS"):
            test_dirs = ["skactiveml"]
        t0 = time.time()
        rc, out = sh("/venv/bin/python -m pytest -q -p no:cacheprovider -x --timeout=900 "
                     "--deselect skactiveml/pool/tests/test_utils.py::TestApproximation::test_conditional_expectation "
                     "--deselect skactiveml/pool/tests/test_wrapper.py::TestParallelUtilityEstimationWrapper::test_init_param_parallel_dict "
                     "--deselect skactiveml/regressor/tests/test_wrapper.py::TestWrapper::test_fit_predict "
                     + " ".join(test_dirs), cwd=wt, timeout=3000)
        meta["tests_with_patch"] = dict(dirs=test_dirs, exit=rc, tail=out.strip().splitlines()[-1] if out.strip() else "", seconds=round(time.time() - t0))
        meta["ran"].append("pytest " + " ".join(test_dirs) + " (3 baseline always_fail tests deselected)")
        env = dict(os.environ, VERIF_REPO=wt)
        for c in checks:
            t0 = time.time()
            rc, out = sh(f"{VERIF}/check {c} --tier quick", cwd=VERIF, env=env, timeout=3000)
            vio = [l for l in out.splitlines() if l.startswith("VIOLATION")]
            det = [l.strip() for l in out.splitlines() if l.startswith("  harness=")]
            meta["checks"][c] = dict(exit=rc, violations=len(vio), first=det[0][:500] if det else "", summary=out.strip().splitlines()[-1][:300] if out.strip() else "",
                                     seconds=round(time.time() - t0))
            meta["ran"].append(f"VERIF_REPO=<patched worktree> ./check {c} --tier quick")
        meta["valid_seed"] = (rc0 == 0 and rc1 != 0 and meta["tests_with_patch"]["exit"] == 0)
        meta["caught_by"] = [c for c, v in meta["checks"].items() if v["exit"] == 1 and v["violations"] > 0]
    finally:
        sh(f"git -C /repo worktree remove --force {wt}")
        shutil.rmtree(wt, ignore_errors=True)
        out_dir = os.path.join(VERIF, "seeded", name)
        os.makedirs(out_dir, exist_ok=True)
        for f in ("patch", "demo", "notes"):
            ext = {"patch": ".diff", "demo": ".py", "notes": ".md"}[f]
            if os.path.exists(f"{seed_dir}/{f}{sfx}{ext}"):
                shutil.copy(f"{seed_dir}/{f}{sfx}{ext}", os.path.join(out_dir, f + ext))
        json.dump(meta, open(os.path.join(out_dir, "meta.json"), "w"), indent=1)
        print(json.dumps({k: meta.get(k) for k in ("name", "valid_seed", "caught_by", "demo_without_patch", "demo_with_patch", "tests_with_patch")}, indent=1)[:1500])
        for c, v in meta["checks"].items():
            print(c, v["exit"], v["violations"], v["first"][:300])
    return meta


if __name__ == "__main__":
    main()
