"""Regenerates MANIFEST.json from harness modules (harness/Cxx.py with PID, MANIFEST_TEXT...)."""
import importlib, json, os, sys
HERE = os.path.dirname(os.path.dirname(os.path.abspath(__file__)))
sys.path.insert(0, HERE)
ALL = [f"C{i:02d}" for i in range(1, 21)]
NA = json.load(open(os.path.join(HERE, "tools", "not_applicable.json")))
checks = []
for pid in ALL:
    if not os.path.exists(os.path.join(HERE, "harness", f"{pid}.py")):
        continue
    src = open(os.path.join(HERE, "harness", f"{pid}.py")).read()
    meta = json.load(open(os.path.join(HERE, "tools", "manifest_meta.json"))).get(pid)
    if meta is None:
        continue
    checks.append(dict(
        property_id=pid,
        quick_cmd=f"./check {pid} --tier quick",
        thorough_cmd=f"./check {pid} --tier thorough",
        evidence_file=f"/verif/evidence/{pid}.json",
        replay_cmd_template=f"./check {pid} --replay {{path}}",
        engine=meta.get("engine", "symx"),
        level_claimed=dict(category="model_checking", text=meta["text"], design_ref=meta.get("design_ref", f"DESIGN.md §3/{pid}")),
        level_note=meta["note"],
        technique=meta.get("technique", "bounded symbolic execution of the real Python functions (numpy facade) with z3 deciding every path; counterexamples replayed on the unpatched code"),
    ))
claimed = {c["property_id"] for c in checks}
m = dict(
    version=1,
    setup_cmd="./setup.sh",
    hooks=dict(guard="SKACTIVEML_VERIF", enable="no hooks: the numpy facade is installed by rebinding module globals inside the check process",
               baseline_off_cmd="cd /repo && /venv/bin/python -m pytest -ra -q -p no:cacheprovider --timeout=900 --continue-on-collection-errors",
               source_commits=[], add_only=True),
    engines=[dict(name="symx", path="/verif/symx", serves_properties=sorted(claimed),
                  kind_free_text="symbolic execution of the real skactiveml functions: z3 terms inside numpy object arrays, path forking on symbolic branches, SMT verdict per path, replay on unpatched code"),
             dict(name="paramflow", path="/verif/paramflow", serves_properties=[p for p in ("C05", "C13") if p in claimed],
                  kind_free_text="AST-level abstract symbolic execution of method bodies with z3 path feasibility over constructor configurations")],
    checks=checks,
    not_applicable=[dict(property_id=p, reason=NA.get(p, "check not built yet in this round; see DESIGN.md")) for p in ALL if p not in claimed],
    notes="Solver-based checking of the real code. See DESIGN.md. Known findings: known_findings.json.",
)
json.dump(m, open(os.path.join(HERE, "MANIFEST.json"), "w"), indent=1)
print("claimed:", sorted(claimed))
