#!/usr/bin/env python3
"""Re-run the quick check of each stored seeded change against the current checks.

usage: tools/recheck_seeds.py [-j N] [seed-dir-name ...]     (default: every /verif/seeded/* whose patch applies to /repo HEAD)
For each seed: scratch worktree of /repo HEAD (outside /repo and /verif), `git apply patch.diff`, VERIF_REPO=<worktree>
./check <property> --tier quick; the worktree is removed afterwards. Prints one line per seed: name, exit code (1 = reported),
number of VIOLATION lines. Seeds whose patch does not apply to HEAD any more (a later "fix:" commit touched the same lines)
are listed as skipped.
"""
import concurrent.futures as cf
import json
import os
import subprocess
import sys
import tempfile

VERIF = os.path.dirname(os.path.dirname(os.path.abspath(__file__)))
REPO = os.environ.get("VERIF_REPO_BASE", "/repo")


def one(name):
    d = os.path.join(VERIF, "seeded", name)
    meta = json.load(open(os.path.join(d, "meta.json")))
    pid = meta.get("property") or meta.get("breaks_property")
    wt = tempfile.mkdtemp(prefix="seedwt_", dir=os.environ.get("TMPDIR", "/tmp"))
    os.rmdir(wt)
    try:
        subprocess.run(["git", "-C", REPO, "worktree", "add", "-q", "--detach", wt, "HEAD"], check=True, capture_output=True)
        r = subprocess.run(["git", "-C", wt, "apply", os.path.join(d, "patch.diff")], capture_output=True)
        if r.returncode != 0:
            return name, pid, "skipped (patch does not apply to HEAD)", 0
        env = dict(os.environ, VERIF_REPO=wt, VERIF_PROCS=os.environ.get("VERIF_PROCS", "8"))
        r = subprocess.run([os.path.join(VERIF, "check"), pid, "--tier", "quick"], capture_output=True, text=True, env=env, cwd=VERIF)
        return name, pid, r.returncode, r.stdout.count("VIOLATION property=")
    finally:
        subprocess.run(["git", "-C", REPO, "worktree", "remove", "--force", wt], capture_output=True)


def main():
    args = sys.argv[1:]
    j = 2
    if args[:1] == ["-j"]:
        j = int(args[1])
        args = args[2:]
    names = args or sorted(os.listdir(os.path.join(VERIF, "seeded")))
    with cf.ThreadPoolExecutor(j) as ex:
        for name, pid, rc, nv in ex.map(one, names):
            print(f"{name:12s} {pid} rc={rc} violations={nv}", flush=True)


if __name__ == "__main__":
    main()
