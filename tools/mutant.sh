#!/bin/sh
# usage: tools/mutant.sh <patch-or-sed-script.py> <check args...>
# Applies a python edit script (receives repo path as argv[1]) to a scratch worktree of /repo and runs ./check against it.
set -e
WT=$(mktemp -d /tmp/wt.XXXXXX)
rmdir "$WT"
git -C /repo worktree add -q --detach "$WT" HEAD
trap 'git -C /repo worktree remove --force "$WT" >/dev/null 2>&1 || rm -rf "$WT"' EXIT
P="$1"; shift
case "$P" in
  *.py) /venv/bin/python "$P" "$WT" ;;
  *) git -C "$WT" apply "$P" ;;
esac
VERIF_REPO="$WT" /verif/check "$@" || echo "exit=$?"
