"""Registry of real objects / call arguments (taken from the repository's own
Test* classes) and the differential replay that confirms PARAMFLOW events on the
unpatched code."""
from __future__ import annotations

import copy
import glob
import hashlib
import importlib
import inspect
import os
import pickle
import unittest
import warnings

import numpy as np

REG = None


def build_registry(repo):
    """class -> dict(kind, init, call variants) from the setUp() of the repo's test classes"""
    global REG
    if REG is not None:
        return REG
    reg = {}
    pats = ["skactiveml/pool/tests/test_*.py", "skactiveml/pool/multiannotator/tests/test_*.py",
            "skactiveml/stream/tests/test_*.py", "skactiveml/stream/budgetmanager/tests/test_*.py",
            "skactiveml/classifier/tests/test_*.py", "skactiveml/classifier/multiannotator/tests/test_*.py",
            "skactiveml/regressor/tests/test_*.py"]
    for pat in pats:
        for f in sorted(glob.glob(os.path.join(repo, pat))):
            modname = os.path.relpath(f, repo)[:-3].replace(os.sep, ".")
            try:
                with warnings.catch_warnings():
                    warnings.simplefilter("ignore")
                    mod = importlib.import_module(modname)
            except Exception:
                continue
            for name, T in inspect.getmembers(mod, inspect.isclass):
                if not issubclass(T, unittest.TestCase) or T.__module__ != modname:
                    continue
                try:
                    t = T("setUp")
                    with warnings.catch_warnings():
                        warnings.simplefilter("ignore")
                        t.setUp()
                except Exception:
                    continue
                if hasattr(t, "qs_class") and hasattr(t, "init_default_params"):
                    calls = []
                    if getattr(t, "query_default_params_clf", None) is not None:
                        calls.append(dict(t.query_default_params_clf))
                    if getattr(t, "query_default_params_reg", None) is not None:
                        calls.append(dict(t.query_default_params_reg))
                    reg.setdefault(t.qs_class, dict(kind="qs", init=dict(t.init_default_params), calls=calls, test=f"{modname}:{name}"))
                elif hasattr(t, "estimator_class") and hasattr(t, "init_default_params"):
                    reg.setdefault(t.estimator_class, dict(kind="estimator", init=dict(t.init_default_params),
                                                           fit=dict(t.fit_default_params or {}),
                                                           predict=dict(t.predict_default_params or {}), test=f"{modname}:{name}"))
                elif hasattr(t, "bm_class") and hasattr(t, "init_default_params"):
                    reg.setdefault(t.bm_class, dict(kind="bm", init=dict(t.init_default_params),
                                                    qbu=dict(t.query_by_utility_params or {}), test=f"{modname}:{name}"))
    REG = reg
    return reg


# --------------------------------------------------------------------------
def digest(obj, depth=0, seen=None):
    """structural digest of an object (arrays by bytes, estimators by class + __dict__)"""
    if seen is None:
        seen = set()
    if depth > 6:
        return "..."
    if isinstance(obj, np.ndarray):
        if obj.dtype == object:
            return ("ndarray-o", obj.shape, tuple(digest(x, depth + 1, seen) for x in obj.ravel().tolist()))
        return ("ndarray", str(obj.dtype), obj.shape, hashlib.sha1(np.ascontiguousarray(obj).tobytes()).hexdigest())
    if isinstance(obj, np.random.RandomState):
        st = obj.get_state()
        return ("rng", hashlib.sha1(st[1].tobytes()).hexdigest(), st[2:])
    if isinstance(obj, (str, bytes, int, bool, type(None))):
        return obj
    if isinstance(obj, float):
        return "nan" if obj != obj else obj
    if isinstance(obj, np.generic):
        return digest(obj.item(), depth, seen)
    if isinstance(obj, dict):
        return ("dict", tuple(sorted((repr(k), digest(v, depth + 1, seen)) for k, v in obj.items())))
    if isinstance(obj, (list, tuple)):
        return (type(obj).__name__, tuple(digest(v, depth + 1, seen) for v in obj))
    if isinstance(obj, (set, frozenset)):
        return ("set", tuple(sorted(repr(digest(v, depth + 1, seen)) for v in obj)))
    if inspect.isclass(obj) or inspect.isfunction(obj) or inspect.ismethod(obj) or inspect.isbuiltin(obj):
        return ("callable", getattr(obj, "__qualname__", repr(obj)))
    if id(obj) in seen:
        return ("cycle", type(obj).__name__)
    seen.add(id(obj))
    if hasattr(obj, "__dict__"):
        return ("obj", type(obj).__qualname__, tuple(sorted((k, digest(v, depth + 1, seen)) for k, v in vars(obj).items())))
    if hasattr(obj, "tocsr"):
        return ("sparse", digest(obj.toarray(), depth + 1, seen))
    return ("repr", repr(obj)[:80])


def params_digest(est):
    return digest(est.get_params(deep=True)) if hasattr(est, "get_params") else digest(vars(est))


def apply_config(init, config, dict_candidates=None):
    """registry defaults overridden by the solver's configuration"""
    out = dict(init)
    for p, v in (config or {}).items():
        if "v" in v:
            val = v["v"]
            if isinstance(val, dict) and "__ndarray__" in val:
                val = np.array(val["__ndarray__"], dtype=val.get("dtype", "float64"))
            out[p] = val
        elif "dict" in v:
            out[p] = dict((dict_candidates or {}).get(p, {}))
    return out


def diff_report(before, after, names):
    return [n for n, b, a in zip(names, before, after) if b != a]


def replay_query_side_effects(K, entry, config, repeat=2, dict_candidates=None, args_config=None):
    """run K(**init).query(**call) and report what changed. Returns list of findings (strings)."""
    findings = []
    for call in entry["calls"] or [{}]:
        init = apply_config(entry["init"], config, dict_candidates)
        try:
            with warnings.catch_warnings():
                warnings.simplefilter("ignore")
                qs = K(**copy.deepcopy(init))
                call = copy.deepcopy(call)
                for a, v in (args_config or {}).items():
                    if "v" in v and a in inspect.signature(K.query).parameters:
                        call[a] = v["v"]
                names = sorted(call)
                p0 = params_digest(qs)
                a0 = [digest(call[n]) for n in names]
                try:
                    pk0 = pickle.dumps(qs)
                except Exception:
                    pk0 = None
                for _ in range(repeat):
                    qs.query(**call)
                p1 = params_digest(qs)
                a1 = [digest(call[n]) for n in names]
        except Exception as e:
            findings.append(("error", f"{type(e).__name__}: {str(e)[:120]}"))
            continue
        if p0 != p1:
            changed = [k for k in init if digest(init[k]) != digest(getattr(qs, k, None))]
            findings.append(("get_params_changed", f"get_params() differs after query; changed: {changed or '?'}: "
                                                    f"{ {k: repr(getattr(qs, k, None))[:60] for k in changed} }"))
        ch = diff_report(a0, a1, names)
        if ch:
            findings.append(("argument_mutated", f"call arguments modified by query: {ch}"))
    return findings


def _predict_all(est, Xq):
    out = {}
    for m in ("predict", "predict_proba", "predict_freq"):
        if hasattr(est, m):
            try:
                with warnings.catch_warnings():
                    warnings.simplefilter("ignore")
                    out[m] = digest(np.asarray(getattr(est, m)(Xq)))
            except Exception as e:
                out[m] = ("error", type(e).__name__)
    return out


def replay_estimator(K, entry, config, dict_candidates=None):
    """fit/predict side effects and history-freeness of an estimator"""
    findings = []
    init = apply_config(entry["init"], config, dict_candidates)
    fitp = copy.deepcopy(entry.get("fit") or {})
    predp = copy.deepcopy(entry.get("predict") or {})
    try:
        with warnings.catch_warnings():
            warnings.simplefilter("ignore")
            owned = copy.deepcopy(init)              # caller-owned parameter objects (dicts ...)
            est = K(**owned)
            own0 = {k: digest(v) for k, v in owned.items()}
            p0 = params_digest(est)
            est.fit(**copy.deepcopy(fitp))
            if predp:
                for m in ("predict", "predict_proba"):
                    if hasattr(est, m):
                        try:
                            getattr(est, m)(**copy.deepcopy(predp))
                        except Exception:
                            pass
            p1 = params_digest(est)
            own1 = {k: digest(v) for k, v in owned.items()}
            if p0 != p1:
                changed = [k for k in init if digest(init[k]) != digest(getattr(est, k, None))]
                findings.append(("get_params_changed", f"get_params() differs after fit/predict; changed: {changed}"))
            ch = [k for k in own0 if own0[k] != own1[k]]
            if ch:
                findings.append(("caller_object_mutated", f"objects passed to the constructor were modified: {ch}"))
            # history: fit on data A, then on data B  vs  fresh clone fitted on B only
            X = np.asarray(fitp.get("X"))
            y = np.asarray(fitp.get("y"))
            if X.ndim == 2 and len(X) >= 2:
                XB = X[::-1] * 3.0 + 1.0
                yB = y[::-1]
                fB = dict(fitp, X=XB, y=yB)
                if "sample_weight" in fB and fB["sample_weight"] is not None:
                    fB["sample_weight"] = np.asarray(fB["sample_weight"])[::-1]
                from sklearn.base import clone
                e1 = K(**copy.deepcopy(init))
                e1.fit(**copy.deepcopy(fitp))
                e1.fit(**copy.deepcopy(fB))
                e2 = clone(K(**copy.deepcopy(init)))
                e2.fit(**copy.deepcopy(fB))
                Xq = np.vstack([X, XB])
                if _predict_all(e1, Xq) != _predict_all(e2, Xq):
                    findings.append(("fit_depends_on_history", "refit on new data differs from a fresh clone fitted on the same data"))
    except Exception as e:
        findings.append(("error", f"{type(e).__name__}: {str(e)[:120]}"))
    return findings


def replay_stream(K, entry, config, dict_candidates=None):
    findings = []
    for call in entry["calls"] or [{}]:
        init = apply_config(entry["init"], config, dict_candidates)
        try:
            with warnings.catch_warnings():
                warnings.simplefilter("ignore")
                owned = copy.deepcopy(init)
                qs = K(**owned)
                own0 = {k: digest(v) for k, v in owned.items()}
                p0 = params_digest(qs)
                call = copy.deepcopy(call)
                names = sorted(call)
                a0 = [digest(call[n]) for n in names]
                for _ in range(2):
                    idx, util = qs.query(**call, return_utilities=True)
                    upd = {k: v for k, v in call.items() if k in inspect.signature(K.update).parameters}
                    try:
                        qs.update(queried_indices=np.asarray(idx, dtype=int), **upd)
                    except TypeError:
                        qs.update(queried_indices=np.asarray(idx, dtype=int),
                                  budget_manager_param_dict={"utilities": util}, **upd)
                p1 = params_digest(qs)
                a1 = [digest(call[n]) for n in names]
                own1 = {k: digest(v) for k, v in owned.items()}
        except Exception as e:
            findings.append(("error", f"{type(e).__name__}: {str(e)[:120]}"))
            continue
        if p0 != p1:
            changed = [k for k in init if digest(init[k]) != digest(getattr(qs, k, None))]
            findings.append(("get_params_changed", f"get_params() differs after query/update; changed: {changed}"))
        if [k for k in own0 if own0[k] != own1[k]]:
            findings.append(("caller_object_mutated", "objects passed to the constructor were modified"))
        if diff_report(a0, a1, names):
            findings.append(("argument_mutated", f"call arguments modified: {diff_report(a0, a1, names)}"))
    return findings


def replay_bm(K, entry, config, dict_candidates=None):
    findings = []
    init = apply_config(entry["init"], config, dict_candidates)
    try:
        with warnings.catch_warnings():
            warnings.simplefilter("ignore")
            bm = K(**copy.deepcopy(init))
            p0 = params_digest(bm)
            call = copy.deepcopy(entry["qbu"])
            for _ in range(2):
                idx = bm.query_by_utility(**call)
                u = np.asarray(call.get("utilities"))
                kw = {}
                if "utilities" in inspect.signature(K.update).parameters:
                    kw["utilities"] = u
                bm.update(np.zeros((len(u), 1)), np.asarray(idx, dtype=int), **kw)
            p1 = params_digest(bm)
    except Exception as e:
        return [("error", f"{type(e).__name__}: {str(e)[:120]}")]
    if p0 != p1:
        changed = [k for k in init if digest(init[k]) != digest(getattr(bm, k, None))]
        findings.append(("get_params_changed", f"get_params() differs after query_by_utility/update; changed: {changed}"))
    return findings
