"""PARAMFLOW — symbolic execution of method bodies (AST) over an abstract store.

Constructor parameters are symbolic values of a small finite sort; branch
conditions over parameters become z3 constraints (anything else is a free Bool);
values are abstract references (may-alias sets). For every monitored event
(write to a constructor parameter, in-place mutation / fit of something that
may alias a parameter or a call argument, read of a fitted attribute before it
is assigned) z3 decides whether the path condition is satisfiable and returns a
configuration, which is then replayed on the real class."""
from __future__ import annotations

import ast
import inspect
import textwrap

import z3

NONE, TRUE, FALSE, DICT, OTHER = 0, 1, 2, 3, 4
FRESH_CALLS = {"clone", "deepcopy", "copy", "dict", "list", "set", "tuple", "full", "zeros", "ones", "empty", "array",
               "full_like", "zeros_like", "ones_like", "arange", "len", "sum", "max", "min", "mean", "unique", "append",
               "concatenate", "hstack", "vstack", "delete", "argwhere", "where", "isnan", "argsort", "sort", "sorted",
               "int", "float", "str", "bool", "range", "enumerate", "zip", "isinstance", "hasattr", "getattr", "type",
               "check_random_state", "check_scalar", "check_type", "signature", "repeat", "tile", "exp", "log", "sqrt",
               "abs", "dot", "eye", "linspace", "round", "ceil", "floor", "format", "ValueError", "TypeError", "warn",
               "is_labeled", "is_unlabeled", "labeled_indices", "unlabeled_indices", "rand_argmax", "rand_argmin",
               "pairwise_kernels", "pairwise_distances", "predict", "predict_proba", "predict_freq", "query_by_utility",
               "get_params", "astype", "reshape", "flatten", "ravel", "tolist", "items", "keys", "values", "get",
               "call_func", "simple_batch", "check_budget_manager", "check_equal_missing_label", "check_cost_matrix",
               "check_class_prior", "compute_vote_vectors", "majority_vote", "uncertainty_scores"}
ALIAS_CALLS = {"check_array", "asarray", "asanyarray", "column_or_1d", "check_X_y", "atleast_1d", "atleast_2d", "squeeze",
               "check_consistent_length", "check_indices", "as_float_array"}
MUTATORS = {"update", "pop", "popitem", "append", "extend", "insert", "remove", "clear", "sort", "reverse", "fill",
            "setdefault", "put", "resize", "itemset", "setflags", "partition", "set_params", "__setitem__", "add", "discard"}
FITTERS = {"fit", "partial_fit"}


class AV:
    """abstract value"""
    __slots__ = ("refs", "exact", "const")

    def __init__(self, refs=frozenset(), exact=None, const=None):
        self.refs = frozenset(refs)
        self.exact = exact      # ('param', p) / ('arg', a): the value IS that parameter
        self.const = const      # python literal if known

    def join(self, o):
        return AV(self.refs | o.refs, self.exact if self.exact == o.exact else None,
                  self.const if self.const == o.const else None)


FRESH = AV()


class Event:
    def __init__(self, kind, what, lineno, pc, where):
        self.kind, self.what, self.lineno, self.pc, self.where = kind, what, lineno, pc, where

    def key(self):
        return (self.kind, self.what, self.where, self.lineno)


class PathEnd(Exception):
    pass


class Interp:
    def __init__(self, cls, method, max_paths=3000, max_depth=3):
        self.cls = cls
        self.method = method
        self.ctor_params = [p for p in inspect.signature(cls.__init__).parameters if p != "self"]
        self.max_paths = max_paths
        self.max_depth = max_depth
        self.events = {}
        self.codes = {}     # literal -> code
        self.cfg = {p: z3.Int(f"cfg_{p}") for p in self.ctor_params}
        self.argv = {}
        self.fresh_id = 0
        self.paths = 0
        self.queries = 0
        self.truncated = False
        self.functions = []

    # ---- helpers -----------------------------------------------------------
    def code(self, lit):
        if lit is None:
            return NONE
        if lit is True:
            return TRUE
        if lit is False:
            return FALSE
        k = repr(lit)
        if k not in self.codes:
            self.codes[k] = (10 + len(self.codes), lit)
        return self.codes[k][0]

    def get_func(self, name):
        for k in inspect.getmro(self.cls):
            if name in k.__dict__:
                f = k.__dict__[name]
                if isinstance(f, (staticmethod, classmethod)):
                    f = f.__func__
                # skactiveml.utils.match_signature wraps a method in a descriptor that keeps the function as `.fn`
                if not inspect.isfunction(f) and inspect.isfunction(getattr(f, "fn", None)):
                    f = f.fn
                f = inspect.unwrap(f)
                try:
                    src = textwrap.dedent(inspect.getsource(f))
                    tree = ast.parse(src)
                    fn = tree.body[0]
                    return fn, k, inspect.getsourcefile(f), inspect.getsourcelines(f)[1]
                except (OSError, TypeError, SyntaxError):
                    return None
        return None

    def symvar(self, exact):
        kind, name = exact
        if kind == "param":
            return self.cfg[name]
        if name not in self.argv:
            self.argv[name] = z3.Int(f"arg_{name}")
        return self.argv[name]

    def fresh_bool(self):
        self.fresh_id += 1
        return z3.Bool(f"u{self.fresh_id}")

    # ---- entry -----------------------------------------------------------
    def run(self):
        got = self.get_func(self.method)
        if got is None:
            return self
        fn, owner, file, line0 = got
        self.functions.append((f"{owner.__module__}:{owner.__qualname__}.{self.method}", file, line0))
        env = {}
        for a in fn.args.args + fn.args.kwonlyargs:
            if a.arg == "self":
                continue
            env[a.arg] = AV({("arg", a.arg)}, exact=("arg", a.arg))
        if fn.args.kwarg:
            env[fn.args.kwarg.arg] = AV({("arg", fn.args.kwarg.arg)})
        if fn.args.vararg:
            env[fn.args.vararg.arg] = AV({("arg", fn.args.vararg.arg)})
        state = dict(env=env, selfattrs={}, assigned=set(), pc=[], depth=0, where=f"{owner.__qualname__}.{self.method}",
                     line0=line0)
        self.explore(fn.body, state)
        return self

    def explore(self, body, state):
        """DFS over paths. Work list of (remaining statement list stack, state)."""
        work = [([list(body)], state)]
        while work:
            if self.paths >= self.max_paths:
                self.truncated = True
                return
            stack, st = work.pop()
            try:
                self.run_stack(stack, st, work)
            except PathEnd:
                pass
            self.paths += 1

    def run_stack(self, stack, st, work):
        while stack:
            stmts = stack[-1]
            if not stmts:
                stack.pop()
                continue
            s = stmts.pop(0)
            self.exec_stmt(s, st, stack, work)

    # ---- statements -----------------------------------------------------------
    def clone_state(self, st):
        d = dict(env=dict(st["env"]), selfattrs=dict(st["selfattrs"]), assigned=set(st["assigned"]),
                 pc=list(st["pc"]), depth=st["depth"], where=st["where"], line0=st["line0"])
        if "func_module" in st:
            d["func_module"] = st["func_module"]
        return d

    def event(self, kind, what, node, st):
        ev = Event(kind, what, st["line0"] + getattr(node, "lineno", 1) - 1, list(st["pc"]), st["where"])
        self.events.setdefault(ev.key(), []).append(ev)

    def exec_stmt(self, s, st, stack, work):
        if isinstance(s, ast.Return):
            if s.value is not None:
                st["ret"] = self.eval(s.value, st)
            raise PathEnd()
        if isinstance(s, ast.Raise):
            raise PathEnd()
        if isinstance(s, ast.FunctionDef):
            # a closure defined inside the method (e.g. the integrand handed to _conditional_expect): its body runs
            # with the enclosing environment; interpret it once for its events
            if st["depth"] < self.max_depth:
                sub = self.clone_state(st)
                sub["depth"] = st["depth"] + 1
                for a in s.args.args:
                    sub["env"][a.arg] = FRESH
                work2 = [([list(s.body)], sub)]
                n = 0
                while work2 and n < 32:
                    stack2, s2 = work2.pop()
                    n += 1
                    try:
                        self.run_stack(stack2, s2, work2)
                    except PathEnd:
                        pass
            return
        if isinstance(s, (ast.Pass, ast.Import, ast.ImportFrom, ast.Global, ast.Nonlocal, ast.Assert, ast.Delete,
                          ast.ClassDef, ast.Break, ast.Continue)):
            return
        if isinstance(s, ast.Expr):
            self.eval(s.value, st)
            return
        if isinstance(s, ast.Assign):
            v = self.eval(s.value, st)
            for t in s.targets:
                self.assign(t, v, st, s)
            return
        if isinstance(s, ast.AnnAssign):
            if s.value is not None:
                self.assign(s.target, self.eval(s.value, st), st, s)
            return
        if isinstance(s, ast.AugAssign):
            v = self.eval(s.value, st)
            t = s.target
            if isinstance(t, ast.Attribute) and isinstance(t.value, ast.Name) and t.value.id == "self":
                if t.attr in self.ctor_params:
                    self.event("param_write", t.attr, s, st)
                else:
                    cur = st["selfattrs"].get(t.attr, FRESH)
                    if self.tainted(cur):
                        self.event("alias_mutation", f"self.{t.attr} {self.describe(cur)}", s, st)
            elif isinstance(t, ast.Name):
                cur = st["env"].get(t.id, FRESH)
                if self.tainted(cur):
                    self.event("alias_mutation", f"{t.id} {self.describe(cur)}", s, st)
            elif isinstance(t, ast.Subscript):
                base = self.eval(t.value, st)
                if self.tainted(base):
                    self.event("alias_mutation", f"{ast.unparse(t.value)}[...] {self.describe(base)}", s, st)
            return
        if isinstance(s, ast.If):
            cond = self.cond(s.test, st)
            st2 = self.clone_state(st)
            st2["pc"].append(z3.Not(cond))
            stack2 = [list(x) for x in stack] + [list(s.orelse)]
            work.append((stack2, st2))
            st["pc"].append(cond)
            stack.append(list(s.body))
            return
        if isinstance(s, (ast.For, ast.AsyncFor)):
            it = self.eval(s.iter, st)
            # zero iterations
            st2 = self.clone_state(st)
            work.append(([list(x) for x in stack] + [list(s.orelse)], st2))
            self.assign(s.target, AV(it.refs), st, s)
            stack.append(list(s.body))
            return
        if isinstance(s, ast.While):
            st2 = self.clone_state(st)
            work.append(([list(x) for x in stack], st2))
            self.eval(s.test, st)
            stack.append(list(s.body))
            return
        if isinstance(s, (ast.With, ast.AsyncWith)):
            for item in s.items:
                v = self.eval(item.context_expr, st)
                if item.optional_vars is not None:
                    self.assign(item.optional_vars, v, st, s)
            stack.append(list(s.body))
            return
        if isinstance(s, ast.Try):
            # normal path, and one path per handler (taken from the start of the try body)
            for h in s.handlers:
                st2 = self.clone_state(st)
                work.append(([list(x) for x in stack] + [list(h.body) + list(s.finalbody)], st2))
            stack.append(list(s.body) + list(s.orelse) + list(s.finalbody))
            return
        if isinstance(s, ast.Match):
            for c in s.cases:
                st2 = self.clone_state(st)
                work.append(([list(x) for x in stack] + [list(c.body)], st2))
            raise PathEnd()
        return

    def tainted(self, av):
        return any(r[0] in ("param", "arg") for r in av.refs)

    def describe(self, av):
        return "(may alias " + ", ".join(sorted(f"{k}:{n}" for k, n in av.refs if k in ("param", "arg"))) + ")"

    def assign(self, t, v, st, node):
        if isinstance(t, ast.Name):
            st["env"][t.id] = v
        elif isinstance(t, (ast.Tuple, ast.List)):
            for e in t.elts:
                self.assign(e.value if isinstance(e, ast.Starred) else e, AV(v.refs), st, node)
        elif isinstance(t, ast.Attribute):
            if isinstance(t.value, ast.Name) and t.value.id == "self":
                if t.attr in self.ctor_params:
                    # writing back exactly the same parameter object is harmless
                    if v.exact != ("param", t.attr):
                        self.event("param_write", t.attr, node, st)
                else:
                    st["selfattrs"][t.attr] = v
                    st["assigned"].add(t.attr)
            else:
                base = self.eval(t.value, st)
                if self.tainted(base):
                    self.event("alias_mutation", f"{ast.unparse(t)} = ... {self.describe(base)}", node, st)
        elif isinstance(t, ast.Subscript):
            base = self.eval(t.value, st)
            if self.tainted(base):
                self.event("alias_mutation", f"{ast.unparse(t.value)}[...] = ... {self.describe(base)}", node, st)
            self.eval(t.slice, st)

    # ---- expressions -----------------------------------------------------------
    def eval(self, e, st):
        if isinstance(e, ast.Constant):
            return AV(const=e.value)
        if isinstance(e, ast.Name):
            if e.id == "self":
                return AV({("self", "self")})
            return st["env"].get(e.id, FRESH)
        if isinstance(e, ast.Attribute):
            if isinstance(e.value, ast.Name) and e.value.id == "self":
                if e.attr in self.ctor_params:
                    return AV({("param", e.attr)}, exact=("param", e.attr))
                if e.attr in st["selfattrs"]:
                    return st["selfattrs"][e.attr]
                if e.attr.endswith("_") and not e.attr.startswith("_") and self.method in ("fit",) \
                        and st["depth"] == 0 and e.attr not in st["assigned"] and isinstance(e.ctx, ast.Load):
                    self.event("stale_read", e.attr, e, st)
                return FRESH
            base = self.eval(e.value, st)
            if e.attr in ("T", "shape", "dtype", "ndim", "size"):
                return AV(base.refs if e.attr == "T" else ())
            return AV(base.refs)
        if isinstance(e, ast.Subscript):
            base = self.eval(e.value, st)
            self.eval(e.slice, st)
            return AV(base.refs)
        if isinstance(e, (ast.Tuple, ast.List, ast.Set)):
            r = FRESH
            for x in e.elts:
                r = AV(r.refs | self.eval(x.value if isinstance(x, ast.Starred) else x, st).refs)
            return r
        if isinstance(e, ast.Dict):
            r = FRESH
            for x in list(e.keys) + list(e.values):
                if x is not None:
                    r = AV(r.refs | self.eval(x, st).refs)
            return AV(())  # a new dict object (its values may alias, but mutation of the dict itself is harmless)
        if isinstance(e, ast.IfExp):
            self.eval(e.test, st)
            return self.eval(e.body, st).join(self.eval(e.orelse, st))
        if isinstance(e, ast.BoolOp):
            r = FRESH
            for v in e.values:
                r = r.join(self.eval(v, st)) if r is not FRESH else self.eval(v, st)
            return AV(r.refs)
        if isinstance(e, (ast.BinOp,)):
            self.eval(e.left, st)
            self.eval(e.right, st)
            return FRESH
        if isinstance(e, ast.UnaryOp):
            self.eval(e.operand, st)
            return FRESH
        if isinstance(e, ast.Compare):
            self.eval(e.left, st)
            for c in e.comparators:
                self.eval(c, st)
            return FRESH
        if isinstance(e, ast.Call):
            return self.call(e, st)
        if isinstance(e, (ast.ListComp, ast.SetComp, ast.GeneratorExp, ast.DictComp)):
            for g in e.generators:
                it = self.eval(g.iter, st)
                self.assign(g.target, AV(it.refs), st, e)
            if isinstance(e, ast.DictComp):
                self.eval(e.value, st)
            else:
                self.eval(e.elt, st)
            return FRESH
        if isinstance(e, ast.Lambda):
            return FRESH
        if isinstance(e, ast.Starred):
            return self.eval(e.value, st)
        if isinstance(e, ast.JoinedStr):
            return FRESH
        if isinstance(e, ast.NamedExpr):
            v = self.eval(e.value, st)
            self.assign(e.target, v, st, e)
            return v
        return FRESH

    def call(self, e, st):
        args = [self.eval(a.value if isinstance(a, ast.Starred) else a, st) for a in e.args]
        kwargs = {k.arg: self.eval(k.value, st) for k in e.keywords}
        allrefs = frozenset().union(*[a.refs for a in args], *[v.refs for v in kwargs.values()]) if (args or kwargs) else frozenset()
        f = e.func
        fname = f.attr if isinstance(f, ast.Attribute) else (f.id if isinstance(f, ast.Name) else None)
        if isinstance(f, ast.Attribute):
            recv_is_self = isinstance(f.value, ast.Name) and f.value.id == "self"
            is_super = isinstance(f.value, ast.Call) and isinstance(f.value.func, ast.Name) and f.value.func.id == "super"
            if recv_is_self or is_super:
                return self.inline(fname, e, args, kwargs, st, is_super)
            recv = self.eval(f.value, st)
            if fname in MUTATORS and self.tainted(recv):
                self.event("alias_mutation", f"{ast.unparse(f.value)}.{fname}(...) {self.describe(recv)}", e, st)
            if fname in FITTERS and any(r[0] == "arg" for r in recv.refs):
                self.event("fits_caller_model", f"{ast.unparse(f.value)}.{fname}(...) {self.describe(recv)}", e, st)
            if "out" in kwargs and self.tainted(kwargs["out"]):
                self.event("alias_mutation", f"out={ast.unparse([k.value for k in e.keywords if k.arg == 'out'][0])} "
                                             f"{self.describe(kwargs['out'])}", e, st)
            if fname in FITTERS:
                return AV(recv.refs)
            if fname in ("copy", "astype", "flatten", "tolist"):
                return FRESH
            if fname in ("reshape", "ravel", "squeeze", "view", "T", "transpose"):
                return AV(recv.refs)
            if fname in ALIAS_CALLS:
                return AV(allrefs)
            return FRESH
        if "out" in kwargs and self.tainted(kwargs["out"]):
            self.event("alias_mutation", f"out= {self.describe(kwargs['out'])}", e, st)
        if fname in ALIAS_CALLS:
            return AV(allrefs)
        if isinstance(f, ast.Name) and any(self.tainted(a) for a in list(args) + list(kwargs.values())):
            r = self.inline_function(fname, e, args, kwargs, st)
            if r is not None:
                return r
        return FRESH

    def inline(self, name, e, args, kwargs, st, is_super):
        """call of a method on self: interpret its body with the abstract arguments (bounded depth)"""
        allrefs = frozenset().union(*[a.refs for a in args], *[v.refs for v in kwargs.values()]) if (args or kwargs) else frozenset()
        if st["depth"] >= self.max_depth:
            return AV(allrefs)
        cls = self.cls
        if is_super:
            # resolve relative to the class that owns the current function
            owner_name = st["where"].split(".")[0]
            mro = inspect.getmro(self.cls)
            idx = [i for i, k in enumerate(mro) if k.__qualname__ == owner_name]
            start = idx[0] + 1 if idx else 1
            got = None
            for k in mro[start:]:
                if name in k.__dict__:
                    sub = Interp.__new__(Interp)
                    sub.__dict__.update(self.__dict__)
                    sub.cls = k
                    got = sub.get_func(name)
                    break
        else:
            got = self.get_func(name)
        if got is None:
            return AV(allrefs)
        fn, owner, file, line0 = got
        if owner.__module__.startswith("sklearn") or not owner.__module__.startswith("skactiveml"):
            return AV(allrefs)
        tag = (f"{owner.__module__}:{owner.__qualname__}.{name}", file, line0)
        if tag not in self.functions:
            self.functions.append(tag)
        env = {}
        params = [a.arg for a in fn.args.args if a.arg != "self"]
        for p, a in zip(params, args):
            env[p] = a
        for k, v in kwargs.items():
            if k is not None:
                env[k] = v
        sub = dict(env=env, selfattrs=st["selfattrs"], assigned=st["assigned"], pc=list(st["pc"]), depth=st["depth"] + 1,
                   where=f"{owner.__qualname__}.{name}", line0=line0)
        # helper bodies are executed path-insensitively w.r.t. the caller: explore their paths, join the effects
        rets = []
        work = [([list(fn.body)], sub)]
        n = 0
        while work and n < 64:
            stack, s2 = work.pop()
            n += 1
            try:
                self.run_stack(stack, s2, work)
            except PathEnd:
                pass
            if "ret" in s2:
                rets.append(s2["ret"])
            # effects on self attributes of every explored helper path are joined into the caller
            if s2["assigned"] is not st["assigned"]:
                st["assigned"] |= s2["assigned"]
            if s2["selfattrs"] is not st["selfattrs"]:
                for k, v in s2["selfattrs"].items():
                    st["selfattrs"][k] = v.join(st["selfattrs"][k]) if k in st["selfattrs"] else v
        r = AV(allrefs)
        for x in rets:
            r = AV(r.refs | x.refs)
        return r

    def inline_function(self, name, e, args, kwargs, st):
        """a module-level function of skactiveml called with a value that may alias a parameter / argument:
        interpret its body (bounded depth) so that mutations inside the callee are seen"""
        if st["depth"] >= self.max_depth:
            return None
        owner_name = st["where"].split(".")[0]
        fobj = None
        for k in inspect.getmro(self.cls):
            mod = inspect.getmodule(k)
            if mod is not None and hasattr(mod, name):
                cand = getattr(mod, name)
                if inspect.isfunction(cand) and (getattr(cand, "__module__", "") or "").startswith("skactiveml"):
                    fobj = cand
                    break
        if fobj is None and "func_module" in st:
            mod = st["func_module"]
            cand = getattr(mod, name, None)
            if inspect.isfunction(cand) and (getattr(cand, "__module__", "") or "").startswith("skactiveml"):
                fobj = cand
        if fobj is None:
            return None
        try:
            fobj = inspect.unwrap(fobj)
            src = textwrap.dedent(inspect.getsource(fobj))
            fn = ast.parse(src).body[0]
            file, line0 = inspect.getsourcefile(fobj), inspect.getsourcelines(fobj)[1]
        except (OSError, TypeError, SyntaxError, IndexError):
            return None
        if not isinstance(fn, ast.FunctionDef):
            return None
        tag = (f"{fobj.__module__}:{fobj.__qualname__}", file, line0)
        if tag not in self.functions:
            self.functions.append(tag)
        env = {}
        params = [a.arg for a in fn.args.args]
        for p, a in zip(params, args):
            env[p] = a
        for k, v in kwargs.items():
            if k is not None:
                env[k] = v
        sub = dict(env=env, selfattrs={}, assigned=set(), pc=list(st["pc"]), depth=st["depth"] + 1,
                   where=f"{fobj.__qualname__}", line0=line0, func_module=inspect.getmodule(fobj))
        rets = []
        work = [([list(fn.body)], sub)]
        n = 0
        while work and n < 64:
            stack, s2 = work.pop()
            n += 1
            try:
                self.run_stack(stack, s2, work)
            except PathEnd:
                pass
            if "ret" in s2:
                rets.append(s2["ret"])
        r = FRESH
        for x in rets:
            r = AV(r.refs | x.refs)
        return r

    # ---- conditions -----------------------------------------------------------
    def cond(self, t, st):
        try:
            c = self._cond(t, st)
        except Exception:
            c = None
        self.eval(t, st)  # for events inside the condition
        return c if c is not None else self.fresh_bool()

    def _cond(self, t, st):
        if isinstance(t, ast.UnaryOp) and isinstance(t.op, ast.Not):
            c = self._cond(t.operand, st)
            return z3.Not(c) if c is not None else None
        if isinstance(t, ast.BoolOp):
            cs = [self._cond(v, st) for v in t.values]
            cs = [c if c is not None else self.fresh_bool() for c in cs]
            return z3.And(*cs) if isinstance(t.op, ast.And) else z3.Or(*cs)
        if isinstance(t, ast.Compare) and len(t.ops) == 1:
            l = self.eval(t.left, st)
            r = self.eval(t.comparators[0], st)
            op = t.ops[0]
            if l.exact is None and r.exact is not None:
                l, r = r, l
            if l.exact is not None:
                v = self.symvar(l.exact)
                if isinstance(op, (ast.Is, ast.Eq, ast.IsNot, ast.NotEq)):
                    rc = t.comparators[0] if l is not r else None
                    node = t.comparators[0] if self.eval(t.left, st).exact is not None else t.left
                    if isinstance(node, ast.Constant):
                        c = v == self.code(node.value)
                        return z3.Not(c) if isinstance(op, (ast.IsNot, ast.NotEq)) else c
                if isinstance(op, (ast.In, ast.NotIn)):
                    node = t.comparators[0]
                    if isinstance(node, (ast.List, ast.Tuple, ast.Set)) and all(isinstance(x, ast.Constant) for x in node.elts):
                        c = z3.Or(*[v == self.code(x.value) for x in node.elts]) if node.elts else z3.BoolVal(False)
                        return z3.Not(c) if isinstance(op, ast.NotIn) else c
            return None
        if isinstance(t, ast.Call) and isinstance(t.func, ast.Name):
            if t.func.id == "isinstance" and len(t.args) == 2:
                a = self.eval(t.args[0], st)
                if a.exact is not None:
                    v = self.symvar(a.exact)
                    names = [x.id for x in (t.args[1].elts if isinstance(t.args[1], ast.Tuple) else [t.args[1]])
                             if isinstance(x, ast.Name)]
                    alts = []
                    if "dict" in names:
                        alts.append(v == DICT)
                    if "bool" in names:
                        alts += [v == TRUE, v == FALSE]
                    if "str" in names:
                        alts.append(z3.And(v >= 10, z3.BoolVal(True)))
                    if "type" in names and "None" in ast.unparse(t.args[1]):
                        alts.append(v == NONE)
                    if not alts:
                        alts.append(v == OTHER)
                    return z3.Or(*alts)
            if t.func.id == "hasattr" and len(t.args) == 2 and isinstance(t.args[1], ast.Constant) \
                    and isinstance(t.args[0], ast.Name) and t.args[0].id == "self":
                attr = t.args[1].value
                if attr in st["assigned"]:
                    return z3.BoolVal(True)
                if self.method == "fit" and st["depth"] == 0 and isinstance(attr, str) and attr.endswith("_"):
                    self.event("stale_read", attr, t, st)
                return z3.Bool(f"has_{attr}")
        if isinstance(t, (ast.Name, ast.Attribute)):
            a = self.eval(t, st)
            if a.exact is not None:
                v = self.symvar(a.exact)
                return z3.And(v != NONE, v != FALSE)   # truthiness (empty containers are folded into OTHER)
        return None

    # ---- results -----------------------------------------------------------
    def feasible_events(self, timeout_ms=2000):
        """for each distinct event: a satisfying configuration of one of its paths (or None)"""
        out = []
        for key, evs in self.events.items():
            model = None
            for ev in evs[:50]:
                s = z3.Solver()
                s.set("timeout", timeout_ms)
                for v in list(self.cfg.values()) + list(self.argv.values()):
                    s.add(v >= 0)
                for c in ev.pc:
                    s.add(c)
                self.queries += 1
                if s.check() == z3.sat:
                    model = s.model()
                    break
            if model is None:
                continue
            rev = {c: lit for _, (c, lit) in self.codes.items()}
            cfgv = {}
            for p, v in self.cfg.items():
                mv = model.eval(v)
                if z3.is_int_value(mv):
                    cfgv[p] = self.decode(mv.as_long(), rev)
            argsv = {}
            for a, v in self.argv.items():
                mv = model.eval(v)
                if z3.is_int_value(mv):
                    argsv[a] = self.decode(mv.as_long(), rev)
            ev = evs[0]
            out.append(dict(kind=ev.kind, what=ev.what, where=ev.where, line=ev.lineno, config=cfgv, args=argsv,
                            n_paths=len(evs)))
        return out

    def decode(self, code, rev):
        if code == NONE:
            return {"v": None}
        if code == TRUE:
            return {"v": True}
        if code == FALSE:
            return {"v": False}
        if code == DICT:
            return {"dict": True}
        if code in rev:
            return {"v": rev[code]}
        return {"other": True}
