"""CLI driver: ./check <property id> [--tier quick|thorough] [--only harness,...] | --replay file"""
import argparse
import importlib
import os
import sys

HERE = os.path.dirname(os.path.abspath(__file__))
sys.path.insert(0, HERE)
os.environ.setdefault("PYTHONDONTWRITEBYTECODE", "1")


def _split(text):
    """comma separated harness names; commas inside [...] belong to the name"""
    out, cur, depth = [], "", 0
    for ch in text:
        if ch == "[":
            depth += 1
        elif ch == "]":
            depth -= 1
        if ch == "," and depth == 0:
            out.append(cur)
            cur = ""
        else:
            cur += ch
    if cur:
        out.append(cur)
    return out


def main():
    ap = argparse.ArgumentParser()
    ap.add_argument("pid")
    ap.add_argument("--tier", default=os.environ.get("VERIF_TIER", "quick"), choices=["quick", "thorough"])
    ap.add_argument("--replay")
    ap.add_argument("--only")
    a = ap.parse_args()
    from harness import common
    if a.replay:
        sys.exit(common.replay_file(a.replay))
    seed = int(os.environ.get("VERIF_SEED", "0") or 0)
    modname = f"harness.{a.pid}"
    mod = importlib.import_module(modname)
    if hasattr(mod, "main"):
        sys.exit(mod.main(a.tier, seed, _split(a.only) if a.only else None))
    rc = common.run_property(a.pid, modname, a.tier, seed, getattr(mod, "LEVEL_NOTE", ""),
                             mod.ASSUMPTIONS, mod.BOUNDS, only=_split(a.only) if a.only else None)
    sys.exit(rc)


if __name__ == "__main__":
    main()
