"""Contract stubs for the third-party functions the code under test calls
(sklearn validators, scipy rankdata, joblib, pairwise kernels ...). Each stub is
part of the claim and listed in the evidence files."""
from __future__ import annotations

import numpy as _np

from . import arrays, core
from .arrays import SymNd, asnd, raw, elementwise, IMPL
from .core import Unencodable, boolexpr, is_sym

STUB_CONTRACTS = {
    "check_array": "sklearn.utils.check_array: ndarray conversion, dtype='numeric' keeps numeric dtypes and converts "
                   "object to float64, ensure_2d/allow_nd dimension errors, ensure_min_samples/features, "
                   "ensure_all_finite in {True, False, 'allow-nan'} raising ValueError; returns the SAME object when "
                   "no conversion is needed (np.asarray semantics) unless copy=True",
    "column_or_1d": "sklearn.utils.column_or_1d: (n,) or (n,1) -> (n,), ValueError otherwise",
    "check_consistent_length": "ValueError unless all non-None arguments have equal len()",
    "assert_all_finite": "ValueError on NaN/inf (NaN allowed with allow_nan=True)",
    "check_random_state": "sklearn.utils.check_random_state: None -> process-global generator, int -> new seeded "
                          "generator, RandomState -> itself",
    "rankdata": "scipy.stats.rankdata by counting comparisons (methods average/min/max/dense/ordinal), no NaN",
}


def _finite_check(a, allow_nan, name="X"):
    if a._dt.kind != "f":
        return
    ra = raw(a)
    anyinf = False
    anynan = False
    for v in ra.flat:
        anyinf = arrays._logical_or(anyinf, core.s_isinf(v))
        anynan = arrays._logical_or(anynan, core.s_isnan(v))
    if bool(anyinf):
        raise ValueError(f"Input {name} contains infinity or a value too large for dtype('float64').")
    if not allow_nan and bool(anynan):
        raise ValueError(f"Input {name} contains NaN.")


def check_array(array, accept_sparse=False, *, accept_large_sparse=True, dtype="numeric", order=None,
                copy=False, force_writeable=False, force_all_finite=None, ensure_all_finite=None,
                ensure_non_negative=False, ensure_2d=True, allow_nd=False, ensure_min_samples=1,
                ensure_min_features=1, estimator=None, input_name=""):
    if ensure_all_finite is None:
        ensure_all_finite = True if force_all_finite is None else force_all_finite
    if array is None:
        raise ValueError("Expected array-like (array or non-string sequence), got None")
    if isinstance(array, (str, bytes)):
        raise ValueError("Expected array-like (array or non-string sequence), got a string")
    same = isinstance(array, SymNd)
    if isinstance(array, core.Sym) or _np.isscalar(array):
        a = asnd(array)
        same = False
    else:
        a = asnd(array)
    orig = a
    dt = a._dt
    if isinstance(dtype, (list, tuple)):
        if dt in [_np.dtype(d) for d in dtype]:
            dtype = None
        else:
            dtype = dtype[0]
    if isinstance(dtype, str) and dtype == "numeric":
        if dt.kind == "O":
            try:
                a = a.astype(_np.float64)
            except (TypeError, ValueError) as e:
                raise ValueError(str(e))
        elif dt.kind in "USV":
            raise ValueError("dtype='numeric' is not compatible with arrays of bytes/strings."
                             "Convert your data to numeric values explicitly instead.")
    elif dtype is not None:
        want = _np.dtype(dtype)
        if want != dt:
            if want.kind in "iu" and dt.kind == "f":
                # numpy raises on NaN / inf -> int; finite floats truncate
                _finite_check(a, False, input_name or "X")
            try:
                a = a.astype(want)
            except TypeError as e:
                raise ValueError(str(e))
    if ensure_2d:
        if a.ndim == 0:
            raise ValueError("Expected 2D array, got scalar array instead:\narray={}.".format("..."))
        if a.ndim == 1:
            if dt.kind in "USV":
                pass
            raise ValueError("Expected 2D array, got 1D array instead:\narray={}.\nReshape your data either using "
                             "array.reshape(-1, 1) if your data has a single feature or array.reshape(1, -1) if it "
                             "contains a single sample.".format("..."))
    if not allow_nd and a.ndim >= 3:
        raise ValueError("Found array with dim %d. %s expected <= 2." % (a.ndim, "Estimator"))
    if ensure_all_finite:
        _finite_check(a, ensure_all_finite == "allow-nan", input_name or "X")
    if ensure_min_samples > 0 and a.ndim >= 1:
        if a.shape[0] < ensure_min_samples:
            raise ValueError("Found array with %d sample(s) (shape=%s) while a minimum of %d is required."
                             % (a.shape[0], a.shape, ensure_min_samples))
    if ensure_min_features > 0 and a.ndim == 2:
        if a.shape[1] < ensure_min_features:
            raise ValueError("Found array with %d feature(s) (shape=%s) while a minimum of %d is required."
                             % (a.shape[1], a.shape, ensure_min_features))
    if ensure_non_negative:
        if bool(IMPL["any"](a < 0)):
            raise ValueError("Negative values in data passed to X")
    if copy and a is orig and same:
        a = a.copy()
    return a


def column_or_1d(y, *, dtype=None, warn=False, input_name="y", device=None):
    y = asnd(y, dtype)
    if y.ndim == 1:
        return y.reshape(-1)
    if y.ndim == 2 and y.shape[1] == 1:
        return y.reshape(-1)
    raise ValueError("y should be a 1d array, got an array of shape {} instead.".format(y.shape))


def _num_samples(x):
    if hasattr(x, "shape") and x.shape is not None:
        if len(x.shape) == 0:
            raise TypeError("Input should have at least 1 dimension i.e. satisfy `len(x.shape) > 0`, got scalar "
                            "`%r` instead." % (x,))
        return x.shape[0]
    if hasattr(x, "fit") and callable(x.fit):
        raise TypeError("Expected sequence or array-like, got estimator")
    if not hasattr(x, "__len__"):
        raise TypeError("Expected sequence or array-like, got %s" % type(x))
    return len(x)


def check_consistent_length(*arrs):
    lengths = [_num_samples(x) for x in arrs if x is not None]
    if len(set(lengths)) > 1:
        raise ValueError("Found input variables with inconsistent numbers of samples: %r"
                         % [int(l) for l in lengths])


def assert_all_finite(X, *, allow_nan=False, estimator_name=None, input_name=""):
    _finite_check(asnd(X), allow_nan, input_name or "X")


def rankdata(a, method="average", *, axis=None, nan_policy="propagate"):
    a = asnd(a)
    if axis is not None:
        ra = raw(a)
        mv = _np.moveaxis(ra, axis, -1)
        out = _np.empty(ra.shape, dtype=object)
        mo = _np.moveaxis(out, axis, -1)
        for idx in _np.ndindex(mv.shape[:-1]):
            r = _rank1(list(mv[idx]), method)
            for j, v in enumerate(r):
                mo[idx + (j,)] = v
        return arrays._wrap(out, arrays.FLOAT if method == "average" else arrays.INT)
    shape = a.shape
    r = _rank1(list(raw(a).reshape(-1)), method)
    dt = arrays.FLOAT if method == "average" else arrays.INT
    return SymNd(arrays._to_obj(r) if r else _np.empty(0, dtype=object), dt)


def _rank1(vals, method):
    n = len(vals)
    for v in vals:
        if core.is_floatish(v):
            if bool(core.s_isnan(v)):
                raise Unencodable("rankdata with NaN")
    res = []
    for i in range(n):
        lt = 0
        le = 0
        eqb = 0
        dense = 0
        for j in range(n):
            lt = core.s_add(lt, core.s_lt(vals[j], vals[i]))
            le = core.s_add(le, core.s_le(vals[j], vals[i]))
            if j < i:
                eqb = core.s_add(eqb, core.s_eq(vals[j], vals[i]))
            if method == "dense":
                first = True
                for k in range(j):
                    first = arrays._logical_and(first, core.s_ne(vals[k], vals[j]))
                dense = core.s_add(dense, arrays._logical_and(first, core.s_lt(vals[j], vals[i])))
        if method == "min":
            res.append(core.s_add(lt, 1))
        elif method == "max":
            res.append(le)
        elif method == "average":
            res.append(core.s_div(core.s_add(core.s_add(lt, 1), le), _np.float64(2.0)))
        elif method == "ordinal":
            res.append(core.s_add(core.s_add(lt, eqb), 1))
        elif method == "dense":
            res.append(core.s_add(dense, 1))
        else:
            raise ValueError(f'unknown method "{method}"')
    return res


def _check_n_features(*a, **k):
    return None


from .facade import check_random_state_stub  # noqa: E402

GLOBAL_STUBS = {
    "check_array": check_array,
    "column_or_1d": column_or_1d,
    "check_consistent_length": check_consistent_length,
    "assert_all_finite": assert_all_finite,
    "check_random_state_sklearn": check_random_state_stub,
    "check_random_state": check_random_state_stub,
    "rankdata": rankdata,
}
FORCE = set()


# --------------------------------------------------------------------------
class LabelEncoderStub:
    """sklearn.preprocessing.LabelEncoder by its documented contract: classes_ = sorted unique
    labels; transform = position in classes_ (ValueError for unseen labels); inverse_transform =
    classes_[index] (ValueError for out-of-range indices)."""

    def fit(self, y):
        y = column_or_1d(y)
        self.classes_ = IMPL["unique"](y) if len(y) else arrays.SymNd(_np.empty(0, dtype=object), y._dt)
        return self

    def fit_transform(self, y):
        return self.fit(y).transform(y)

    def transform(self, y):
        y = column_or_1d(y)
        if len(y) == 0:
            return arrays.SymNd(_np.empty(0, dtype=object), arrays.INT)
        cls = list(raw(self.classes_))
        out = []
        for v in raw(y):
            hit = None
            for k, cv in enumerate(cls):
                same = core.s_eq(v, cv)
                if core.is_floatish(v) and core.is_floatish(cv):  # sklearn maps NaN to the NaN class
                    same = core.mkbool(core.b_or(boolexpr(same), core.b_and(boolexpr(core.s_isnan(v)),
                                                                             boolexpr(core.s_isnan(cv)))))
                if bool(same):
                    hit = k
                    break
            if hit is None:
                raise ValueError("y contains previously unseen labels: %r" % (v,))
            out.append(hit)
        return arrays.SymNd(arrays._to_obj(out), arrays.INT)

    def inverse_transform(self, y):
        y = column_or_1d(y)
        if len(y) == 0:
            return arrays.SymNd(_np.empty(0, dtype=object), self.classes_._dt)
        idx = arrays.cidx(y)
        if _np.any((idx < 0) | (idx >= len(self.classes_))):
            raise ValueError("y contains previously unseen labels: %s" % str(idx))
        return self.classes_[idx]


def confusion_matrix(y_true, y_pred, *, labels=None, sample_weight=None, normalize=None):
    """sklearn.metrics.confusion_matrix by contract: C[i, j] = #samples with true label labels[i] and
    predicted label labels[j] (entries outside `labels` ignored)."""
    yt = list(raw(column_or_1d(y_true)))
    yp = list(raw(column_or_1d(y_pred)))
    if len(yt) != len(yp):
        raise ValueError("Found input variables with inconsistent numbers of samples")
    labs = list(raw(asnd(labels)))
    K = len(labs)
    out = _np.empty((K, K), dtype=object)
    for i in range(K):
        for j in range(K):
            acc = 0
            for a, b in zip(yt, yp):
                acc = core.s_add(acc, arrays._logical_and(core.s_eq(a, labs[i]), core.s_eq(b, labs[j])))
            out[i, j] = acc
    return arrays.SymNd(out, arrays.INT)


GLOBAL_STUBS.update({"LabelEncoder": LabelEncoderStub, "confusion_matrix": confusion_matrix})
STUB_CONTRACTS.update({
    "LabelEncoder": LabelEncoderStub.__doc__,
    "confusion_matrix": confusion_matrix.__doc__,
})


# --------------------------------------------------------------------------
# distances (exact for 1 feature: |x - y|; the harnesses use one feature)
def _dist_matrix(X, Y):
    X = asnd(X)
    Y = X if Y is None else asnd(Y)
    if X.ndim != 2 or Y.ndim != 2:
        raise ValueError("Expected 2D array")
    if X.shape[1] != Y.shape[1]:
        raise ValueError("Incompatible dimension for X and Y matrices")
    rx, ry = raw(X), raw(Y)
    out = _np.empty((X.shape[0], Y.shape[0]), dtype=object)
    for i in range(X.shape[0]):
        for j in range(Y.shape[0]):
            if X.shape[1] == 1:
                out[i, j] = core.tofloat(core.s_abs(core.s_sub(core.tofloat(rx[i, 0]), core.tofloat(ry[j, 0]))))
            else:
                acc = _np.float64(0.0)
                for k in range(X.shape[1]):
                    d = core.s_sub(core.tofloat(rx[i, k]), core.tofloat(ry[j, k]))
                    acc = core.s_add(acc, core.s_mul(d, d))
                out[i, j] = core.s_sqrt(acc)
    return arrays._wrap(out, arrays.FLOAT)


def pairwise_distances(X, Y=None, metric="euclidean", **kw):
    if metric not in ("euclidean", "l2", "manhattan", "l1", "cityblock"):
        raise Unencodable(f"pairwise_distances metric {metric}")
    return _dist_matrix(X, Y)


class _Unused:
    def __getattr__(self, k):
        raise Unencodable("argmin part of pairwise_distances_argmin_min is not modelled")
    __getitem__ = __iter__ = __len__ = __getattr__


def pairwise_distances_argmin_min(X, Y, **kw):
    D = _dist_matrix(X, Y)
    return _Unused(), IMPL["min"](D, axis=1)


GLOBAL_STUBS.update({"pairwise_distances": pairwise_distances,
                     "pairwise_distances_argmin_min": pairwise_distances_argmin_min})
STUB_CONTRACTS.update({"pairwise_distances": "euclidean / manhattan distance matrix, exact |x-y| for one feature",
                       "pairwise_distances_argmin_min": "row minima of the distance matrix (argmin part unused by the callers)"})

# repo-internal numerical kernels replaced by their contract (module, attribute) -> stub
MODULE_STUBS = {}


# --------------------------------------------------------------------------
# joblib by contract: sequential, order preserving
CPU_COUNT = [2]


class Parallel:
    def __init__(self, n_jobs=None, **kw):
        if n_jobs == 0:
            raise ValueError("n_jobs == 0 in Parallel has no meaning")
        self.n_jobs = n_jobs

    def __call__(self, iterable):
        return [f(*a, **k) for f, a, k in iterable]


def delayed(f):
    def g(*a, **k):
        return (f, a, k)
    return g


def cpu_count(*a, **k):
    return CPU_COUNT[0]


GLOBAL_STUBS.update({"Parallel": Parallel, "delayed": delayed, "cpu_count": cpu_count})
STUB_CONTRACTS.update({"joblib": "Parallel(...)(delayed(f)(x) for x in xs) == [f(x) for x in xs]; cpu_count() = a small constant"})


def check_classification_targets(y):
    """sklearn.utils.multiclass.check_classification_targets by contract: integer / string / boolean targets are
    classification targets; float targets must be integral"""
    y = asnd(y)
    if y._dt.kind == "f":
        for v in raw(y).reshape(-1):
            if is_sym(v):
                raise Unencodable("check_classification_targets on symbolic floats")
            if _np.isfinite(v) and float(v) != int(v):
                raise ValueError("Unknown label type: continuous. Maybe you are trying to fit a classifier, which expects "
                                 "discrete classes on a regression target with continuous values.")


GLOBAL_STUBS["check_classification_targets"] = check_classification_targets
STUB_CONTRACTS["check_classification_targets"] = check_classification_targets.__doc__


# --------------------------------------------------------------------------
import z3 as _z3

_KERN = {}


def pairwise_kernels(X, Y=None, metric="linear", **kw):
    """sklearn.metrics.pairwise_kernels by contract: 'precomputed' returns X; any other kernel is an uninterpreted
    symmetric function k(x, y) in [0, 1] with k(x, x) = 1 (rbf-like; 0 = underflow for distant points) of the two feature rows"""
    X = asnd(X)
    if metric == "precomputed":
        return X
    Y = X if Y is None else asnd(Y)
    if X.ndim != 2 or Y.ndim != 2 or (X.shape[1] != Y.shape[1] and len(Y) and len(X)):
        raise ValueError("Incompatible dimension for X and Y matrices")
    d = X.shape[1]
    # the kernel value also depends on the bandwidth handed in (gamma): part of the function's arguments
    g = kw.get("gamma", None)
    gterm = core.lift(g).r if g is not None and core.is_numeric(g) else _z3.RealVal(-1)
    f = _KERN.setdefault(d, _z3.Function(f"kern{d}", _z3.RealSort(), *([_z3.RealSort()] * (2 * d)), _z3.RealSort()))
    c = core.ctx()
    rx, ry = raw(X), raw(Y)
    out = _np.empty((X.shape[0], Y.shape[0]), dtype=object)
    for i in range(X.shape[0]):
        for j in range(Y.shape[0]):
            a = [core.lift(v).r for v in rx[i]]
            b = [core.lift(v).r for v in ry[j]]
            t = f(gterm, *a, *b)
            key = ("kern", t.get_id())
            if key not in c.uf_axioms_done:
                c.uf_axioms_done.add(key)
                same = _z3.And(*[p == q for p, q in zip(a, b)]) if a else _z3.BoolVal(True)
                # (>= 0, not > 0: an rbf kernel underflows to exactly 0.0 for distant points)
                lo = t > 0 if getattr(c, "kernel_strictly_positive", False) else t >= 0
                c.add(_z3.And(lo, t <= 1, t == f(gterm, *b, *a), _z3.Implies(same, t == 1)))
                # recorded for replays that want the solver's kernel values (a callable metric looking them up)
                if not hasattr(c, "inputs"):
                    c.inputs = {}
                c.inputs.setdefault("__kern__", []).append([list(rx[i]), list(ry[j]), core.SymFloat(t)])
            out[i, j] = core.SymFloat(t)
    return arrays._wrap(out, arrays.FLOAT)


class Frozen:
    """scipy.stats frozen distribution by contract (location-scale family): records its parameters; mean() = loc,
    std() = scale * c(df), entropy() = log(scale) + h(df); rvs = loc + scale * standard draws of the given generator.
    scipy requires scale > 0: where it is not (0, negative, NaN) every statistic is NaN"""

    def __init__(self, kind, loc, scale, df=None):
        self.kind, self.loc, self.scale, self.df = kind, asnd(loc).astype(float), asnd(scale).astype(float), df
        self.calls = []

    def _valid_or_nan(self, values):
        values = asnd(values).astype(float)
        shp = _np.broadcast_shapes(values.shape, self.scale.shape)
        rv = _np.broadcast_to(raw(values), shp)
        rs = _np.broadcast_to(raw(self.scale), shp)
        out = _np.empty(shp, dtype=object)
        for idx in _np.ndindex(shp):
            ok = core.boolexpr(core.s_lt(0, rs[idx]))
            out[idx] = arrays.f_ite(ok, rv[idx], _np.float64("nan")) if not core._isc(ok) else (rv[idx] if ok else _np.float64("nan"))
        return arrays._wrap(out, arrays.FLOAT)

    def _by_df(self, values, finite_above, below):
        """Student t: the statistic is `values` where df > finite_above, and `below` (inf / nan) otherwise"""
        if self.kind != "t" or self.df is None:
            return values
        values = asnd(values).astype(float)
        dfa = asnd(self.df).astype(float)
        shp = _np.broadcast_shapes(values.shape, dfa.shape)
        rv = _np.broadcast_to(raw(values), shp)
        rd = _np.broadcast_to(raw(dfa), shp)
        out = _np.empty(shp, dtype=object)
        for idx in _np.ndindex(shp):
            ok = core.boolexpr(core.s_lt(finite_above, rd[idx]))
            out[idx] = arrays.f_ite(ok, rv[idx], _np.float64(below)) if not core._isc(ok) else (rv[idx] if ok else _np.float64(below))
        return arrays._wrap(out, arrays.FLOAT)

    def mean(self):
        self.calls.append("mean")
        # scipy: the mean of a t distribution is its location for df > 1 and inf otherwise
        self._mean = self._valid_or_nan(self._by_df(self.loc, 1, "inf"))
        return self._mean

    def std(self):
        self.calls.append("std")
        # scipy: finite for df > 2 (the df dependent factor is outside the model), inf for 1 < df <= 2, nan for df <= 1
        self._std = self._valid_or_nan(self._by_df(self._by_df(self.scale, 2, "inf"), 1, "nan"))
        return self._std

    def entropy(self):
        self.calls.append("entropy")
        self._entropy = self._valid_or_nan(elementwise("log", (self.scale,)))
        return self._entropy

    def rvs(self, size=None, random_state=None):
        from .facade import check_random_state_stub
        rs = check_random_state_stub(random_state)
        z = rs.standard_normal(size)
        return self.loc + self.scale * z


class _TGen:
    def __call__(self, df=None, loc=0, scale=1):
        return Frozen("t", loc, scale, df=df)

    def isf(self, q, df):
        import scipy.stats
        return scipy.stats.t.isf(arrays.to_real(asnd(q)) if not _np.isscalar(q) else q, df)


class _NormGen:
    def __call__(self, loc=0, scale=1):
        return Frozen("norm", loc, scale)


GLOBAL_STUBS.update({"pairwise_kernels": pairwise_kernels, "t": _TGen(), "norm": _NormGen()})

STUB_CONTRACTS.update({"pairwise_kernels": pairwise_kernels.__doc__, "scipy.stats.t/norm": Frozen.__doc__})
