"""SymNd: ndarray subclass with object storage + a declared dtype, and the
table of symbolic implementations of numpy functions (IMPL)."""
from __future__ import annotations

import collections
import operator

import numpy as np
import z3

from . import core
from .core import (
    Sym, SymBool, SymFloat, SymInt, Unencodable, b_and, b_not, b_or, boolexpr,
    f_ite, is_boolish, is_floatish, is_intish, is_numeric, is_sym, mkbool,
    s_ite, tofloat,
)

_nd = np.ndarray
BOOL = np.dtype(bool)
INT = np.dtype(np.int64)
FLOAT = np.dtype(np.float64)
OBJ = np.dtype(object)


# --------------------------------------------------------------------------
def raw(x):
    """plain object ndarray view of a SymNd."""
    return _nd.view(x, _nd)


def has_sym(a):
    """does the object array contain symbolic scalars?"""
    for v in a.flat:
        if isinstance(v, Sym) and is_sym(v):
            return True
    return False


class OpaqueStr:
    """the string rendering of a symbolic number; only its existence / dtype is modelled"""

    def _no(self, *a, **k):
        raise Unencodable("string rendering of a symbolic number was inspected")

    __eq__ = __ne__ = __lt__ = __le__ = __gt__ = __ge__ = __hash__ = __str__ = __len__ = _no

    def __repr__(self):
        return "<str(sym)>"


def coerce(v, dt):
    """store value v into an array of declared dtype dt."""
    k = dt.kind
    if k == "f":
        if is_numeric(v):
            return tofloat(v)
        if v is None:
            raise TypeError("float() argument must be a string or a real number, not 'NoneType'")
        if isinstance(v, str):
            return np.float64(float(v))
        raise TypeError(f"cannot store {type(v).__name__} in a float array")
    if k in "iu":
        if is_boolish(v):
            return core.mkint(core.intexpr(v)) if is_sym(v) else int(v)
        if is_intish(v):
            return v if is_sym(v) else int(v)
        if is_floatish(v):
            if is_sym(v):
                raise Unencodable("float -> int conversion of a symbolic value")
            if np.isnan(v) or np.isinf(v):
                raise ValueError("cannot convert float NaN to integer")
            return int(v)
        if v is None:
            raise TypeError("int() argument must be a string, a bytes-like object or a real number, not 'NoneType'")
        return int(v)
    if k == "b":
        if is_boolish(v):
            return v if is_sym(v) else bool(v)
        if is_numeric(v):
            r = core.s_ne(v, 0)
            if core._t(v) is SymFloat:
                r = mkbool(b_or(boolexpr(r), v.nan))
            elif not is_sym(v) and is_floatish(v) and np.isnan(v):
                r = True
            return r
        return bool(v)
    if k in "US":
        if is_sym(v):
            return OpaqueStr()  # str(<symbolic number>): any later use of the value is unmodelled
        return str(np.array(v, dtype=dt))
    return v  # object


def _dummy_scalar(v):
    t = type(v)
    if t is SymFloat:
        return 0.0
    if t is SymInt:
        return 0
    if t is SymBool:
        return False
    return v


def dummy(x):
    """concrete stand-in with the same shape / dtype (for dtype inference)."""
    if isinstance(x, SymNd):
        return np.zeros(x.shape, dtype=x._dt)
    if isinstance(x, Sym):
        return _dummy_scalar(x)
    if isinstance(x, (list, tuple)):
        return type(x)(dummy(v) for v in x)
    return x


def infer_dtype(obj_arr):
    """declared dtype of an object array from its elements (np.array rules)."""
    flat = [_dummy_scalar(v) for v in obj_arr.flat]
    if not flat:
        return FLOAT
    try:
        dt = np.array(flat).dtype
    except Exception:
        return OBJ
    if dt.kind == "i":
        dt = INT
    return dt


class SymNd(_nd):
    __array_priority__ = 100

    def __new__(cls, data, dt=None, copy=True):
        if isinstance(data, SymNd):
            arr = raw(data)
            if dt is None:
                dt = data._dt
        elif isinstance(data, _nd):
            if dt is None:
                dt = data.dtype
            if data.dtype != object:
                arr = np.empty(data.shape, dtype=object)
                if data.size:
                    arr[...] = data.astype(object)
            else:
                arr = data
        else:
            arr = _to_obj(data)
            if dt is None:
                dt = infer_dtype(arr)
        if copy or arr.dtype != object:
            arr = np.array(arr, dtype=object, copy=True)
        dt = np.dtype(dt)
        if dt.kind == "i" or dt.kind == "u":
            pass
        obj = arr.view(cls)
        obj._dt = dt
        # normalise element representation
        f = raw(obj)
        for idx in np.ndindex(f.shape):
            f[idx] = coerce(f[idx], dt)
        return obj

    def __array_finalize__(self, obj):
        if obj is None:
            return
        self._dt = getattr(obj, "_dt", OBJ)

    @property
    def dtype(self):
        return self._dt

    # -- indexing ---------------------------------------------------------
    def __getitem__(self, idx):
        idx = cidx(idx)
        return _nd.__getitem__(self, idx)

    def __setitem__(self, idx, val):
        idx = cidx(idx)
        dt = self._dt
        if isinstance(val, _nd):
            src = raw(val) if isinstance(val, SymNd) else val
            v = np.empty(src.shape, dtype=object)
            for i in np.ndindex(src.shape):
                v[i] = coerce(src[i], dt)
            if isinstance(val, SymNd) or True:
                # numpy dtype errors (e.g. str into float array) come from coerce
                pass
        elif isinstance(val, (list, tuple)):
            src = _to_obj(val)
            v = np.empty(src.shape, dtype=object)
            for i in np.ndindex(src.shape):
                v[i] = coerce(src[i], dt)
        else:
            v = coerce(val, dt)
        _nd.__setitem__(self, idx, v)

    def __iter__(self):
        if self.ndim == 0:
            raise TypeError("iteration over a 0-d array")
        for i in range(self.shape[0]):
            yield self[i]

    def __bool__(self):
        if self.size != 1:
            raise ValueError(
                "The truth value of an array with more than one element is ambiguous. Use a.any() or a.all()"
            )
        return bool(raw(self).flat[0])

    def __index__(self):
        if self.size != 1 or self._dt.kind not in "iu":
            raise TypeError("only integer scalar arrays can be converted to a scalar index")
        return operator.index(raw(self).flat[0])

    def __int__(self):
        if self.size != 1:
            raise TypeError("only length-1 arrays can be converted to Python scalars")
        return int(raw(self).flat[0])

    def __float__(self):
        if self.size != 1:
            raise TypeError("only length-1 arrays can be converted to Python scalars")
        return float(raw(self).flat[0])

    def __repr__(self):
        return f"SymNd({raw(self).tolist()!r}, dtype={self._dt})"

    __str__ = __repr__

    def __contains__(self, v):
        return bool(IMPL["any"](self == v))

    def __deepcopy__(self, memo):
        return SymNd(self, self._dt, copy=True)

    def __reduce__(self):
        raise Unencodable("pickling of a symbolic array")


    # -- operators (direct dispatch; numpy would refuse Sym scalars) -----------

    def __add__(self, o):
        return elementwise("add", (self, o))

    def __radd__(self, o):
        return elementwise("add", (o, self))

    def __iadd__(self, o):
        self[...] = elementwise("add", (self, o))
        return self

    def __sub__(self, o):
        return elementwise("subtract", (self, o))

    def __rsub__(self, o):
        return elementwise("subtract", (o, self))

    def __isub__(self, o):
        self[...] = elementwise("subtract", (self, o))
        return self

    def __mul__(self, o):
        return elementwise("multiply", (self, o))

    def __rmul__(self, o):
        return elementwise("multiply", (o, self))

    def __imul__(self, o):
        self[...] = elementwise("multiply", (self, o))
        return self

    def __truediv__(self, o):
        return elementwise("true_divide", (self, o))

    def __rtruediv__(self, o):
        return elementwise("true_divide", (o, self))

    def __itruediv__(self, o):
        self[...] = elementwise("true_divide", (self, o))
        return self

    def __floordiv__(self, o):
        return elementwise("floor_divide", (self, o))

    def __rfloordiv__(self, o):
        return elementwise("floor_divide", (o, self))

    def __ifloordiv__(self, o):
        self[...] = elementwise("floor_divide", (self, o))
        return self

    def __mod__(self, o):
        return elementwise("remainder", (self, o))

    def __rmod__(self, o):
        return elementwise("remainder", (o, self))

    def __imod__(self, o):
        self[...] = elementwise("remainder", (self, o))
        return self

    def __pow__(self, o):
        return elementwise("power", (self, o))

    def __rpow__(self, o):
        return elementwise("power", (o, self))

    def __ipow__(self, o):
        self[...] = elementwise("power", (self, o))
        return self

    def __and__(self, o):
        return elementwise("bitwise_and", (self, o))

    def __rand__(self, o):
        return elementwise("bitwise_and", (o, self))

    def __iand__(self, o):
        self[...] = elementwise("bitwise_and", (self, o))
        return self

    def __or__(self, o):
        return elementwise("bitwise_or", (self, o))

    def __ror__(self, o):
        return elementwise("bitwise_or", (o, self))

    def __ior__(self, o):
        self[...] = elementwise("bitwise_or", (self, o))
        return self

    def __xor__(self, o):
        return elementwise("bitwise_xor", (self, o))

    def __rxor__(self, o):
        return elementwise("bitwise_xor", (o, self))

    def __ixor__(self, o):
        self[...] = elementwise("bitwise_xor", (self, o))
        return self

    def __lt__(self, o):
        return elementwise("less", (self, o))

    def __le__(self, o):
        return elementwise("less_equal", (self, o))

    def __gt__(self, o):
        return elementwise("greater", (self, o))

    def __ge__(self, o):
        return elementwise("greater_equal", (self, o))

    def __eq__(self, o):
        return elementwise("equal", (self, o))

    def __ne__(self, o):
        return elementwise("not_equal", (self, o))

    def __neg__(self):
        return elementwise("negative", (self,))

    def __pos__(self):
        return self.copy()

    def __abs__(self):
        return elementwise("absolute", (self,))

    def __invert__(self):
        return elementwise("invert", (self,))

    __hash__ = None

    # -- ufuncs -------------------------------------------------------------
    def __array_ufunc__(self, ufunc, method, *inputs, out=None, **kw):
        name = ufunc.__name__
        if method == "__call__":
            kw.pop("casting", None)
            dtype = kw.pop("dtype", None)
            where = kw.pop("where", True)
            if kw or where is not True:
                raise Unencodable(f"ufunc {name} with {sorted(kw)}")
            res = elementwise(name, inputs)
            if dtype is not None and isinstance(res, SymNd):
                res = res.astype(dtype)
            if out is not None:
                o = out[0]
                o[...] = res
                return o
            return res
        if method == "reduce":
            fn = {"add": "sum", "maximum": "max", "minimum": "min", "logical_or": "any",
                  "logical_and": "all", "multiply": "prod"}.get(name)
            if fn is None:
                raise Unencodable(f"ufunc {name}.reduce")
            kw.pop("dtype", None)
            kw = {k: v for k, v in kw.items() if not (k == "where" and v is True) and v is not np._NoValue}
            return IMPL[fn](inputs[0], **kw)
        if method == "outer" and name in _SCALAR:
            a, b = inputs
            a = asnd(a)
            b = asnd(b)
            return elementwise(name, (a.reshape(a.shape + (1,) * b.ndim), b))
        raise Unencodable(f"ufunc {name}.{method}")

    def __array_function__(self, func, types, args, kwargs):
        name = func.__name__
        f = IMPL.get(name)
        if f is None:
            return fallback(func, name, args, kwargs)
        return f(*args, **kwargs)

    # -- methods routed to IMPL ---------------------------------------------
    def astype(self, dtype, copy=True, **kw):
        dtype = np.dtype(dtype)
        # numpy's own conversion errors
        return SymNd(self, dtype, copy=True)

    def copy(self, order="C"):
        return SymNd(self, self._dt, copy=True)

    def fill(self, v):
        self[...] = v

    def sum(self, axis=None, dtype=None, out=None, keepdims=False, **kw):
        r = IMPL["sum"](self, axis=axis, keepdims=keepdims)
        if dtype is not None:
            r = _cast_result(r, np.dtype(dtype))
        return r

    def prod(self, axis=None, **kw):
        return IMPL["prod"](self, axis=axis, **kw)

    def max(self, axis=None, out=None, keepdims=False, **kw):
        return IMPL["max"](self, axis=axis, keepdims=keepdims)

    def min(self, axis=None, out=None, keepdims=False, **kw):
        return IMPL["min"](self, axis=axis, keepdims=keepdims)

    def any(self, axis=None, out=None, keepdims=False, **kw):
        return IMPL["any"](self, axis=axis, keepdims=keepdims)

    def all(self, axis=None, out=None, keepdims=False, **kw):
        return IMPL["all"](self, axis=axis, keepdims=keepdims)

    def mean(self, axis=None, **kw):
        return IMPL["mean"](self, axis=axis, **kw)

    def var(self, axis=None, **kw):
        return IMPL["var"](self, axis=axis, **kw)

    def std(self, axis=None, **kw):
        return IMPL["std"](self, axis=axis, **kw)

    def argmax(self, axis=None, out=None, **kw):
        return IMPL["argmax"](self, axis=axis, **kw)

    def argmin(self, axis=None, out=None, **kw):
        return IMPL["argmin"](self, axis=axis, **kw)

    def argsort(self, axis=-1, kind=None, **kw):
        return IMPL["argsort"](self, axis=axis, kind=kind)

    def sort(self, axis=-1, kind=None, **kw):
        self[...] = IMPL["sort"](self, axis=axis)

    def cumsum(self, axis=None, **kw):
        return IMPL["cumsum"](self, axis=axis)

    def nonzero(self):
        return IMPL["nonzero"](self)

    def dot(self, b):
        return IMPL["dot"](self, b)

    def round(self, decimals=0, out=None):
        return fallback(np.round, "round", (self, decimals), {})

    def tolist(self):
        return raw(self).tolist()

    def item(self, *a):
        return raw(self).item(*a)

    def __matmul__(self, o):
        return IMPL["matmul"](self, o)

    def __rmatmul__(self, o):
        return IMPL["matmul"](o, self)

    def clip(self, min=None, max=None, **kw):
        return IMPL["clip"](self, min, max)

    def repeat(self, repeats, axis=None):
        return IMPL["repeat"](self, repeats, axis=axis)

    def take(self, indices, axis=None, **kw):
        return IMPL["take"](self, indices, axis=axis)


def _cast_result(r, dt):
    if isinstance(r, SymNd):
        return r.astype(dt)
    return coerce(r, dt)


def _to_obj(data):
    """nested lists / scalars (possibly holding Sym / SymNd) -> object ndarray"""
    if isinstance(data, _nd):
        return raw(data) if isinstance(data, SymNd) else (data if data.dtype == object else data.astype(object))
    if isinstance(data, (list, tuple)):
        if len(data) == 0:
            return np.empty((0,), dtype=object)
        subs = [_to_obj(d) for d in data]
        shp = subs[0].shape
        if any(s.shape != shp for s in subs):
            raise ValueError("setting an array element with a sequence. The requested array has an inhomogeneous shape")
        out = np.empty((len(subs),) + shp, dtype=object)
        for i, s in enumerate(subs):
            out[i] = s if shp else s[()]
        return out
    if isinstance(data, (range, collections.deque)):
        return _to_obj(list(data))
    out = np.empty((), dtype=object)
    out[()] = data
    return out


def asnd(x, dt=None):
    """anything array-like -> SymNd (no copy when already a SymNd of that dtype)."""
    if isinstance(x, SymNd):
        if dt is None or np.dtype(dt) == x._dt:
            return x
        return x.astype(dt)
    if isinstance(x, _nd):
        return SymNd(x, dt if dt is not None else x.dtype)
    arr = _to_obj(x)
    if dt is None:
        if not has_sym(arr) and not _has_symnd(x):
            try:
                dt = np.asarray(x).dtype
            except Exception:
                dt = infer_dtype(arr)
            if dt.kind in "iu" and dt != BOOL:
                dt = INT if dt.kind == "i" else dt
        else:
            dt = _infer_nested(x, arr)
    return SymNd(arr, dt, copy=True)


def _has_symnd(x):
    if isinstance(x, SymNd):
        return True
    if isinstance(x, (list, tuple)):
        return any(_has_symnd(v) for v in x)
    return False


def _infer_nested(x, arr):
    try:
        return np.asarray(dummy(x) if not isinstance(x, Sym) else _dummy_scalar(x)).dtype
    except Exception:
        return infer_dtype(arr)


def to_real(x):
    """SymNd with concrete content -> real ndarray of the declared dtype."""
    if isinstance(x, SymNd):
        a = raw(x)
        if has_sym(a):
            raise Unencodable("symbolic content where a concrete array is required")
        if x._dt == OBJ:
            out = np.empty(a.shape, dtype=object)
            out[...] = a
            return out
        return np.array(a.tolist(), dtype=x._dt).reshape(a.shape)
    return x


def cidx(idx):
    """make an index concrete (forking on symbolic ints / bools)."""
    if isinstance(idx, tuple):
        return tuple(_cidx1(i) for i in idx)
    return _cidx1(idx)


def _cidx1(i):
    if isinstance(i, SymNd):
        a = raw(i)
        k = i._dt.kind
        if k == "b":
            out = np.empty(a.shape, dtype=bool)
            for j in np.ndindex(a.shape):
                out[j] = bool(a[j])
            return out
        if k in "iu":
            out = np.empty(a.shape, dtype=np.intp)
            for j in np.ndindex(a.shape):
                out[j] = operator.index(a[j])
            return out
        if a.size == 0:
            return np.empty(a.shape, dtype=np.intp)
        raise IndexError("arrays used as indices must be of integer (or boolean) type")
    t = type(i)
    if t is SymInt:
        return operator.index(i)
    if t is SymBool:
        return bool(i)
    if isinstance(i, list):
        if any(isinstance(v, (Sym, SymNd, list)) for v in i):
            return _cidx1(asnd(i))
        return i
    return i


# --------------------------------------------------------------------------
# elementwise ufuncs
# --------------------------------------------------------------------------
def _logical_and(a, b):
    return mkbool(b_and(boolexpr(coerce(a, BOOL)), boolexpr(coerce(b, BOOL))))


def _logical_or(a, b):
    return mkbool(b_or(boolexpr(coerce(a, BOOL)), boolexpr(coerce(b, BOOL))))


def _logical_not(a):
    return mkbool(b_not(boolexpr(coerce(a, BOOL))))


def _logical_xor(a, b):
    return mkbool(b_not(core.b_eq(boolexpr(coerce(a, BOOL)), boolexpr(coerce(b, BOOL)))))


def _bitwise(opname, lop):
    def f(a, b):
        if is_boolish(a) and is_boolish(b):
            return lop(a, b)
        if not is_sym(a) and not is_sym(b):
            return getattr(operator, opname)(a, b)
        raise Unencodable(f"bitwise {opname} on symbolic integers")
    return f


def _invert(a):
    if is_boolish(a):
        return _logical_not(a)
    if not is_sym(a) and is_intish(a):
        return ~a
    if is_floatish(a):
        raise TypeError(
            "ufunc 'invert' not supported for the input types, and the inputs could not be safely coerced"
        )
    raise Unencodable("invert on symbolic integer")


def _eq(a, b):
    r = core.s_eq(a, b)
    return r


def _ne(a, b):
    return core.s_ne(a, b)


def _cmp(f):
    def g(a, b):
        r = f(a, b)
        if r is NotImplemented:
            if not is_sym(a) and not is_sym(b):
                return bool(getattr(operator, f.__name__[2:])(a, b))
            raise TypeError(f"'<' not supported between {type(a).__name__} and {type(b).__name__}")
        return r
    return g


def _sign(a):
    if not is_sym(a):
        return _wrapc(np.sign, a)
    a = core.lift(a)
    r = f_ite(a.neg(), np.float64(-1.0), f_ite(b_or(a.pinf, b_and(a.fin(), a.r > 0)), np.float64(1.0), np.float64(0.0)))
    return f_ite(a.nan, np.float64("nan"), r)


def _wrapc(f, *a):
    with np.errstate(all="ignore"):
        return core._py(f(*[core._np(x) for x in a]))


def _square(a):
    return core.s_mul(a, a)


def _log2(a):
    if not is_sym(a):
        return _wrapc(np.log2, a)
    return core.s_div(core.s_log(a), np.float64(np.log(2.0)))


def _floor(a):
    if not is_sym(a):
        return _wrapc(np.floor, a)
    raise Unencodable("floor of symbolic value")


def _ceil(a):
    if not is_sym(a):
        return _wrapc(np.ceil, a)
    raise Unencodable("ceil of symbolic value")


def _generic_concrete(npf):
    def f(*a):
        if any(is_sym(x) for x in a):
            raise Unencodable(f"{npf.__name__} of symbolic value")
        return _wrapc(npf, *a)
    return f


def _num(f):
    def g(*a):
        r = f(*a)
        if r is NotImplemented:
            if not any(is_sym(x) for x in a):
                # e.g. string concatenation etc: let numpy semantics decide
                raise TypeError(f"ufunc not supported for the input types ({', '.join(type(x).__name__ for x in a)})")
            raise TypeError("unsupported operand types for symbolic arithmetic")
        return r
    return g


_SCALAR = {
    "add": _num(core.s_add), "subtract": _num(core.s_sub), "multiply": _num(core.s_mul),
    "divide": _num(core.s_div), "true_divide": _num(core.s_div), "negative": core.s_neg,
    "positive": lambda a: a, "absolute": core.s_abs, "fabs": core.s_abs,
    "equal": _eq, "not_equal": _ne,
    "less": _cmp(core.s_lt), "less_equal": _cmp(core.s_le),
    "greater": lambda a, b: _cmp(core.s_lt)(b, a), "greater_equal": lambda a, b: _cmp(core.s_le)(b, a),
    "logical_and": _logical_and, "logical_or": _logical_or, "logical_not": _logical_not,
    "logical_xor": _logical_xor,
    "bitwise_and": _bitwise("and_", _logical_and), "bitwise_or": _bitwise("or_", _logical_or),
    "bitwise_xor": _bitwise("xor", _logical_xor), "invert": _invert, "bitwise_not": _invert,
    "isnan": core.s_isnan, "isinf": core.s_isinf, "isfinite": core.s_isfinite,
    "maximum": core.s_max, "minimum": core.s_min, "fmax": core.s_fmax, "fmin": core.s_fmin,
    "log": core.s_log, "exp": core.s_exp, "sqrt": core.s_sqrt, "power": core.s_pow,
    "square": _square, "sign": _sign, "log2": _log2,
    "floor_divide": core.s_floordiv, "remainder": core.s_mod, "mod": core.s_mod,
    "floor": _floor, "ceil": _ceil,
    "rint": _generic_concrete(np.rint), "trunc": _generic_concrete(np.trunc),
    "log10": _generic_concrete(np.log10), "log1p": _generic_concrete(np.log1p),
    "expm1": _generic_concrete(np.expm1), "tanh": _generic_concrete(np.tanh),
    "sin": _generic_concrete(np.sin), "cos": _generic_concrete(np.cos),
    "arctan": _generic_concrete(np.arctan), "reciprocal": lambda a: core.s_div(np.float64(1.0), a),
}


def result_dtype(name, inputs):
    """dtype numpy would give (or the TypeError it would raise)."""
    f = getattr(np, name)
    ds = []
    for x in inputs:
        if isinstance(x, SymNd):
            ds.append(np.zeros((1,) * min(x.ndim, 1), dtype=x._dt))
        elif isinstance(x, _nd):
            ds.append(np.zeros((1,) * min(x.ndim, 1), dtype=x.dtype))
        elif isinstance(x, Sym):
            ds.append(_dummy_scalar(x))
        elif isinstance(x, (list, tuple)):
            ds.append(np.zeros(1, dtype=asnd(x)._dt))
        else:
            ds.append(x)
    with np.errstate(all="ignore"):
        try:
            r = f(*ds)
        except FloatingPointError:
            return FLOAT
    return np.asarray(r).dtype


def elementwise(name, inputs):
    fn = _SCALAR.get(name)
    if fn is None:
        raise Unencodable(f"ufunc {name}")
    dt = result_dtype(name, inputs)  # raises numpy's own TypeError if any
    arrs = []
    allscalar = True
    for x in inputs:
        if isinstance(x, SymNd):
            arrs.append(raw(x))
            allscalar = False
        elif isinstance(x, _nd):
            arrs.append(x)
            allscalar = False
        elif isinstance(x, (list, tuple)):
            arrs.append(raw(asnd(x)))
            allscalar = False
        else:
            w = np.empty((), dtype=object)
            w[()] = x
            arrs.append(w)
    b = np.broadcast(*arrs)
    out = np.empty(b.shape, dtype=object)
    of = out.reshape(-1) if out.size else out
    i = 0
    for vals in b:
        of[i] = coerce(fn(*vals), dt)
        i += 1
    if allscalar:
        return out[()]
    r = out.view(SymNd)
    r._dt = dt
    return r


# --------------------------------------------------------------------------
# IMPL table
# --------------------------------------------------------------------------
IMPL = {}


def impl(*names):
    def deco(f):
        for n in names:
            IMPL[n] = f
        return f
    return deco


def _wrap(objarr, dt):
    r = np.asarray(objarr, dtype=object).view(SymNd)
    r._dt = np.dtype(dt)
    return r


def _norm_axis(axis, ndim):
    if axis is None:
        return tuple(range(ndim))
    if isinstance(axis, (int, np.integer)):
        axis = (int(axis),)
    return tuple(sorted(a % ndim for a in axis))


def reduce_axes(a, axis, keepdims, f, dt):
    """apply f(list of elements)->scalar over the given axes of SymNd a."""
    a = asnd(a)
    ra = raw(a)
    if a.ndim == 0:
        return coerce(f([ra[()]]), dt)
    axes = _norm_axis(axis, a.ndim)
    keep = [i for i in range(a.ndim) if i not in axes]
    tr = ra.transpose(keep + list(axes))
    kshape = tuple(ra.shape[i] for i in keep)
    m = 1
    for i in axes:
        m *= ra.shape[i]
    tr = tr.reshape(kshape + (m,))
    out = np.empty(kshape, dtype=object)
    for idx in np.ndindex(kshape):
        out[idx] = coerce(f(list(tr[idx])), dt)
    if keepdims:
        shp = tuple(1 if i in axes else ra.shape[i] for i in range(a.ndim))
        out = out.reshape(shp)
        return _wrap(out, dt)
    if out.ndim == 0:
        v = out[()]
        if type(v) in (int, float, bool) and dt.kind in "iufb":
            return dt.type(v)       # numpy returns numpy scalars (list / np.int64 works, list / int does not)
        return v
    return _wrap(out, dt)


def _fold(f2, init=None):
    def f(vals):
        it = iter(vals)
        if init is None:
            try:
                acc = next(it)
            except StopIteration:
                raise ValueError("zero-size array to reduction operation which has no identity")
        else:
            acc = init
        for v in it:
            acc = f2(acc, v)
        return acc
    return f


def _sum_dtype(a):
    k = a._dt.kind
    if k == "b" or k in "iu":
        return INT
    return a._dt


@impl("sum")
def np_sum(a, axis=None, dtype=None, out=None, keepdims=False, initial=None, where=None):
    a = asnd(a)
    dt = np.dtype(dtype) if dtype is not None else _sum_dtype(a)
    init = 0 if dt.kind in "iu" else np.float64(0.0)
    return reduce_axes(a, axis, keepdims, _fold(core.s_add, init), dt)


@impl("nansum")
def np_nansum(a, axis=None, dtype=None, out=None, keepdims=False):
    a = asnd(a)
    dt = _sum_dtype(a)
    if dt.kind != "f":
        return np_sum(a, axis=axis, keepdims=keepdims)

    def f(vals):
        acc = np.float64(0.0)
        for v in vals:
            acc = core.s_add(acc, f_ite(boolexpr(core.s_isnan(v)), np.float64(0.0), v))
        return acc
    return reduce_axes(a, axis, keepdims, f, dt)


@impl("prod")
def np_prod(a, axis=None, dtype=None, keepdims=False, **kw):
    a = asnd(a)
    dt = _sum_dtype(a)
    return reduce_axes(a, axis, keepdims, _fold(core.s_mul, 1 if dt.kind in "iu" else np.float64(1.0)), dt)


@impl("max", "amax")
def np_max(a, axis=None, out=None, keepdims=False, initial=None, where=None):
    a = asnd(a)
    return reduce_axes(a, axis, keepdims, _fold(core.s_max), a._dt)


@impl("min", "amin")
def np_min(a, axis=None, out=None, keepdims=False, initial=None, where=None):
    a = asnd(a)
    return reduce_axes(a, axis, keepdims, _fold(core.s_min), a._dt)


@impl("nanmax")
def np_nanmax(a, axis=None, out=None, keepdims=False, **kw):
    a = asnd(a)
    if a._dt.kind != "f":
        return np_max(a, axis=axis, keepdims=keepdims)
    if a.size == 0:
        raise ValueError("zero-size array to reduction operation fmax which has no identity")
    return reduce_axes(a, axis, keepdims, _fold(core.s_fmax), a._dt)


@impl("nanmin")
def np_nanmin(a, axis=None, out=None, keepdims=False, **kw):
    a = asnd(a)
    if a._dt.kind != "f":
        return np_min(a, axis=axis, keepdims=keepdims)
    if a.size == 0:
        raise ValueError("zero-size array to reduction operation fmin which has no identity")
    return reduce_axes(a, axis, keepdims, _fold(core.s_fmin), a._dt)


@impl("any")
def np_any(a, axis=None, out=None, keepdims=False, **kw):
    a = asnd(a)
    return reduce_axes(a, axis, keepdims, _fold(_logical_or, False), BOOL)


@impl("all")
def np_all(a, axis=None, out=None, keepdims=False, **kw):
    a = asnd(a)
    return reduce_axes(a, axis, keepdims, _fold(_logical_and, True), BOOL)


@impl("count_nonzero")
def np_count_nonzero(a, axis=None, keepdims=False):
    a = asnd(a)
    return np_sum(a.astype(bool), axis=axis, keepdims=keepdims)


@impl("mean")
def np_mean(a, axis=None, dtype=None, out=None, keepdims=False, **kw):
    a = asnd(a)
    axes = _norm_axis(axis, a.ndim) if a.ndim else ()
    n = 1
    for i in axes:
        n *= a.shape[i]
    s = np_sum(a.astype(float), axis=axis, keepdims=keepdims)
    if n == 0:
        return s * np.float64("nan")
    return s / np.float64(n)


@impl("average")
def np_average(a, axis=None, weights=None, **kw):
    if weights is None:
        return np_mean(a, axis=axis)
    a = asnd(a).astype(float)
    w = asnd(weights).astype(float)
    return np_sum(a * w, axis=axis) / np_sum(w, axis=axis)


@impl("nanmean")
def np_nanmean(a, axis=None, keepdims=False, **kw):
    a = asnd(a).astype(float)
    nn = elementwise("logical_not", (elementwise("isnan", (a,)),))
    cnt = np_sum(nn, axis=axis, keepdims=keepdims)
    s = np_nansum(a, axis=axis, keepdims=keepdims)
    return s / (cnt * np.float64(1.0) if not isinstance(cnt, SymNd) else cnt.astype(float))


@impl("var")
def np_var(a, axis=None, ddof=0, keepdims=False, **kw):
    a = asnd(a).astype(float)
    m = np_mean(a, axis=axis, keepdims=True)
    d = a - m
    axes = _norm_axis(axis, a.ndim)
    n = 1
    for i in axes:
        n *= a.shape[i]
    return np_sum(d * d, axis=axis, keepdims=keepdims) / np.float64(n - ddof)


@impl("std")
def np_std(a, axis=None, ddof=0, keepdims=False, **kw):
    v = np_var(a, axis=axis, ddof=ddof, keepdims=keepdims)
    if isinstance(v, SymNd):
        return elementwise("sqrt", (v,))
    return core.s_sqrt(v)


@impl("cumsum")
def np_cumsum(a, axis=None, **kw):
    a = asnd(a)
    dt = _sum_dtype(a)
    if axis is None:
        a = a.reshape(-1)
        axis = 0
    ra = raw(a)
    out = np.empty(ra.shape, dtype=object)
    mv_in = np.moveaxis(ra, axis, -1)
    mv_out = np.moveaxis(out, axis, -1)
    for idx in np.ndindex(mv_in.shape[:-1]):
        acc = 0 if dt.kind in "iu" else np.float64(0.0)
        for j in range(mv_in.shape[-1]):
            acc = core.s_add(acc, mv_in[idx + (j,)])
            mv_out[idx + (j,)] = coerce(acc, dt)
    return _wrap(out, dt)


# -- arg-reductions (fork over the winner position) ---------------------------
def _argbest(vals, want_max, nanaware):
    """Concrete index of the first optimum, forking over feasible winners.
    np.argmax semantics: the first NaN wins; nanaware: NaNs ignored."""
    n = len(vals)
    if n == 0:
        raise ValueError("attempt to get argmax of an empty sequence")
    if not any(is_sym(v) for v in vals):
        arr = np.array([core._np(v) for v in vals])
        if arr.dtype == object:
            raise Unencodable("argmax over objects")
        with np.errstate(all="ignore"):
            if nanaware:
                return int(np.nanargmax(arr) if want_max else np.nanargmin(arr))
            return int(np.argmax(arr) if want_max else np.argmin(arr))
    isn = [boolexpr(core.s_isnan(v)) if is_floatish(v) else False for v in vals]

    def better(a, b):  # a strictly better than b
        return boolexpr(core.s_lt(b, a) if want_max else core.s_lt(a, b))

    def noworse(a, b):
        return boolexpr(core.s_le(b, a) if want_max else core.s_le(a, b))
    opts = []
    anynan = b_or(*isn) if isn else False
    for j in range(n):
        if nanaware:
            cond = b_and(
                b_not(isn[j]),
                *[b_or(isn[k], better(vals[j], vals[k])) for k in range(j)],
                *[b_or(isn[k], noworse(vals[j], vals[k])) for k in range(j + 1, n)],
            )
        else:
            firstnan = b_and(isn[j], *[b_not(isn[k]) for k in range(j)])
            best = b_and(
                b_not(anynan),
                *[better(vals[j], vals[k]) for k in range(j)],
                *[noworse(vals[j], vals[k]) for k in range(j + 1, n)],
            )
            cond = b_or(firstnan, best)
        opts.append((j, cond))
    if nanaware:
        # all-NaN -> numpy raises ValueError
        alln = b_and(*isn)
        opts.append((-1, alln))
    j = core.ctx().choose(opts, "argmax" if want_max else "argmin")
    if j == -1:
        raise ValueError("All-NaN slice encountered")
    return j


def _argred(a, axis, want_max, nanaware, keepdims=False):
    a = asnd(a)
    ra = raw(a)
    if axis is None:
        r = _argbest(list(ra.reshape(-1)), want_max, nanaware)
        if keepdims:
            return _wrap(np.array(r, dtype=object).reshape((1,) * a.ndim), INT)
        return r
    axis = axis % a.ndim
    mv = np.moveaxis(ra, axis, -1)
    out = np.empty(mv.shape[:-1], dtype=object)
    for idx in np.ndindex(mv.shape[:-1]):
        out[idx] = _argbest(list(mv[idx]), want_max, nanaware)
    if keepdims:
        out = np.expand_dims(out, axis)
    if out.ndim == 0:
        return out[()]
    return _wrap(out, INT)


@impl("argmax")
def np_argmax(a, axis=None, out=None, keepdims=False):
    return _argred(a, axis, True, False, keepdims)


@impl("argmin")
def np_argmin(a, axis=None, out=None, keepdims=False):
    return _argred(a, axis, False, False, keepdims)


@impl("nanargmax")
def np_nanargmax(a, axis=None, **kw):
    return _argred(a, axis, True, True)


@impl("nanargmin")
def np_nanargmin(a, axis=None, **kw):
    return _argred(a, axis, False, True)


def _lt_total(a, b, ia, ib):
    """strict order used by stable sort: NaN last, ties by position."""
    an = boolexpr(core.s_isnan(a)) if is_floatish(a) else False
    bn = boolexpr(core.s_isnan(b)) if is_floatish(b) else False
    lt = boolexpr(core.s_lt(a, b))
    eq = b_or(boolexpr(core.s_eq(a, b)), b_and(an, bn))
    return b_or(b_and(b_not(an), b_or(bn, lt)), b_and(eq, ia < ib))


def _argsort1(vals):
    n = len(vals)
    if not any(is_sym(v) for v in vals):
        arr = np.array([core._np(v) for v in vals])
        if arr.dtype != object:
            return [int(i) for i in np.argsort(arr, kind="stable")]
    remaining = list(range(n))
    order = []
    while remaining:
        if len(remaining) == 1:
            order.append(remaining.pop())
            break
        opts = []
        for j in remaining:
            cond = b_and(*[_lt_total(vals[j], vals[k], j, k) for k in remaining if k != j])
            opts.append((j, cond))
        j = core.ctx().choose(opts, "argsort")
        order.append(j)
        remaining.remove(j)
    return order


@impl("argsort")
def np_argsort(a, axis=-1, kind=None, order=None, stable=None):
    # NOTE: modelled as a *stable* sort (numpy's default quicksort is not stable
    # for n > 16; for the small arrays in the bound numpy uses insertion sort,
    # which is stable).
    a = asnd(a)
    if axis is None:
        a = a.reshape(-1)
        axis = 0
    ra = raw(a)
    mv = np.moveaxis(ra, axis, -1)
    out = np.empty(ra.shape, dtype=object)
    mo = np.moveaxis(out, axis, -1)
    for idx in np.ndindex(mv.shape[:-1]):
        o = _argsort1(list(mv[idx]))
        for j, v in enumerate(o):
            mo[idx + (j,)] = v
    return _wrap(out, INT)


@impl("sort")
def np_sort(a, axis=-1, kind=None, order=None, stable=None):
    a = asnd(a)
    if axis is None:
        a = a.reshape(-1)
        axis = 0
    ra = raw(a)
    mv = np.moveaxis(ra, axis, -1)
    out = np.empty(ra.shape, dtype=object)
    mo = np.moveaxis(out, axis, -1)
    for idx in np.ndindex(mv.shape[:-1]):
        vals = list(mv[idx])
        o = _argsort1(vals)
        for j, v in enumerate(o):
            mo[idx + (j,)] = vals[v]
    return _wrap(out, a._dt)


@impl("argpartition")
def np_argpartition(a, kth, axis=-1, **kw):
    # a full (stable) sort is a valid partition; order inside the parts is
    # unspecified by numpy, so code depending on it is outside the model.
    return np_argsort(a, axis=axis)


@impl("partition")
def np_partition(a, kth, axis=-1, **kw):
    return np_sort(a, axis=axis)


# -- shape-determining functions (fork) ---------------------------------------
@impl("nonzero")
def np_nonzero(a):
    a = asnd(a)
    m = cidx(a.astype(bool))
    return tuple(_wrap(x.astype(object), INT) for x in np.nonzero(m))


@impl("flatnonzero")
def np_flatnonzero(a):
    return np_nonzero(asnd(a).reshape(-1))[0]


@impl("argwhere")
def np_argwhere(a):
    a = asnd(a)
    m = cidx(a.astype(bool))
    return _wrap(np.argwhere(m).astype(object), INT)


@impl("where")
def np_where(cond, *xy):
    if not xy:
        return np_nonzero(cond)
    x, y = xy
    cond = asnd(cond).astype(bool)
    dt = np.asarray(np.where(np.zeros(1, bool), dummy1(x), dummy1(y))).dtype
    arrs = [raw(cond)] + [raw(asnd(v)) if isinstance(v, (_nd, list, tuple)) else _scal0(v) for v in (x, y)]
    b = np.broadcast(*arrs)
    out = np.empty(b.shape, dtype=object)
    of = out.reshape(-1)
    for i, (c, u, v) in enumerate(b):
        of[i] = coerce(_ite_any(c, u, v), dt)
    return _wrap(out, dt)


def _ite_any(c, u, v):
    if not is_sym(c):
        return u if c else v
    try:
        return s_ite(c, u, v)
    except Unencodable:
        return u if bool(c) else v  # fork


def dummy1(x):
    if isinstance(x, SymNd):
        return np.zeros(1, dtype=x._dt)
    if isinstance(x, _nd):
        return np.zeros(1, dtype=x.dtype)
    if isinstance(x, Sym):
        return _dummy_scalar(x)
    if isinstance(x, (list, tuple)):
        return np.zeros(1, dtype=asnd(x)._dt)
    return x


def _scal0(v):
    w = np.empty((), dtype=object)
    w[()] = v
    return w


@impl("unique")
def np_unique(ar, return_index=False, return_inverse=False, return_counts=False, axis=None, **kw):
    a = asnd(ar)
    if axis is not None:
        if has_sym(raw(a)):
            raise Unencodable("unique(axis=...) on symbolic content")
        return _wrapres(np.unique(to_real(a), return_index=return_index, return_inverse=return_inverse,
                                  return_counts=return_counts, axis=axis))
    flat = list(raw(a).reshape(-1))
    if not any(is_sym(v) for v in flat):
        return _wrapres(np.unique(to_real(a), return_index=return_index, return_inverse=return_inverse,
                                  return_counts=return_counts))
    order = _argsort1(flat)
    uniq, first, inverse, counts = [], [], [None] * len(flat), []
    for pos in order:
        v = flat[pos]
        if uniq:
            last = uniq[-1]
            same = core.s_eq(last, v)
            if is_floatish(v):
                same = mkbool(b_or(boolexpr(same), b_and(boolexpr(core.s_isnan(last)), boolexpr(core.s_isnan(v)))))
            if bool(same):
                inverse[pos] = len(uniq) - 1
                counts[-1] += 1
                continue
        uniq.append(v)
        first.append(pos)
        counts.append(1)
        inverse[pos] = len(uniq) - 1
    res = [SymNd(_to_obj(uniq) if uniq else np.empty(0, dtype=object), a._dt)]
    if return_index:
        res.append(SymNd(_to_obj(first), INT))
    if return_inverse:
        res.append(SymNd(_to_obj(inverse), INT).reshape(a.shape))
    if return_counts:
        res.append(SymNd(_to_obj(counts), INT))
    return res[0] if len(res) == 1 else tuple(res)


def _wrapres(r):
    if isinstance(r, tuple):
        return tuple(_wrapres(x) for x in r)
    if isinstance(r, _nd) and not isinstance(r, SymNd):
        return SymNd(r, r.dtype)
    return r


@impl("isin", "in1d")
def np_isin(element, test_elements, assume_unique=False, invert=False, **kw):
    e = asnd(element)
    t = list(raw(asnd(test_elements)).reshape(-1))
    out = np.empty(e.shape, dtype=object)
    re_ = raw(e)
    for idx in np.ndindex(e.shape):
        acc = False
        for v in t:
            acc = _logical_or(acc, core.s_eq(re_[idx], v))
        out[idx] = _logical_not(acc) if invert else acc
    return _wrap(out, BOOL)


@impl("setdiff1d")
def np_setdiff1d(a, b, assume_unique=False):
    a = asnd(a).reshape(-1)
    if not assume_unique:
        a = np_unique(a)
    keep = np_isin(a, b, invert=True)
    return a[keep]


@impl("intersect1d")
def np_intersect1d(a, b, assume_unique=False, return_indices=False):
    if return_indices:
        raise Unencodable("intersect1d(return_indices)")
    a = np_unique(asnd(a).reshape(-1))
    return a[np_isin(a, b)]


@impl("union1d")
def np_union1d(a, b):
    return np_unique(np_concatenate([asnd(a).reshape(-1), asnd(b).reshape(-1)]))


@impl("array_equal")
def np_array_equal(a, b, equal_nan=False):
    a = asnd(a)
    b = asnd(b)
    if a.shape != b.shape:
        return False
    eq = elementwise("equal", (a, b))
    if equal_nan and a._dt.kind == "f" and b._dt.kind == "f":
        eq = eq | (elementwise("isnan", (a,)) & elementwise("isnan", (b,)))
    return bool(np_all(eq))


@impl("searchsorted")
def np_searchsorted(a, v, side="left", sorter=None):
    a = asnd(a)
    if sorter is not None:
        a = a[sorter]
    vals = list(raw(a))
    scalar = not isinstance(v, (_nd, list, tuple))
    vs = [v] if scalar else list(raw(asnd(v)).reshape(-1))
    res = []
    for x in vs:
        cnt = 0
        for y in vals:
            if isinstance(x, (str, bytes)) or isinstance(y, (str, bytes)):
                # concrete strings (class labels): plain lexicographic comparison as numpy does
                c = int((str(y) < str(x)) if side == "left" else (str(y) <= str(x)))
            else:
                c = core.s_lt(y, x) if side == "left" else core.s_le(y, x)
            cnt = core.s_add(cnt, c)
        res.append(cnt)
    if scalar:
        return res[0]
    return SymNd(_to_obj(res), INT).reshape(asnd(v).shape)


@impl("bincount")
def np_bincount(x, weights=None, minlength=0):
    x = asnd(x)
    if x.ndim != 1:
        raise ValueError("object too deep for desired array")
    if x._dt.kind not in "iub":
        raise TypeError("Cannot cast array data from dtype('float64') to dtype('int64') according to the rule 'safe'")
    xs = list(raw(x))
    symbolic_x = any(is_sym(v) for v in xs)
    if symbolic_x:
        # length must be concrete: use minlength as the bound and require x < minlength
        if not minlength:
            xs = [operator.index(v) for v in xs]
            symbolic_x = False
    if not symbolic_x:
        if any(v < 0 for v in xs):
            raise ValueError("'list' argument must have no negative elements")
        n = max([minlength] + [v + 1 for v in xs]) if xs else minlength
    else:
        n = minlength
        for v in xs:
            if is_sym(v):
                core.ctx().add(z3.And(v.e >= 0, v.e < n))
    if weights is None:
        dt = INT
        ws = [1] * len(xs)
    else:
        dt = FLOAT
        ws = list(raw(asnd(weights).astype(float)))
    out = np.empty(n, dtype=object)
    for k in range(n):
        acc = 0 if dt == INT else np.float64(0.0)
        for v, w in zip(xs, ws):
            c = core.s_eq(v, k)
            if is_sym(c):
                term = s_ite(c, w, 0 if dt == INT else np.float64(0.0))
            else:
                term = w if c else None
            if term is not None:
                acc = core.s_add(acc, term)
        out[k] = coerce(acc, dt)
    return _wrap(out, dt)


# -- structural functions: run numpy on the object storage ---------------------
def _struct(name, list_arg=False):
    f = getattr(np, name)

    def g(*args, **kw):
        if list_arg:
            seq = [asnd(x) for x in args[0]]
            dts = [np.zeros(0, dtype=x._dt) for x in seq]
            dt = np.result_type(*dts) if dts else FLOAT
            if any(d.dtype.kind in "US" for d in dts) and any(d.dtype.kind in "fiub" for d in dts):
                dt = np.concatenate(dts).dtype
            r = f([raw(x) for x in seq], *args[1:], **kw)
            return SymNd(r, dt)
        a = asnd(args[0])
        rest = [cidx(x) if isinstance(x, (SymNd, Sym)) else x for x in args[1:]]
        kw2 = {k: (cidx(v) if isinstance(v, (SymNd, Sym)) else v) for k, v in kw.items()}
        r = f(raw(a), *rest, **kw2)
        if isinstance(r, (list, tuple)):
            return type(r)(_wrap(x, a._dt) if isinstance(x, _nd) else x for x in r)
        if isinstance(r, _nd):
            return _wrap(r, a._dt)
        return r
    g.__name__ = name
    return g


for _n in ("reshape", "ravel", "transpose", "squeeze", "expand_dims", "atleast_1d", "atleast_2d",
           "broadcast_to", "flip", "roll", "repeat", "tile", "delete", "array_split", "split",
           "moveaxis", "swapaxes", "diag", "tril", "triu", "fliplr", "flipud", "diagonal", "copy",
           "take", "rot90", "trace"):
    IMPL[_n] = _struct(_n)


@impl("atleast_1d")
def np_atleast_1d(*arys):
    res = []
    for a in arys:
        a = asnd(a)
        res.append(a.reshape(1) if a.ndim == 0 else a)
    return res[0] if len(res) == 1 else tuple(res)


@impl("atleast_2d")
def np_atleast_2d(*arys):
    res = []
    for a in arys:
        a = asnd(a)
        if a.ndim == 0:
            a = a.reshape(1, 1)
        elif a.ndim == 1:
            a = a[np.newaxis, :]
        res.append(a)
    return res[0] if len(res) == 1 else tuple(res)


@impl("trace")
def np_trace(a, **kw):
    a = asnd(a)
    return np_sum(_wrap(np.diagonal(raw(a)), a._dt))


@impl("concatenate")
def np_concatenate(seq, axis=0, out=None, dtype=None, **kw):
    seq = [asnd(x) for x in seq]
    dts = [np.zeros((0,) * x.ndim if x.ndim else (), dtype=x._dt) for x in seq]
    dt = np.concatenate([np.zeros(1, dtype=x._dt) for x in seq]).dtype
    if axis is None:
        r = np.concatenate([raw(x).reshape(-1) for x in seq])
    else:
        r = np.concatenate([raw(x) for x in seq], axis=axis)
    return SymNd(r, dt)


@impl("append")
def np_append(arr, values, axis=None):
    arr = asnd(arr)
    values = asnd(values)
    if axis is None:
        return np_concatenate([arr.reshape(-1), values.reshape(-1)])
    return np_concatenate([arr, values], axis=axis)


@impl("insert")
def np_insert(arr, obj, values, axis=None):
    arr = asnd(arr)
    vals = asnd(values)
    dt = arr._dt
    r = np.insert(raw(arr), cidx(obj), raw(vals.astype(dt)) if vals.ndim else raw(vals.astype(dt))[()], axis=axis)
    return _wrap(r, dt)


def _stack(name):
    f = getattr(np, name)

    def g(seq, *a, **kw):
        seq = [asnd(x) for x in seq]
        dt = np.concatenate([np.zeros(1, dtype=x._dt) for x in seq]).dtype
        return SymNd(f([raw(x) for x in seq], *a, **kw), dt)
    return g


for _n in ("stack", "vstack", "hstack", "column_stack", "dstack"):
    IMPL[_n] = _stack(_n)


@impl("take_along_axis")
def np_take_along_axis(arr, indices, axis):
    arr = asnd(arr)
    ind = cidx(asnd(indices))
    return _wrap(np.take_along_axis(raw(arr), ind, axis), arr._dt)


@impl("put_along_axis")
def np_put_along_axis(arr, indices, values, axis):
    ind = cidx(asnd(indices))
    v = asnd(values).astype(arr._dt) if isinstance(values, (_nd, list, tuple)) else coerce(values, arr._dt)
    np.put_along_axis(raw(arr), ind, raw(v) if isinstance(v, SymNd) else _scal0(v), axis)


@impl("clip")
def np_clip(a, a_min=None, a_max=None, out=None, **kw):
    if "min" in kw:
        a_min = kw["min"]
    if "max" in kw:
        a_max = kw["max"]
    r = a
    if a_min is not None:
        r = elementwise("maximum", (r, a_min))
    if a_max is not None:
        r = elementwise("minimum", (r, a_max))
    if out is not None:
        out[...] = r
        return out
    return r


@impl("nan_to_num")
def np_nan_to_num(x, copy=True, nan=0.0, posinf=None, neginf=None):
    x = asnd(x)
    if x._dt.kind != "f":
        return x.copy()
    big = np.finfo(np.float64).max
    posinf = big if posinf is None else posinf
    neginf = -big if neginf is None else neginf
    ra = raw(x)
    out = np.empty(ra.shape, dtype=object)
    for idx in np.ndindex(ra.shape):
        v = ra[idx]
        if is_sym(v):
            r = f_ite(v.nan, np.float64(nan), f_ite(v.pinf, np.float64(posinf), f_ite(v.ninf, np.float64(neginf), v)))
        else:
            r = np.float64(np.nan_to_num(v, nan=nan, posinf=posinf, neginf=neginf))
        out[idx] = r
    res = _wrap(out, x._dt)
    if not copy:
        x[...] = res
        return x
    return res


@impl("matmul")
def np_matmul(a, b, out=None):
    a = asnd(a)
    b = asnd(b)
    if a.ndim <= 2 and b.ndim <= 2:
        return np_dot(a, b)
    # stacked matrices: broadcast over the leading dimensions
    a2 = a if a.ndim >= 2 else a.reshape(1, -1)
    b2 = b if b.ndim >= 2 else b.reshape(-1, 1)
    lead = np.broadcast_shapes(a2.shape[:-2], b2.shape[:-2])
    ra = np.broadcast_to(raw(a2), lead + a2.shape[-2:])
    rb = np.broadcast_to(raw(b2), lead + b2.shape[-2:])
    first = None
    out_ = np.empty(lead + (a2.shape[-2], b2.shape[-1]), dtype=object)
    for idx in np.ndindex(lead):
        m = np_dot(_wrap(np.array(ra[idx], dtype=object), a._dt), _wrap(np.array(rb[idx], dtype=object), b._dt))
        first = m if first is None else first
        out_[idx] = raw(m)
    res = _wrap(out_, first._dt if first is not None else a._dt)
    if a.ndim < 2:
        res = res.reshape(lead + (b2.shape[-1],))
    elif b.ndim < 2:
        res = res.reshape(lead + (a2.shape[-2],))
    return res


@impl("dot")
def np_dot(a, b, out=None):
    a = asnd(a)
    b = asnd(b)
    dt = np.dot(np.zeros((1,) * a.ndim, a._dt) if a.ndim else a._dt.type(0),
                np.zeros((1,) * b.ndim, b._dt) if b.ndim else b._dt.type(0)).dtype
    ra, rb = raw(a), raw(b)
    if a.ndim == 0 or b.ndim == 0:
        return a * b

    def ip(u, v):
        if len(u) != len(v):
            raise ValueError(f"shapes {a.shape} and {b.shape} not aligned")
        acc = 0 if dt.kind in "iu" else np.float64(0.0)
        for x, y in zip(u, v):
            acc = core.s_add(acc, core.s_mul(x, y))
        return coerce(acc, dt)
    if a.ndim == 1 and b.ndim == 1:
        return ip(list(ra), list(rb))
    if a.ndim == 2 and b.ndim == 1:
        return _wrap(_to_obj([ip(list(ra[i]), list(rb)) for i in range(ra.shape[0])]), dt)
    if a.ndim == 1 and b.ndim == 2:
        return _wrap(_to_obj([ip(list(ra), list(rb[:, j])) for j in range(rb.shape[1])]), dt)
    if a.ndim == 2 and b.ndim == 2:
        if ra.shape[1] != rb.shape[0]:
            raise ValueError(f"shapes {a.shape} and {b.shape} not aligned")
        out_ = np.empty((ra.shape[0], rb.shape[1]), dtype=object)
        for i in range(ra.shape[0]):
            for j in range(rb.shape[1]):
                out_[i, j] = ip(list(ra[i]), list(rb[:, j]))
        return _wrap(out_, dt)
    raise Unencodable("dot with ndim > 2")


@impl("outer")
def np_outer(a, b):
    a = asnd(a).reshape(-1)
    b = asnd(b).reshape(-1)
    return a[:, np.newaxis] * b[np.newaxis, :]


@impl("einsum")
def np_einsum(*a, **kw):
    raise Unencodable("einsum")


@impl("full_like")
def np_full_like(a, fill_value, dtype=None, **kw):
    a = asnd(a)
    dt = np.dtype(dtype) if dtype is not None else a._dt
    out = np.empty(a.shape, dtype=object)
    r = _wrap(out, dt)
    r[...] = fill_value
    return r


@impl("zeros_like")
def np_zeros_like(a, dtype=None, **kw):
    a = asnd(a)
    dt = np.dtype(dtype) if dtype is not None else a._dt
    return SymNd(np.zeros(a.shape, dtype=dt), dt)


@impl("ones_like")
def np_ones_like(a, dtype=None, **kw):
    a = asnd(a)
    dt = np.dtype(dtype) if dtype is not None else a._dt
    return SymNd(np.ones(a.shape, dtype=dt), dt)


@impl("empty_like")
def np_empty_like(a, dtype=None, **kw):
    return np_zeros_like(a, dtype=dtype)


@impl("shape")
def np_shape(a):
    return asnd(a).shape


@impl("ndim")
def np_ndim(a):
    return asnd(a).ndim


@impl("size")
def np_size(a, axis=None):
    a = asnd(a)
    return a.size if axis is None else a.shape[axis]


@impl("isclose")
def np_isclose(a, b, rtol=1e-05, atol=1e-08, equal_nan=False):
    # |a-b| <= atol + rtol*|b|
    a_ = a if isinstance(a, _nd) else a
    diff = elementwise("absolute", (elementwise("subtract", (a_, b)),))
    bound = elementwise("add", (np.float64(atol), elementwise("multiply", (np.float64(rtol), elementwise("absolute", (b,))))))
    close = elementwise("less_equal", (diff, bound))
    same = elementwise("equal", (a_, b))
    return elementwise("logical_or", (close, same))


@impl("allclose")
def np_allclose(a, b, rtol=1e-05, atol=1e-08, equal_nan=False):
    return bool(np_all(np_isclose(a, b, rtol, atol, equal_nan)))


@impl("quantile")
def np_quantile(a, q, axis=None, **kw):
    """linear interpolation between order statistics; q must be concrete"""
    a = asnd(a)
    if isinstance(q, Sym) and is_sym(q):
        raise Unencodable("quantile with symbolic q")
    if axis is not None or a.ndim != 1 or kw.get("method", "linear") != "linear":
        return fallback(np.quantile, "quantile", (a, q), dict(axis=axis, **kw))
    if not np.isscalar(q):
        return SymNd(_to_obj([np_quantile(a, float(x)) for x in np.asarray(q).reshape(-1)]), FLOAT)
    q = float(q)
    if not 0 <= q <= 1:
        raise ValueError("Quantiles must be in the range [0, 1]")
    n = a.shape[0]
    if n == 0:
        return np.float64("nan")
    vals = list(raw(np_sort(a.astype(float))))
    pos = q * (n - 1)
    lo = int(np.floor(pos))
    hi = min(lo + 1, n - 1)
    t = pos - lo
    if t == 0:
        return vals[lo]
    return core.s_add(vals[lo], core.s_mul(core.s_sub(vals[hi], vals[lo]), np.float64(t)))


@impl("round", "around")
def np_round(a, decimals=0, out=None):
    return fallback(np.round, "round", (a, decimals), {})


@impl("linspace")
def np_linspace(*a, **kw):
    return fallback(np.linspace, "linspace", a, kw)


@impl("result_type")
def np_result_type(*a):
    return np.result_type(*[dummy(x) if isinstance(x, (SymNd, Sym)) else x for x in a])


@impl("can_cast")
def np_can_cast(f, t, casting="safe"):
    return np.can_cast(f._dt if isinstance(f, SymNd) else f, t, casting=casting)


@impl("iscomplexobj")
def np_iscomplexobj(x):
    return False


@impl("isrealobj")
def np_isrealobj(x):
    return True


@impl("may_share_memory", "shares_memory")
def np_may_share_memory(a, b, **kw):
    return np.may_share_memory(raw(a) if isinstance(a, SymNd) else a, raw(b) if isinstance(b, SymNd) else b)


@impl("unravel_index")
def np_unravel_index(indices, shape, order="C"):
    if isinstance(indices, (SymNd,)):
        indices = cidx(indices)
    elif isinstance(indices, Sym):
        indices = operator.index(indices)
    r = np.unravel_index(indices, shape, order=order)
    return tuple(SymNd(x, INT) if isinstance(x, _nd) else int(x) for x in r)


@impl("ix_")
def np_ix_(*args):
    return np.ix_(*[cidx(asnd(a)) if isinstance(a, (SymNd, list)) else a for a in args])


# --------------------------------------------------------------------------
def fallback(func, name, args, kwargs):
    """Function outside the whitelist: only with fully concrete content."""
    def conv(x):
        if isinstance(x, SymNd):
            try:
                return to_real(x)
            except Unencodable:
                raise Unencodable(f"numpy.{name} on symbolic content is not modelled")
        if isinstance(x, Sym) and is_sym(x):
            raise Unencodable(f"numpy.{name} on a symbolic scalar is not modelled")
        if isinstance(x, (list, tuple)):
            return type(x)(conv(v) for v in x)
        if isinstance(x, dict):
            return {k: conv(v) for k, v in x.items()}
        return x
    r = func(*conv(list(args)), **conv(kwargs))
    return _wrapres(r)
