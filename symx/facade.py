"""The numpy facade that replaces the module-global `np` of the skactiveml
modules under test, the symbolic RandomState, and installation helpers."""
from __future__ import annotations

import copy
import operator
import sys
import types

import numpy as _np
import z3

from . import arrays, core
from .arrays import IMPL, SymNd, asnd, elementwise, fallback, raw
from .core import Sym, SymFloat, SymInt, Unencodable, is_sym


# --------------------------------------------------------------------------
# random numbers
# --------------------------------------------------------------------------
_U = z3.Function("rng_u", z3.IntSort(), z3.IntSort(), z3.IntSort(), z3.RealSort())
_N = z3.Function("rng_n", z3.IntSort(), z3.IntSort(), z3.IntSort(), z3.RealSort())
_I = z3.Function("rng_i", z3.IntSort(), z3.IntSort(), z3.IntSort(), z3.IntSort())
_HIST = {}


def _hid(h):
    return _HIST.setdefault(h, len(_HIST))


class SymRandomState(_np.random.RandomState):
    """Draws are uninterpreted functions of (seed term, history id, position):
    two generators produce the same numbers iff they have equal seeds and made
    the same kinds of draws before."""

    def __init__(self, seed=None):
        # do not initialise the real generator state from symbolic seeds
        super().__init__(0)
        if seed is None:
            c = core.ctx()
            self._seed = z3.Int(c.fresh_name("osseed"))
        elif isinstance(seed, SymRandomState):
            self._seed = seed._seed
        elif type(seed) is SymInt:
            self._seed = seed.e
        elif isinstance(seed, z3.ExprRef):
            self._seed = seed
        else:
            s = operator.index(seed)
            if not (0 <= s < 2 ** 32):
                raise ValueError("Seed must be between 0 and 2**32 - 1")
            self._seed = z3.IntVal(s)
        self._hist = ()
        self.draw_log = []

    # state -------------------------------------------------------------------
    def get_state(self, legacy=True):
        return ("symx", self._seed, self._hist)

    def set_state(self, state):
        if not (isinstance(state, tuple) and state and state[0] == "symx"):
            raise Unencodable("set_state with a foreign state")
        self._seed = state[1]
        self._hist = state[2]

    def __deepcopy__(self, memo):
        r = SymRandomState.__new__(SymRandomState)
        _np.random.RandomState.__init__(r, 0)
        r._seed = self._seed
        r._hist = self._hist
        r.draw_log = []
        return r

    __copy__ = lambda self: self.__deepcopy__({})

    def __reduce__(self):
        raise Unencodable("pickling a symbolic RandomState")

    def same_state(self, other):
        """z3 condition: both generators will produce the same stream."""
        if self._hist != other._hist:
            return False
        return self._seed == other._seed

    # draws ---------------------------------------------------------------------
    def _n(self, size):
        if size is None:
            return None, 1
        if isinstance(size, (int, _np.integer)):
            s = operator.index(size)
            return (s,), s
        shp = tuple(operator.index(s) for s in size)
        n = 1
        for s in shp:
            n *= s
        return shp, n

    def _draw(self, fn, kind, size):
        """n draws of one kind. The history is a tuple of runs (kind, count): consecutive draws of the
        same kind extend the current run, because numpy's legacy generator produces the same numbers for
        random_sample(2) and two random_sample() calls (same for standard_normal / randint with equal bounds)."""
        shp, n = self._n(size)
        if self._hist and self._hist[-1][0] == kind:
            prefix, start = self._hist[:-1], self._hist[-1][1]
        else:
            prefix, start = self._hist, 0
        h = _hid(prefix)
        vals = [fn(self._seed, z3.IntVal(h), z3.IntVal(start + i)) for i in range(n)]
        if n:
            self._hist = prefix + ((kind, start + n),)
        self.draw_log.append((kind, n))
        c = core.ctx()
        if not hasattr(c, "draw_terms"):
            c.draw_terms = []
        c.draw_terms.extend(vals)
        if not hasattr(c, "draw_records"):
            c.draw_records = []
        for i, v in enumerate(vals):
            c.draw_records.append((self._seed, prefix, start + i, kind, v))
        return shp, vals

    def random_sample(self, size=None):
        shp, vals = self._draw(_U, "u", size)
        c = core.ctx()
        out = []
        for v in vals:
            c.add(z3.And(v > 0, v < 1))
            out.append(SymFloat(v))
        if shp is None:
            return out[0]
        return SymNd(arrays._to_obj(out).reshape(shp), arrays.FLOAT)

    random = random_sample

    def rand(self, *shape):
        return self.random_sample(shape if shape else None)

    def uniform(self, low=0.0, high=1.0, size=None):
        u = self.random_sample(size)
        return low + (high - low) * u

    def standard_normal(self, size=None):
        shp, vals = self._draw(_N, "n", size)
        out = [SymFloat(v) for v in vals]
        if shp is None:
            return out[0]
        return SymNd(arrays._to_obj(out).reshape(shp), arrays.FLOAT)

    def normal(self, loc=0.0, scale=1.0, size=None):
        return loc + scale * self.standard_normal(size)

    randn = lambda self, *shape: self.standard_normal(shape if shape else None)

    def randint(self, low, high=None, size=None, dtype=int):
        if high is None:
            low, high = 0, low
        shp, vals = self._draw(_I, "i", size)
        c = core.ctx()
        out = []
        for v in vals:
            c.add(z3.And(v >= core.intexpr(low), v < core.intexpr(high)))
            out.append(SymInt(v))
        if shp is None:
            return out[0]
        return SymNd(arrays._to_obj(out).reshape(shp), arrays.INT)

    def choice(self, a, size=None, replace=True, p=None):
        if isinstance(a, (int, _np.integer)):
            n = operator.index(a)
            pop = None
        else:
            pop = asnd(a)
            n = len(pop)
        shp, k = self._n(size)
        if n == 0 and k > 0:
            raise ValueError("a must be non-empty")
        c = core.ctx()
        if p is not None:
            pr = list(raw(asnd(p).astype(float)))
            if len(pr) != n:
                raise ValueError("'a' and 'p' must have same size")
            # numpy's validation of p
            bad = core.b_or(*[core.boolexpr(core.s_lt(x, 0)) for x in pr],
                            *[core.boolexpr(core.s_isnan(x)) for x in pr])
            if c.branch(core.z3b(bad)) if not core._isc(bad) else bad:
                raise ValueError("probabilities contain NaN or are not non-negative")
            pos = [core.boolexpr(core.s_lt(0, x)) for x in pr]
        else:
            pos = [True] * n
        shp_, vals = self._draw(_I, "c", size)
        res = []
        if not replace:
            npos = core.s_add(0, 0)
            cnt = 0
            for b in pos:
                cnt = core.s_add(cnt, core.mkbool(b))
            if p is not None:
                few = core.s_lt(cnt, k)
                if bool(few):
                    raise ValueError("Fewer non-zero entries in p than size")
            elif k > n:
                raise ValueError("Cannot take a larger sample than population when 'replace=False'")
        taken = []
        for i in range(k):
            opts = []
            for j in range(n):
                if not replace and j in taken:
                    continue
                opts.append((j, core.b_and(pos[j], vals[i] == j)))
            j = c.choose(opts, "choice")
            taken.append(j)
            res.append(j)
        if pop is not None:
            out = [raw(pop)[j] for j in res]
            dt = pop._dt
        else:
            out = res
            dt = arrays.INT
        if shp is None:
            return out[0]
        return SymNd(arrays._to_obj(out).reshape(shp) if out else _np.empty(shp, dtype=object), dt)

    def permutation(self, x):
        if isinstance(x, (int, _np.integer)):
            n = operator.index(x)
            arr = None
        else:
            arr = asnd(x)
            n = len(arr)
        idx = self.choice(n, size=n, replace=False)
        if arr is None:
            return idx
        return arr[idx]

    def shuffle(self, x):
        p = self.permutation(len(x))
        x[...] = x[p]

    def multivariate_normal(self, *a, **k):
        raise Unencodable("multivariate_normal")

    def seed(self, seed=None):
        self.__init__(seed)


class _GlobalRNG:
    """np.random module facade: module level functions draw from the process
    global generator, which is one SymRandomState per exploration path."""

    def __init__(self):
        self._g = None
        self._path = None

    def _global(self):
        c = core.ctx()
        if self._path is not c:
            self._path = c
            seed = getattr(c, "global_seed", None)
            self._g = SymRandomState(seed if seed is not None else z3.Int("GLOBALSEED"))
        return self._g

    @property
    def RandomState(self):
        return _np.random.RandomState if CONCRETE_RNG else SymRandomState

    def __getattr__(self, name):
        if CONCRETE_RNG:
            return getattr(_np.random, name)
        if name in ("random", "random_sample", "rand", "randn", "randint", "choice", "normal",
                    "uniform", "permutation", "shuffle", "standard_normal", "get_state", "set_state"):
            return getattr(self._global(), name)
        if name == "seed":
            def seed(s=None):
                self._path = core.ctx()
                self._g = SymRandomState(s)
            return seed
        if name == "mtrand":
            return types.SimpleNamespace(_rand=self._global(), RandomState=SymRandomState)
        return getattr(_np.random, name)


GLOBAL_RNG = _GlobalRNG()
CONCRETE_RNG = False  # concrete (differential validation) mode: real generators


def check_random_state_stub(seed):
    """sklearn.utils.check_random_state by its documented contract."""
    if CONCRETE_RNG:
        from sklearn.utils import check_random_state as _crs
        return _crs(seed)
    if seed is None or seed is _np.random:
        return GLOBAL_RNG._global()
    if isinstance(seed, SymRandomState):
        return seed
    if isinstance(seed, _np.random.RandomState):
        raise Unencodable("a real RandomState entered a symbolic run")
    if type(seed) is SymInt or isinstance(seed, (int, _np.integer)) and not isinstance(seed, bool):
        return SymRandomState(seed)
    raise ValueError("%r cannot be used to seed a numpy.random.RandomState instance" % seed)


# --------------------------------------------------------------------------
# numpy facade
# --------------------------------------------------------------------------
class _Ufunc:
    def __init__(self, name):
        self.__name__ = name
        self._real = getattr(_np, name)

    def __call__(self, *a, out=None, where=True, dtype=None, casting=None, **kw):
        if kw:
            raise Unencodable(f"ufunc {self.__name__} with {sorted(kw)}")
        r = elementwise(self.__name__, a)
        if dtype is not None and isinstance(r, SymNd):
            r = r.astype(dtype)
        if where is not True:
            # numpy computes the result only where the mask holds; the other entries keep what `out` held before
            if out is None:
                raise Unencodable(f"ufunc {self.__name__} with where= but without out= (uninitialised entries)")
            r = FACADE.where(where, r, out)
        if out is not None:
            out[...] = r
            return out
        return r

    def reduce(self, a, axis=0, **kw):
        return asnd(a).__array_ufunc__(self._real, "reduce", asnd(a), axis=axis, **kw)

    def outer(self, a, b):
        return asnd(a).__array_ufunc__(self._real, "outer", a, b)

    def at(self, a, idx, b=None):
        raise Unencodable("ufunc.at")


def _array(obj, dtype=None, copy=True, ndmin=0, **kw):
    r = asnd(obj, dtype)
    if copy is not False and (r is obj or copy):
        r = SymNd(r, r._dt, copy=True)
    while r.ndim < ndmin:
        r = r[_np.newaxis]
    return r


def _asarray(obj, dtype=None, **kw):
    return asnd(obj, dtype)


def _shape_of(shape):
    if isinstance(shape, (int, _np.integer)):
        return (operator.index(shape),)
    if isinstance(shape, SymNd):
        return tuple(operator.index(s) for s in raw(shape))
    return tuple(operator.index(s) for s in shape)


def _full(shape, fill_value, dtype=None, **kw):
    shape = _shape_of(shape)
    if dtype is None:
        if isinstance(fill_value, Sym):
            dtype = _np.asarray(arrays._dummy_scalar(fill_value)).dtype
        elif isinstance(fill_value, SymNd):
            dtype = fill_value._dt
        else:
            dtype = _np.asarray(fill_value).dtype
            if dtype.kind == "i":
                dtype = arrays.INT
    r = arrays._wrap(_np.empty(shape, dtype=object), dtype)
    r[...] = fill_value
    return r


def _zeros(shape, dtype=float, **kw):
    return SymNd(_np.zeros(_shape_of(shape), dtype=dtype))


def _ones(shape, dtype=None, **kw):
    return SymNd(_np.ones(_shape_of(shape), dtype=dtype if dtype is not None else float))


def _empty(shape, dtype=float, **kw):
    # uninitialised memory is modelled as zeros (reads of uninitialised entries
    # are outside the model)
    return SymNd(_np.zeros(_shape_of(shape), dtype=dtype))


def _arange(*a, **kw):
    a = [operator.index(x) if type(x) is SymInt else x for x in a]
    return SymNd(_np.arange(*a, **kw))


def _eye(N, M=None, k=0, dtype=float, **kw):
    return SymNd(_np.eye(operator.index(N), M if M is None else operator.index(M), k, dtype=dtype))


def _isscalar(x):
    if isinstance(x, Sym) and is_sym(x):
        return True
    return _np.isscalar(x)


def _issubdtype(a, b):
    if isinstance(a, SymNd):
        a = a._dt
    return _np.issubdtype(a, b)


def _isneginf(x, out=None):
    return elementwise("logical_and", (elementwise("isinf", (x,)), elementwise("less", (x, 0))))


def _isposinf(x, out=None):
    return elementwise("logical_and", (elementwise("isinf", (x,)), elementwise("greater", (x, 0))))


_CONSTRUCTORS = {
    "array": _array, "asarray": _asarray, "asanyarray": _asarray, "ascontiguousarray": _asarray,
    "full": _full, "zeros": _zeros, "ones": _ones, "empty": _empty, "arange": _arange, "eye": _eye,
    "identity": lambda n, dtype=float: _eye(n, dtype=dtype),
    "isscalar": _isscalar, "issubdtype": _issubdtype, "isneginf": _isneginf, "isposinf": _isposinf,
    "abs": _Ufunc("absolute"),
}


class Facade(types.ModuleType):
    def __init__(self):
        super().__init__("numpy_symx_facade")
        self.__dict__["random"] = GLOBAL_RNG
        self.__dict__["_cache"] = {}

    def __getattr__(self, name):
        cache = self.__dict__["_cache"]
        if name in cache:
            return cache[name]
        if name in _CONSTRUCTORS:
            r = _CONSTRUCTORS[name]
        elif name in arrays._SCALAR:
            r = _Ufunc(name)
        elif name in IMPL:
            r = IMPL[name]
        else:
            attr = getattr(_np, name)
            if isinstance(attr, types.ModuleType) and name in ("linalg", "testing", "ma", "lib", "fft"):
                r = _SubFacade(attr, "numpy." + name)
            elif callable(attr) and not isinstance(attr, type):
                def r(*a, __f=attr, __n=name, **kw):
                    return fallback(__f, __n, a, kw)
                r.__name__ = name
            else:
                r = attr
        cache[name] = r
        return r


def _sym_inv(a):
    """inverse of a small (<= 4x4) symbolic matrix by the adjugate formula (no pivoting decisions)"""
    a = asnd(a).astype(float)
    if a.ndim != 2 or a.shape[0] != a.shape[1]:
        raise _np.linalg.LinAlgError("Last 2 dimensions of the array must be square")
    n = a.shape[0]
    if not arrays.has_sym(raw(a)):
        return SymNd(_np.linalg.inv(arrays.to_real(a)))
    if n > 4:
        raise Unencodable("symbolic matrix inverse beyond 4x4")
    M = raw(a)
    memo = {}

    def det(rows, cols):
        key = (rows, cols)
        if key in memo:
            return memo[key]
        if len(rows) == 0:
            r = _np.float64(1.0)
        elif len(rows) == 1:
            r = M[rows[0], cols[0]]
        else:
            r = _np.float64(0.0)
            i = rows[0]
            for k, j in enumerate(cols):
                term = core.s_mul(M[i, j], det(rows[1:], cols[:k] + cols[k + 1:]))
                r = core.s_add(r, term) if k % 2 == 0 else core.s_sub(r, term)
        memo[key] = r
        return r
    idx = tuple(range(n))
    d = det(idx, idx)
    out = _np.empty((n, n), dtype=object)
    for i in range(n):
        for j in range(n):
            cof = det(idx[:j] + idx[j + 1:], idx[:i] + idx[i + 1:])
            if (i + j) % 2:
                cof = core.s_neg(cof)
            out[i, j] = core.s_div(cof, d)
    return arrays._wrap(out, arrays.FLOAT)


def _sym_norm(x, ord=None, axis=None, keepdims=False):
    """vector norms (ord None/2, 1, inf) of a symbolic array along one axis (or of the flattened array)"""
    a = asnd(x)
    if not arrays.has_sym(raw(a)):
        return fallback(_np.linalg.norm, "numpy.linalg.norm", (x,), dict(ord=ord, axis=axis, keepdims=keepdims))
    if isinstance(axis, tuple) or (axis is None and a.ndim > 1 and ord is not None):
        raise Unencodable("matrix norm of a symbolic array")
    ab = FACADE.abs(a)
    if ord in (None, 2):
        r = FACADE.sqrt(FACADE.sum(ab * ab, axis=axis, keepdims=keepdims))
    elif ord == 1:
        r = FACADE.sum(ab, axis=axis, keepdims=keepdims)
    elif ord == _np.inf:
        r = FACADE.max(ab, axis=axis, keepdims=keepdims)
    else:
        raise Unencodable(f"norm of a symbolic array with ord={ord!r}")
    return r


class _SubFacade:
    def __init__(self, mod, name):
        self._mod = mod
        self._name = name

    def __getattr__(self, name):
        if self._name == "numpy.linalg" and name == "inv":
            return _sym_inv
        if self._name == "numpy.linalg" and name == "norm":
            return _sym_norm
        attr = getattr(self._mod, name)
        if callable(attr) and not isinstance(attr, type):
            def r(*a, **kw):
                return fallback(attr, self._name + "." + name, a, kw)
            return r
        return attr


FACADE = Facade()


# --------------------------------------------------------------------------
# installation into the modules under test
# --------------------------------------------------------------------------
_SAVED = []


def install(extra_globals=None, modules_prefix="skactiveml"):
    """Rebind `np` (and the validator stubs) in every loaded skactiveml module
    (test modules excluded). Returns nothing; `uninstall()` restores."""
    from . import stubs
    import importlib
    for pkg in ("skactiveml", "skactiveml.utils", "skactiveml.base", "skactiveml.pool", "skactiveml.pool.utils",
                "skactiveml.pool.multiannotator", "skactiveml.stream", "skactiveml.stream.budgetmanager",
                "skactiveml.classifier", "skactiveml.classifier.multiannotator", "skactiveml.regressor"):
        importlib.import_module(pkg)

    repl = dict(stubs.GLOBAL_STUBS)
    if extra_globals:
        repl.update(extra_globals)
    for mname, mod in list(sys.modules.items()):
        if mod is None or not mname.startswith(modules_prefix) or ".tests" in mname:
            continue
        d = mod.__dict__
        if d.get("np") is _np:
            _SAVED.append((d, "np", _np))
            d["np"] = FACADE
        for k, v in repl.items():
            if k in d and d[k] is not v and not mname.endswith("__init__"):
                # only rebind names that were imported from sklearn / scipy / numpy
                orig = d[k]
                om = getattr(orig, "__module__", "") or ""
                if om.startswith(("sklearn", "scipy", "numpy", "joblib")) or k in stubs.FORCE:
                    _SAVED.append((d, k, orig))
                    d[k] = v


    for (mname, attr), v in stubs.MODULE_STUBS.items():
        mod = sys.modules.get(mname)
        if mod is not None and hasattr(mod, attr) and mod.__dict__[attr] is not v:
            _SAVED.append((mod.__dict__, attr, mod.__dict__[attr]))
            mod.__dict__[attr] = v


def uninstall():
    while _SAVED:
        d, k, v = _SAVED.pop()
        d[k] = v


def set_global_seed(expr):
    """(re)start the process-global generator of the current path from the given seed term"""
    c = core.ctx()
    GLOBAL_RNG._path = c
    GLOBAL_RNG._g = SymRandomState(expr)
    return GLOBAL_RNG._g
