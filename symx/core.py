"""SYMX core: path explorer (DFS by re-execution with a decision prefix) and
symbolic scalar values (SymBool / SymInt / SymFloat = extended real with
nan / +inf / -inf tags) over z3.

Design rules
* concrete operands never create symbolic objects (fast path, and it is what
  makes the differential "concrete mode" validation possible);
* bool(SymBool) and SymInt.__index__ FORK the path (both outcomes explored);
* __float__/__int__/__hash__ never silently concretise: Unencodable.
"""
from __future__ import annotations

import os

import itertools
import math
import time
from fractions import Fraction

import numpy as np
import z3


class Unencodable(Exception):
    """The code under test used a construct the engine does not model."""


class PathAbort(BaseException):
    """Internal: the current path is infeasible / was cut."""


class UnwindingBound(Exception):
    """A data dependent loop reached the unwinding bound."""


# --------------------------------------------------------------------------
# z3 helpers that accept python bools next to BoolRefs
# --------------------------------------------------------------------------
def _isc(b):
    t = type(b)
    return t is bool or t is np.bool_


def b_not(a):
    if _isc(a):
        return not bool(a)
    return z3.Not(a)


def b_and(*xs):
    out = []
    for x in xs:
        if _isc(x):
            if not x:
                return False
        else:
            out.append(x)
    if not out:
        return True
    if len(out) == 1:
        return out[0]
    return z3.And(*out)


def b_or(*xs):
    out = []
    for x in xs:
        if _isc(x):
            if x:
                return True
        else:
            out.append(x)
    if not out:
        return False
    if len(out) == 1:
        return out[0]
    return z3.Or(*out)


def b_ite(c, a, b):
    """ite over bools (python or z3)."""
    if _isc(c):
        return a if c else b
    if _isc(a) and _isc(b):
        if bool(a) == bool(b):
            return bool(a)
        return c if a else z3.Not(c)
    return z3.If(c, z3b(a), z3b(b))


def b_eq(a, b):
    if _isc(a) and _isc(b):
        return bool(a) == bool(b)
    if _isc(a):
        return b if a else z3.Not(b)
    if _isc(b):
        return a if b else z3.Not(a)
    return a == b


def z3b(b):
    if _isc(b):
        return z3.BoolVal(bool(b))
    return b


def r_ite(c, a, b):
    if _isc(c):
        return a if c else b
    return z3.If(c, a, b)


def realval(x):
    if isinstance(x, (int, np.integer)) and not isinstance(x, (bool, np.bool_)):
        return z3.RealVal(int(x))
    fr = Fraction(float(x))
    if fr.denominator > 2 ** 20:
        # a float literal / quotient such as 0.1 or (w-1)/w denotes the intended rational: use the
        # simplest fraction that rounds to the same double (ideal real semantics; rounding is outside the model)
        cand = fr.limit_denominator(10 ** 6)
        if abs(cand - fr) <= 4 * Fraction(math.ulp(float(x))):
            fr = cand
    if fr.denominator == 1:
        return z3.RealVal(fr.numerator)
    return z3.RealVal(f"{fr.numerator}/{fr.denominator}")


# --------------------------------------------------------------------------
# Context / explorer
# --------------------------------------------------------------------------
class Stats:
    def __init__(self):
        self.paths = 0
        self.aborted = 0
        self.queries = 0
        self.unsat = 0
        self.sat = 0
        self.unknown = 0
        self.solver_s = 0.0
        self.proved = 0
        self.obligations = 0
        self.witnesses = {}
        self.unknown_labels = []

    def merge(self, o):
        for k in ("paths", "aborted", "queries", "unsat", "sat", "unknown", "proved", "obligations"):
            setattr(self, k, getattr(self, k) + getattr(o, k))
        self.solver_s += o.solver_s
        for k, v in o.witnesses.items():
            self.witnesses[k] = self.witnesses.get(k, 0) + v
        self.unknown_labels += o.unknown_labels

    def as_dict(self):
        return dict(
            paths=self.paths, aborted_paths=self.aborted, solver_queries=self.queries,
            unsat=self.unsat, sat=self.sat, unknown=self.unknown,
            solver_s=round(self.solver_s, 3), obligations=self.obligations,
            proved=self.proved, witnesses=dict(self.witnesses),
            unknown_labels=self.unknown_labels[:20],
        )


class Counterexample:
    def __init__(self, label, model, info):
        self.label = label
        self.model = model
        self.info = info


class Ctx:
    """One path execution."""

    def __init__(self, prefix, stats, timeout_ms=20000, product_abstraction=False):
        self.prefix = list(prefix)
        self.pos = 0
        self.pending = []  # alternative prefixes discovered on this path
        self.solver = z3.Solver()
        self.solver.set("timeout", timeout_ms)
        self.timeout_ms = timeout_ms
        self.pc = []
        self.assumptions = []  # the subset of pc that are harness-level input assumptions
        self.collected = {}
        self.stats = stats
        self.product_abstraction = product_abstraction
        self.fresh = itertools.count()
        self.cex = []  # counterexamples found on this path
        self.inconclusive = []
        self.notes = []
        self.uf_axioms_done = set()
        self.trace = []  # decisions taken (for evidence samples)
        self.max_decisions = 4000

    # -- solver plumbing -------------------------------------------------
    def _check(self, *extra):
        t = time.time()
        self.solver.push()
        for e in extra:
            self.solver.add(e)
        _arm_watchdog(self.solver.ctx, self.timeout_ms / 1000.0 + 5.0)
        try:
            r = self.solver.check()
        finally:
            _WD["deadline"] = None
        self.stats.queries += 1
        model = None
        if r == z3.sat:
            self.stats.sat += 1
            model = self.solver.model()
        elif r == z3.unsat:
            self.stats.unsat += 1
        else:
            self.stats.unknown += 1
        if CROSS["budget"] > 0 and r != z3.unknown and self.stats.queries in CROSS["at"]:
            _cross_check(self.solver, str(r))
        self.solver.pop()
        self.stats.solver_s += time.time() - t
        return str(r), model

    def add(self, e):
        if _isc(e):
            if not e:
                raise PathAbort("false assumption")
            return
        self.pc.append(e)
        self.solver.add(e)

    def assume(self, e):
        """Add an assumption (harness-level precondition)."""
        if isinstance(e, SymBool):
            e = e.e
        if not _isc(e):
            self.assumptions.append(e)
        self.add(e)

    # -- decisions ---------------------------------------------------------
    def _record(self, v):
        self.trace.append(v)
        if len(self.trace) > self.max_decisions:
            raise Unencodable("decision budget exceeded on one path")

    def branch(self, e):
        """Fork on a z3 Bool. Returns a python bool."""
        if _isc(e):
            return bool(e)
        if self.pos < len(self.prefix):
            v = self.prefix[self.pos]
            self.pos += 1
            self.add(e if v else z3.Not(e))
            self._record(v)
            return v
        se = z3.simplify(e)
        if z3.is_true(se):
            v = True
            forced = True
        elif z3.is_false(se):
            v = False
            forced = True
        else:
            forced = False
            rt, _ = self._check(e)
            if rt == "unsat":
                v = False
                forced = True
            else:
                rf, _ = self._check(z3.Not(e))
                if rf == "unsat":
                    v = True
                    forced = True
                else:
                    v = True
                    if rt == "unknown" or rf == "unknown":
                        self.notes.append("unknown feasibility at a branch (both sides explored)")
        self.prefix.append(v)
        self.pos += 1
        if not forced:
            self.pending.append(self.prefix[:-1] + [False])
        self.add(e if v else z3.Not(e))
        self._record(v)
        return v

    def choose(self, options, what="choice"):
        """k-ary fork. options: list of (value, cond) ; cond z3 Bool / bool.
        Returns the chosen value. Values must be hashable & comparable by ==."""
        if self.pos < len(self.prefix):
            v = self.prefix[self.pos]
            self.pos += 1
            for val, cond in options:
                if _same(val, v):
                    self.add(cond)
                    self._record(v)
                    return val
            raise Unencodable(f"non-deterministic re-execution at {what}: {v!r} not among options")
        feas = []
        for val, cond in options:
            if _isc(cond):
                if cond:
                    feas.append((val, cond))
                continue
            r, _ = self._check(cond)
            if r != "unsat":
                feas.append((val, cond))
        if not feas:
            raise PathAbort(f"no feasible option at {what}")
        val, cond = feas[0]
        base = self.prefix[:]
        for oval, _ in feas[1:]:
            self.pending.append(base + [oval])
        self.prefix.append(val)
        self.pos += 1
        self.add(cond)
        self._record(val)
        return val

    def concretize_int(self, e, what="index", limit=64):
        """Fork over all feasible values of the z3 Int expression e."""
        if self.pos < len(self.prefix):
            v = self.prefix[self.pos]
            self.pos += 1
            self.add(e == v)
            self._record(v)
            return v
        se = z3.simplify(e)
        if z3.is_int_value(se):
            v = se.as_long()
            self.prefix.append(v)
            self.pos += 1
            self._record(v)
            return v
        vals = []
        t = time.time()
        self.solver.push()
        while len(vals) <= limit:
            r = self.solver.check()
            self.stats.queries += 1
            if r != z3.sat:
                if r == z3.unknown:
                    self.stats.unknown += 1
                    self.notes.append(f"unknown while enumerating values of {what}")
                else:
                    self.stats.unsat += 1
                break
            self.stats.sat += 1
            m = self.solver.model()
            v = m.eval(e, model_completion=True).as_long()
            vals.append(v)
            self.solver.add(e != v)
        self.solver.pop()
        self.stats.solver_s += time.time() - t
        if len(vals) > limit:
            raise Unencodable(f"more than {limit} feasible values for {what}")
        if not vals:
            raise PathAbort("no feasible value")
        vals.sort()
        base = self.prefix[:]
        for ov in vals[1:]:
            self.pending.append(base + [ov])
        v = vals[0]
        self.prefix.append(v)
        self.pos += 1
        self.add(e == v)
        self._record(v)
        return v

    # -- obligations -------------------------------------------------------
    def prove(self, prop, label, info=None):
        """Obligation: prop holds under the path condition. prop: SymBool / bool /
        z3 Bool."""
        if isinstance(prop, SymBool):
            prop = prop.e
        self.stats.obligations += 1
        if _isc(prop):
            if prop:
                self.stats.proved += 1
                return True
            # definitely violated on this (feasible) path: get a model of pc
            r, m = self._check()
            if r == "sat":
                self.cex.append(Counterexample(label, m, info))
            else:
                self.inconclusive.append(label)
                self.stats.unknown_labels.append(label)
            return False
        r, m = self._check(z3.Not(prop))
        if r == "unsat":
            self.stats.proved += 1
            return True
        if r == "sat":
            self.cex.append(Counterexample(label, m, info))
            return False
        self.inconclusive.append(label)
        self.stats.unknown_labels.append(label)
        return False

    def prove_with_tactic(self, prop, label, tactic="qfnra-nlsat", info=None, hints=()):
        """Obligation decided by a dedicated tactic solver over the path condition (nlsat decides the polynomial sign
        questions of the rounding-error model in milliseconds where the default combination answers unknown)."""
        if isinstance(prop, SymBool):
            prop = prop.e
        if _isc(prop):
            return self.prove(prop, label, info)
        self.stats.obligations += 1
        s = z3.Tactic(tactic).solver()
        s.set("timeout", self.timeout_ms)
        s.add(*self.pc)
        s.add(z3.Not(prop))
        t = time.time()
        _arm_watchdog(s.ctx, self.timeout_ms / 1000.0 + 5.0)
        try:
            r = s.check()
        finally:
            _WD["deadline"] = None
        self.stats.queries += 1
        self.stats.solver_s += time.time() - t
        if r == z3.unsat:
            self.stats.unsat += 1
            self.stats.proved += 1
            return True
        if r == z3.sat:
            self.stats.sat += 1
            self.cex.append(Counterexample(label, s.model(), info))
            return False
        # the tactic is quick at refuting; a model is searched with the default combination, first under the caller's
        # simplifying hints (extra equalities between inputs: any model found is a model of the original query)
        for h in hints:
            rh, mh = self._check(z3.Not(prop), h)
            if rh == "sat":
                self.cex.append(Counterexample(label, mh, info))
                return False
        r2, m2 = self._check(z3.Not(prop))
        if r2 == "sat":
            self.cex.append(Counterexample(label, m2, info))
            return False
        if r2 == "unsat":
            self.stats.proved += 1
            return True
        self.inconclusive.append(label)
        self.stats.unknown_labels.append(label)
        return False

    def witness(self, cond, label):
        """Reachability witness: is cond satisfiable on this path?"""
        if isinstance(cond, SymBool):
            cond = cond.e
        if _isc(cond):
            ok = bool(cond)
        else:
            r, _ = self._check(cond)
            ok = r == "sat"
        if ok:
            self.stats.witnesses[label] = self.stats.witnesses.get(label, 0) + 1
        else:
            self.stats.witnesses.setdefault(label, 0)
        return ok

    def model(self):
        r, m = self._check()
        return m if r == "sat" else None

    # -- fresh symbols -----------------------------------------------------
    def fresh_name(self, base):
        return f"{base}!{next(self.fresh)}"


# -- cross-solver sample (thorough tier): a few queries per worker are exported as SMT-LIB2 and re-decided by the system
#    z3 4.8.12 and the cvc5 binary; verdicts are tallied in CROSS["tally"] (agree / disagree / other solver unknown / error)
CROSS = dict(budget=0, at=(5, 40, 300, 2000), tally={}, disagreements=[])


def _cross_check(solver, verdict):
    import subprocess
    import tempfile
    CROSS["budget"] -= 1
    try:
        text = "(set-option :produce-models false)\n" + solver.to_smt2()
    except Exception:
        return
    with tempfile.NamedTemporaryFile("w", suffix=".smt2", delete=False) as f:
        f.write(text)
        path = f.name
    try:
        for name, cmd in (("z3-4.8.12", ["/usr/bin/z3", "-T:20", path]), ("cvc5", ["cvc5", "--tlimit=20000", path])):
            try:
                out = subprocess.run(cmd, capture_output=True, text=True, timeout=40).stdout
            except Exception:
                out = "error"
            first = ([ln.strip() for ln in out.splitlines() if ln.strip()] or ["error"])[0]
            if "(error" in out or first not in ("sat", "unsat", "unknown", "timeout"):
                key = f"{name}:error"
            elif first in ("unknown", "timeout"):
                key = f"{name}:unknown"
            elif first == verdict:
                key = f"{name}:agree"
            else:
                key = f"{name}:disagree"
                CROSS["disagreements"].append(f"{name} says {first}, z3 {z3.get_version_string()} says {verdict}")
            CROSS["tally"][key] = CROSS["tally"].get(key, 0) + 1
    finally:
        try:
            os.unlink(path)
        except OSError:
            pass


# -- watchdog: z3's own timeout is not always honoured inside nonlinear arithmetic; a per-process thread interrupts the
#    context when a query overruns its budget by 5 s (the query then answers unknown = inconclusive)
_WD = dict(deadline=None, ctx=None, pid=None)


def _watchdog_loop():
    while True:
        time.sleep(1.0)
        dl = _WD["deadline"]
        if dl is not None and time.time() > dl:
            _WD["deadline"] = None
            try:
                _WD["ctx"].interrupt()
            except Exception:
                pass


def _arm_watchdog(ctx, seconds):
    if _WD["pid"] != os.getpid():
        import threading
        _WD["pid"] = os.getpid()
        threading.Thread(target=_watchdog_loop, daemon=True).start()
    _WD["ctx"] = ctx
    _WD["deadline"] = time.time() + seconds


CTX: Ctx | None = None
REPO_PATH = None   # set by the harness layer: root of the repository under test


def _innermost_repo_frame(ex, machinery_ok=False):
    import traceback
    tb = traceback.extract_tb(ex.__traceback__)
    if not tb or REPO_PATH is None:
        return None
    last = tb[-1]
    root = REPO_PATH.rstrip("/") + "/"
    if last.filename.startswith(root):
        return f"{last.filename[len(root):]}:{last.lineno}"
    # numpy / python raising inside a repo statement (e.g. IndexError from indexing): innermost repo frame is the caller
    for fr in reversed(tb):
        if fr.filename.startswith(root):
            if any(x in (tb[-1].filename or "") for x in ("/verif/", "symx", "harness")):
                # raised inside a contract stub / the facade while executing a repo statement (e.g. the check_array stub
                # refusing an empty array): a candidate only - the replay on the real code decides whether the real
                # library raises the same exception type at a repo frame; otherwise it is reported as UNCONFIRMED
                if machinery_ok and isinstance(ex, (ValueError, TypeError, IndexError, KeyError, AttributeError,
                                                    ZeroDivisionError, UnboundLocalError, RuntimeError)):
                    return f"{fr.filename[len(root):]}:{fr.lineno} (via {os.path.basename(tb[-1].filename)}:{tb[-1].lineno})"
                return None
            return f"{fr.filename[len(root):]}:{fr.lineno}"
    return None


def ctx() -> Ctx:
    if CTX is None:
        raise Unencodable("symbolic value used outside an exploration")
    return CTX


def _same(a, b):
    try:
        return type(a) == type(b) and a == b
    except Exception:
        return False


class Explorer:
    """Runs fn() once per feasible path. fn is re-executed from scratch with
    a decision prefix; it must be deterministic given the decisions."""

    def __init__(self, timeout_ms=20000, max_paths=200000, product_abstraction=False,
                 deadline=None):
        self.timeout_ms = timeout_ms
        self.max_paths = max_paths
        self.product_abstraction = product_abstraction
        self.stats = Stats()
        self.cex = []
        self.inconclusive = []
        self.notes = []
        self.samples = []
        self.truncated = False
        self.unencodable = []
        self.deadline = deadline
        self.collected = {}

    def run(self, fn, first_cex_only=False):
        global CTX
        stack = [[]]
        while stack:
            if self.stats.paths + self.stats.aborted >= self.max_paths or (
                self.deadline and time.time() > self.deadline
            ):
                self.truncated = True
                break
            prefix = stack.pop()
            c = Ctx(prefix, self.stats, self.timeout_ms, self.product_abstraction)
            c.collected = self.collected
            CTX = c
            try:
                fn(c)
                self.stats.paths += 1
                if len(self.samples) < 3:
                    self.samples.append({"decisions": [repr(d) for d in c.trace[:40]],
                                         "path_condition_size": len(c.pc)})
            except PathAbort:
                self.stats.aborted += 1
            except Unencodable as ex:
                self.unencodable.append(str(ex))
                self.stats.aborted += 1
            except Exception as ex:
                # an exception raised BY THE CODE UNDER TEST on inputs the harness considers valid is a candidate
                # violation ("terminates / succeeds"); exceptions raised by the machinery itself propagate
                where = _innermost_repo_frame(ex, machinery_ok=True)
                if where is None or REPO_PATH is None:
                    CTX = None
                    raise
                c.prove(False, f"unexpected_exception:{type(ex).__name__}", info=dict(error=repr(ex)[:200], where=where))
                self.stats.paths += 1
            finally:
                CTX = None
            stack.extend(c.pending)
            self.cex.extend(c.cex)
            self.inconclusive.extend(c.inconclusive)
            for n in c.notes:
                if n not in self.notes:
                    self.notes.append(n)
            if first_cex_only and self.cex:
                break
        return self


# --------------------------------------------------------------------------
# Scalars
# --------------------------------------------------------------------------
class Sym:
    __slots__ = ()
    __array_ufunc__ = None  # numpy scalars defer to our reflected operators
    __array_priority__ = 1000

    def __hash__(self):
        raise Unencodable("hash of a symbolic value")

    def __float__(self):
        raise Unencodable("float() of a symbolic value")

    def __int__(self):
        raise Unencodable("int() of a symbolic value")

    def __format__(self, spec):
        return "<sym>"

    def __deepcopy__(self, memo):
        return self  # immutable

    def __copy__(self):
        return self

    def __repr__(self):
        return f"<{type(self).__name__}>"

    __str__ = __repr__


class SymBool(Sym):
    __slots__ = ("e",)

    def __init__(self, e):
        self.e = e

    @property
    def __class__(self):
        return bool_class_proxy

    def __bool__(self):
        return ctx().branch(self.e)

    def __invert__(self):
        return mkbool(z3.Not(self.e))

    def __and__(self, o):
        if is_boolish(o):
            return mkbool(b_and(self.e, boolexpr(o)))
        return NotImplemented

    __rand__ = __and__

    def __or__(self, o):
        if is_boolish(o):
            return mkbool(b_or(self.e, boolexpr(o)))
        return NotImplemented

    __ror__ = __or__

    def __xor__(self, o):
        if is_boolish(o):
            return mkbool(b_not(b_eq(self.e, boolexpr(o))))
        return NotImplemented

    __rxor__ = __xor__

    def __eq__(self, o):
        if is_boolish(o):
            return mkbool(b_eq(self.e, boolexpr(o)))
        return s_eq(self, o)

    def __ne__(self, o):
        if is_boolish(o):
            return mkbool(b_not(b_eq(self.e, boolexpr(o))))
        return s_ne(self, o)

    __hash__ = Sym.__hash__

    # arithmetic: bool behaves as 0/1 integer
    def _asint(self):
        return SymInt(z3.If(self.e, z3.IntVal(1), z3.IntVal(0)))

    def __add__(self, o):
        return s_add(self, o)

    def __radd__(self, o):
        return s_add(o, self)

    def __sub__(self, o):
        return s_sub(self, o)

    def __rsub__(self, o):
        return s_sub(o, self)

    def __mul__(self, o):
        return s_mul(self, o)

    def __rmul__(self, o):
        return s_mul(o, self)

    def __truediv__(self, o):
        return s_div(self, o)

    def __rtruediv__(self, o):
        return s_div(o, self)

    def __neg__(self):
        return s_neg(self)

    def __lt__(self, o):
        return s_lt(self, o)

    def __le__(self, o):
        return s_le(self, o)

    def __gt__(self, o):
        return s_lt(o, self)

    def __ge__(self, o):
        return s_le(o, self)

    def __index__(self):
        return int(bool(self))

    def __int__(self):
        return int(bool(self))


bool_class_proxy = bool  # isinstance(symbool, bool) -> True via __class__


class SymInt(Sym):
    __slots__ = ("e",)

    def __init__(self, e):
        self.e = e

    @property
    def __class__(self):
        return int

    def __index__(self):
        return ctx().concretize_int(self.e)

    def __int__(self):
        return ctx().concretize_int(self.e)      # fork over the feasible values

    def __bool__(self):
        return ctx().branch(self.e != 0)

    def __add__(self, o):
        return s_add(self, o)

    def __radd__(self, o):
        return s_add(o, self)

    def __sub__(self, o):
        return s_sub(self, o)

    def __rsub__(self, o):
        return s_sub(o, self)

    def __mul__(self, o):
        return s_mul(self, o)

    def __rmul__(self, o):
        return s_mul(o, self)

    def __truediv__(self, o):
        return s_div(self, o)

    def __rtruediv__(self, o):
        return s_div(o, self)

    def __floordiv__(self, o):
        return s_floordiv(self, o)

    def __rfloordiv__(self, o):
        return s_floordiv(o, self)

    def __mod__(self, o):
        return s_mod(self, o)

    def __rmod__(self, o):
        return s_mod(o, self)

    def __neg__(self):
        return s_neg(self)

    def __pos__(self):
        return self

    def __abs__(self):
        return s_abs(self)

    def __eq__(self, o):
        return s_eq(self, o)

    def __ne__(self, o):
        return s_ne(self, o)

    __hash__ = Sym.__hash__

    def __lt__(self, o):
        return s_lt(self, o)

    def __le__(self, o):
        return s_le(self, o)

    def __gt__(self, o):
        return s_lt(o, self)

    def __ge__(self, o):
        return s_le(o, self)

    def __pow__(self, o):
        return s_pow(self, o)


INT_FORK_LIMIT = 8


class SymFloat(Sym):
    """Extended real: finite payload r (z3 Real) unless one of the mutually
    exclusive tags nan / pinf / ninf holds (python bool or z3 Bool)."""

    __slots__ = ("r", "nan", "pinf", "ninf")

    def __init__(self, r, nan=False, pinf=False, ninf=False):
        self.r = r
        self.nan = nan
        self.pinf = pinf
        self.ninf = ninf

    @property
    def __class__(self):
        return float

    def fin(self):
        return b_and(b_not(self.nan), b_not(self.pinf), b_not(self.ninf))

    def inf(self):
        return b_or(self.pinf, self.ninf)

    def neg(self):
        return b_or(self.ninf, b_and(self.fin(), self.r < 0))

    def zero(self):
        return b_and(self.fin(), self.r == 0)

    def __int__(self):
        """int(x): truncation towards zero, by forking over the feasible integer values (Python raises for NaN / inf).
        When more than INT_FORK_LIMIT values are feasible the exploration is restricted to the values of smallest
        magnitude and the path is marked inconclusive (bug hunting only on such a path)."""
        c = ctx()
        if c.branch(z3b(self.nan)):
            raise ValueError("cannot convert float NaN to integer")
        if c.branch(z3b(b_or(self.pinf, self.ninf))):
            raise OverflowError("cannot convert float infinity to integer")
        k = z3.If(self.r >= 0, z3.ToInt(self.r), -z3.ToInt(-self.r))
        try:
            return c.concretize_int(k, what="int(float)", limit=INT_FORK_LIMIT)
        except Unencodable:
            c.inconclusive.append(f"int(float) with more than {INT_FORK_LIMIT} feasible values: restricted to |value| <= {INT_FORK_LIMIT // 2}")
            c.add(z3.And(k >= -(INT_FORK_LIMIT // 2), k <= INT_FORK_LIMIT // 2))
            return c.concretize_int(k, what="int(float)", limit=INT_FORK_LIMIT + 1)

    def __bool__(self):
        return ctx().branch(b_not(self.zero()))

    def __add__(self, o):
        return s_add(self, o)

    def __radd__(self, o):
        return s_add(o, self)

    def __sub__(self, o):
        return s_sub(self, o)

    def __rsub__(self, o):
        return s_sub(o, self)

    def __mul__(self, o):
        return s_mul(self, o)

    def __rmul__(self, o):
        return s_mul(o, self)

    def __truediv__(self, o):
        return s_div(self, o)

    def __rtruediv__(self, o):
        return s_div(o, self)

    def __neg__(self):
        return s_neg(self)

    def __pos__(self):
        return self

    def __abs__(self):
        return s_abs(self)

    def __eq__(self, o):
        return s_eq(self, o)

    def __ne__(self, o):
        return s_ne(self, o)

    __hash__ = Sym.__hash__

    def __lt__(self, o):
        return s_lt(self, o)

    def __le__(self, o):
        return s_le(self, o)

    def __gt__(self, o):
        return s_lt(o, self)

    def __ge__(self, o):
        return s_le(o, self)

    def __pow__(self, o):
        return s_pow(self, o)

    def __rpow__(self, o):
        return s_pow(o, self)


# --------------------------------------------------------------------------
# classification / lifting
# --------------------------------------------------------------------------
def is_sym(x):
    return isinstance(x, Sym) and type(x) in (SymBool, SymInt, SymFloat)


def _t(x):
    return type(x)


def is_boolish(x):
    t = _t(x)
    return t is SymBool or t is bool or t is np.bool_


def is_intish(x):
    t = _t(x)
    return t is SymInt or (issubclass(t, (int, np.integer)) and t is not bool)


def is_floatish(x):
    t = _t(x)
    return t is SymFloat or issubclass(t, (float, np.floating))


def is_numeric(x):
    return is_boolish(x) or is_intish(x) or is_floatish(x)


def boolexpr(x):
    if _t(x) is SymBool:
        return x.e
    return bool(x)


def mkbool(e):
    if _isc(e):
        return bool(e)
    if z3.is_true(e):
        return True
    if z3.is_false(e):
        return False
    return SymBool(e)


def mkint(e):
    if isinstance(e, int):
        return e
    if z3.is_int_value(e):
        return e.as_long()
    return SymInt(e)


def mkfloat(r, nan=False, pinf=False, ninf=False):
    nan = _cb(nan)
    pinf = _cb(pinf)
    ninf = _cb(ninf)
    if _isc(nan) and _isc(pinf) and _isc(ninf):
        if nan:
            return np.float64("nan")
        if pinf:
            return np.float64("inf")
        if ninf:
            return np.float64("-inf")
        if z3.is_rational_value(r):
            fr = Fraction(r.numerator_as_long(), r.denominator_as_long())
            f = float(fr)
            if Fraction(f) == fr:
                return np.float64(f)
    return SymFloat(r, nan, pinf, ninf)


def _cb(b):
    if _isc(b):
        return bool(b)
    if z3.is_true(b):
        return True
    if z3.is_false(b):
        return False
    return b


def intexpr(x):
    """z3 Int expression of an int-ish / bool-ish value."""
    t = _t(x)
    if t is SymInt:
        return x.e
    if t is SymBool:
        return z3.If(x.e, z3.IntVal(1), z3.IntVal(0))
    return z3.IntVal(int(x))


def lift(x):
    """Any numeric scalar -> SymFloat (never concrete-folded)."""
    t = _t(x)
    if t is SymFloat:
        return x
    if t is SymInt:
        return SymFloat(z3.ToReal(x.e))
    if t is SymBool:
        return SymFloat(z3.If(x.e, z3.RealVal(1), z3.RealVal(0)))
    if is_boolish(x) or is_intish(x):
        return SymFloat(z3.RealVal(int(x)))
    f = float(x)
    if math.isnan(f):
        return SymFloat(z3.RealVal(0), True, False, False)
    if math.isinf(f):
        return SymFloat(z3.RealVal(0), False, f > 0, f < 0)
    return SymFloat(realval(f))


def tofloat(x):
    """numeric scalar -> float-ish scalar (concrete np.float64 or SymFloat)."""
    t = _t(x)
    if t is SymFloat:
        return x
    if t is SymInt or t is SymBool:
        return lift(x)
    return np.float64(x)


def f_ite(c, a, b):
    """ite over float-ish scalars, c: python bool or z3 Bool."""
    if _isc(c):
        return a if c else b
    a = lift(a)
    b = lift(b)
    return mkfloat(
        z3.If(c, a.r, b.r),
        b_ite(c, a.nan, b.nan),
        b_ite(c, a.pinf, b.pinf),
        b_ite(c, a.ninf, b.ninf),
    )


def i_ite(c, a, b):
    if _isc(c):
        return a if c else b
    return mkint(z3.If(c, intexpr(a), intexpr(b)))


def s_ite(c, a, b):
    """Generic scalar ite. c may be SymBool / bool."""
    c = boolexpr(c)
    if _isc(c):
        return a if c else b
    if is_boolish(a) and is_boolish(b):
        return mkbool(b_ite(c, boolexpr(a), boolexpr(b)))
    if (is_intish(a) or is_boolish(a)) and (is_intish(b) or is_boolish(b)):
        return i_ite(c, a, b)
    if is_numeric(a) and is_numeric(b):
        return f_ite(c, a, b)
    if not is_sym(a) and not is_sym(b):
        try:
            if a == b:
                return a
        except Exception:
            pass
    raise Unencodable(f"ite over {type(a).__name__}/{type(b).__name__}")


# --------------------------------------------------------------------------
# arithmetic
# --------------------------------------------------------------------------
def _anysym(a, b):
    return isinstance(a, Sym) or isinstance(b, Sym)


def _np(x):
    """concrete scalar with numpy semantics"""
    if isinstance(x, (bool, np.bool_)):
        return np.bool_(x)
    if isinstance(x, (int, np.integer)):
        return np.int64(x)
    if isinstance(x, (float, np.floating)):
        return np.float64(x)
    return x


def _conc(op, a, b):
    with np.errstate(all="ignore"):
        r = op(_np(a), _np(b))
    return _py(r)


def _py(r):
    if isinstance(r, np.bool_):
        return bool(r)
    if isinstance(r, np.integer):
        return int(r)
    if isinstance(r, np.floating):
        return np.float64(r)
    return r


def _bothint(a, b):
    return (is_intish(a) or is_boolish(a)) and (is_intish(b) or is_boolish(b))


# -- standard model of floating-point arithmetic (opt-in per path: CTX.rounding_eps = z3 rational) -------------------
#    every float operation returns exact_result * (1 + delta) with a fresh |delta| <= eps. This is an over-approximation of
#    IEEE rounding (absent overflow / underflow) under which sign / cancellation defects become visible to the real-
#    arithmetic solver: a two-pass variance stays >= 0 for all deltas, a one-pass variance does not.
def _rounded(r):
    c = CTX
    eps = getattr(c, "rounding_eps", None) if c is not None else None
    if eps is None or z3.is_rational_value(z3.simplify(r)):
        return r
    d = z3.Real(c.fresh_name("fl_delta"))
    c.add(z3.And(d >= -eps, d <= eps))
    return r * (1 + d)


def s_add(a, b):
    if not (is_numeric(a) and is_numeric(b)):
        return NotImplemented
    if not _anysym(a, b):
        return _conc(np.add, a, b)
    if _bothint(a, b):
        return mkint(intexpr(a) + intexpr(b))
    a = lift(a)
    b = lift(b)
    nan = b_or(a.nan, b.nan, b_and(a.pinf, b.ninf), b_and(a.ninf, b.pinf))
    return mkfloat(
        _rounded(a.r + b.r),
        nan,
        b_and(b_not(nan), b_or(a.pinf, b.pinf)),
        b_and(b_not(nan), b_or(a.ninf, b.ninf)),
    )


def s_neg(a):
    if not isinstance(a, Sym):
        return -a
    if is_intish(a) or is_boolish(a):
        return mkint(-intexpr(a))
    return mkfloat(-a.r, a.nan, a.ninf, a.pinf)


def s_sub(a, b):
    if not (is_numeric(a) and is_numeric(b)):
        return NotImplemented
    if not _anysym(a, b):
        if is_boolish(a) and is_boolish(b):
            raise TypeError("numpy boolean subtract, the `-` operator, is not supported")
        return _conc(np.subtract, a, b)
    if _bothint(a, b):
        return mkint(intexpr(a) - intexpr(b))
    return s_add(lift(a), s_neg(lift(b)))


_MUL = z3.Function("mul", z3.RealSort(), z3.RealSort(), z3.RealSort())


def _rmul(x, y):
    """product of two z3 reals; abstracted as UF when both are non-constant
    and the product abstraction is switched on."""
    c = CTX
    if c is not None and c.product_abstraction:
        xs, ys = z3.simplify(x), z3.simplify(y)
        if not z3.is_rational_value(xs) and not z3.is_rational_value(ys):
            # canonical argument order => commutativity for free
            if xs.get_id() > ys.get_id():
                xs, ys = ys, xs
            t = _MUL(xs, ys)
            key = t.get_id()
            if key not in c.uf_axioms_done:
                c.uf_axioms_done.add(key)
                # sign axioms
                c.add(z3.And(
                    z3.Implies(z3.Or(xs == 0, ys == 0), t == 0),
                    z3.Implies(z3.Or(z3.And(xs > 0, ys > 0), z3.And(xs < 0, ys < 0)), t > 0),
                    z3.Implies(z3.Or(z3.And(xs > 0, ys < 0), z3.And(xs < 0, ys > 0)), t < 0),
                ))
            return t
    return x * y


def s_mul(a, b):
    if not (is_numeric(a) and is_numeric(b)):
        return NotImplemented
    if not _anysym(a, b):
        return _conc(np.multiply, a, b)
    # bool factor => ite (keeps arithmetic linear)
    if is_boolish(a) and is_boolish(b):
        return mkbool(b_and(boolexpr(a), boolexpr(b)))
    if is_boolish(b):
        a, b = b, a
    if is_boolish(a):
        c = boolexpr(a)
        if is_intish(b):
            return i_ite(c, b, 0)
        # float * bool : 0*inf = nan, 0*nan = nan in IEEE; keep that
        bl = lift(b)
        zero_side = mkfloat(z3.RealVal(0), b_or(bl.nan, bl.inf()), False, False)
        return f_ite(c, b, zero_side)
    if _bothint(a, b):
        return mkint(intexpr(a) * intexpr(b))
    a = lift(a)
    b = lift(b)
    nan = b_or(a.nan, b.nan, b_and(a.inf(), b.zero()), b_and(b.inf(), a.zero()))
    anyinf = b_or(a.inf(), b.inf())
    sameneg = b_eq(a.neg(), b.neg())
    return mkfloat(
        _rounded(_rmul(a.r, b.r)),
        nan,
        b_and(b_not(nan), anyinf, sameneg),
        b_and(b_not(nan), anyinf, b_not(sameneg)),
    )


def s_div(a, b):
    if not (is_numeric(a) and is_numeric(b)):
        return NotImplemented
    if not _anysym(a, b):
        return _conc(np.true_divide, a, b)
    a = lift(a)
    b = lift(b)
    if CTX is not None and getattr(CTX, "assume_nonzero_div", False) and not z3.is_rational_value(z3.simplify(b.r)):
        CTX.assume(b.r != 0)        # stated assumption of the harness: symbolic divisors are non-zero
    bz = b.zero()
    az = a.zero()
    nan = b_or(a.nan, b.nan, b_and(a.inf(), b.inf()), b_and(az, bz))
    toinf = b_or(b_and(a.inf(), b.fin()), b_and(a.fin(), b_not(az), bz))
    # sign of a zero divisor is taken as +0 (signed zeros are outside the model)
    sameneg = b_eq(a.neg(), b.neg())
    bs = z3.simplify(b.r)
    if z3.is_rational_value(bs):
        if bs.numerator_as_long() == 0:
            q = z3.RealVal(0)
        else:
            q = a.r * z3.RealVal(f"{bs.denominator_as_long()}/{bs.numerator_as_long()}")
    else:
        c = CTX
        if c is not None and c.product_abstraction and not z3.is_rational_value(z3.simplify(a.r)):
            q = _DIV(a.r, b.r)
            key = ("div", q.get_id())
            if key not in c.uf_axioms_done:
                c.uf_axioms_done.add(key)
                x, y = a.r, b.r
                c.add(z3.And(
                    z3.Implies(z3.And(x == 0, y != 0), q == 0),
                    z3.Implies(z3.Or(z3.And(x > 0, y > 0), z3.And(x < 0, y < 0)), q > 0),
                    z3.Implies(z3.Or(z3.And(x > 0, y < 0), z3.And(x < 0, y > 0)), q < 0),
                    z3.Implies(z3.And(x == y, y != 0), q == 1),
                ))
        else:
            q = a.r / r_ite(b_not(bz) if not _isc(bz) else (not bz), b.r, z3.RealVal(1)) if not (_isc(bz) and bz) else z3.RealVal(0)
    q = r_ite(b.inf(), z3.RealVal(0), _rounded(q))
    return mkfloat(
        q,
        nan,
        b_and(b_not(nan), toinf, sameneg),
        b_and(b_not(nan), toinf, b_not(sameneg)),
    )


_DIV = z3.Function("div", z3.RealSort(), z3.RealSort(), z3.RealSort())


def s_floordiv(a, b):
    if not _anysym(a, b):
        return _conc(np.floor_divide, a, b)
    if _bothint(a, b):
        # python floor division == z3 div for positive divisor
        be = intexpr(b)
        bs = z3.simplify(be)
        if z3.is_int_value(bs) and bs.as_long() > 0:
            return mkint(intexpr(a) / be)
    raise Unencodable("floor division")


def s_mod(a, b):
    if not _anysym(a, b):
        return _conc(np.mod, a, b)
    if _bothint(a, b):
        be = z3.simplify(intexpr(b))
        if z3.is_int_value(be) and be.as_long() > 0:
            return mkint(intexpr(a) % be)
    raise Unencodable("modulo")


def s_abs(a):
    if not isinstance(a, Sym):
        return abs(a)
    if is_intish(a) or is_boolish(a):
        e = intexpr(a)
        return mkint(z3.If(e < 0, -e, e))
    return mkfloat(z3.If(a.r < 0, -a.r, a.r), a.nan, b_or(a.pinf, a.ninf), False)


def s_pow(a, b):
    if not _anysym(a, b):
        return _conc(np.power, a, b)
    if not isinstance(b, Sym) and np.isfinite(float(b)) and float(b) == int(b) and 0 <= int(b) <= 4:
        n = int(b)
        if n == 0:
            return 1 if _bothint(a, b) else np.float64(1.0)
        r = a
        for _ in range(n - 1):
            r = s_mul(r, a)
        return r
    if not isinstance(b, Sym) and float(b) == 0.5:
        return s_sqrt(a)
    return _pow_general(a, b)


_POW = z3.Function("pow", z3.RealSort(), z3.RealSort(), z3.RealSort())


def _pow_general(a, b):
    """a ** b for a non-negative base and an arbitrary (possibly infinite)
    exponent, as numpy computes it over the extended reals.  The finite,
    positive-base case is an uninterpreted function constrained by the sign /
    monotonicity facts of real exponentiation; negative bases are refused."""
    if not isinstance(b, Sym):
        b = np.float64(b)
    if not isinstance(a, Sym):
        a = np.float64(a)
    one = np.float64(1.0)
    if s_eq(b, 0) or s_eq(a, 1):
        return one
    if s_isnan(a) or s_isnan(b):
        return np.float64(np.nan)
    if not s_le(0, a):
        raise Unencodable("power with a negative base")
    a_inf = bool(s_eq(a, np.inf))
    if bool(s_eq(b, np.inf)):
        return np.float64(0.0) if s_lt(a, 1) else np.float64(np.inf)
    if bool(s_eq(b, -np.inf)):
        return np.float64(np.inf) if s_lt(a, 1) else np.float64(0.0)
    pos = bool(s_lt(0, b))
    if a_inf:
        return np.float64(np.inf) if pos else np.float64(0.0)
    if s_eq(a, 0):
        return np.float64(0.0) if pos else np.float64(np.inf)
    la = lift(a)
    lb = lift(b)
    t = _POW(la.r, lb.r)
    _axiom_once(t, z3.And(
        t > 0,
        z3.Implies(z3.And(la.r < 1, lb.r > 0), t < 1), z3.Implies(z3.And(la.r > 1, lb.r > 0), t > 1),
        z3.Implies(z3.And(la.r < 1, lb.r < 0), t > 1), z3.Implies(z3.And(la.r > 1, lb.r < 0), t < 1),
        z3.Implies(lb.r == 1, t == la.r)))
    return mkfloat(t, False, False, False)


# comparisons --------------------------------------------------------------
def _cmpable(a, b):
    return is_numeric(a) and is_numeric(b)


def s_lt(a, b):
    if not _cmpable(a, b):
        return NotImplemented
    if not _anysym(a, b):
        return _conc(np.less, a, b)
    if _bothint(a, b):
        return mkbool(intexpr(a) < intexpr(b))
    a = lift(a)
    b = lift(b)
    return mkbool(b_and(
        b_not(a.nan), b_not(b.nan),
        b_or(
            b_and(a.ninf, b_not(b.ninf)),
            b_and(b.pinf, b_not(a.pinf)),
            b_and(a.fin(), b.fin(), a.r < b.r),
        ),
    ))


def _eqexpr(a, b):
    a = lift(a)
    b = lift(b)
    return b_and(
        b_not(a.nan), b_not(b.nan),
        b_or(
            b_and(a.pinf, b.pinf),
            b_and(a.ninf, b.ninf),
            b_and(a.fin(), b.fin(), a.r == b.r),
        ),
    )


def s_eq(a, b):
    if not _cmpable(a, b):
        if not _anysym(a, b):
            return a == b
        return False  # symbolic number vs non-number (None, str): never equal
    if not _anysym(a, b):
        return _conc(np.equal, a, b)
    if is_boolish(a) and is_boolish(b):
        return mkbool(b_eq(boolexpr(a), boolexpr(b)))
    if _bothint(a, b):
        return mkbool(intexpr(a) == intexpr(b))
    return mkbool(_eqexpr(a, b))


def s_ne(a, b):
    r = s_eq(a, b)
    if isinstance(r, SymBool):
        return mkbool(z3.Not(r.e))
    return not r


def s_le(a, b):
    if not _cmpable(a, b):
        return NotImplemented
    if not _anysym(a, b):
        return _conc(np.less_equal, a, b)
    if _bothint(a, b):
        return mkbool(intexpr(a) <= intexpr(b))
    lt = s_lt(a, b)
    eq = s_eq(a, b)
    return mkbool(b_or(boolexpr(lt), boolexpr(eq)))


def s_isnan(a):
    if _t(a) is SymFloat:
        return mkbool(a.nan)
    if isinstance(a, Sym):
        return False
    if isinstance(a, (float, np.floating)):
        return bool(np.isnan(a))
    if isinstance(a, (int, np.integer, bool, np.bool_)):
        return False
    raise TypeError("ufunc 'isnan' not supported for the input types")


def s_isinf(a):
    if _t(a) is SymFloat:
        return mkbool(a.inf())
    if isinstance(a, Sym):
        return False
    return bool(np.isinf(a))


def s_isfinite(a):
    if _t(a) is SymFloat:
        return mkbool(a.fin())
    if isinstance(a, Sym):
        return True
    return bool(np.isfinite(a))


def s_max(a, b):
    """np.maximum semantics (NaN propagates)."""
    if not _anysym(a, b):
        return _conc(np.maximum, a, b)
    if _bothint(a, b):
        return i_ite(boolexpr(s_lt(a, b)), b, a)
    a = lift(a)
    b = lift(b)
    nan = b_or(a.nan, b.nan)
    r = f_ite(boolexpr(s_lt(a, b)), b, a)
    return f_ite(nan, np.float64("nan"), r)


def s_min(a, b):
    if not _anysym(a, b):
        return _conc(np.minimum, a, b)
    if _bothint(a, b):
        return i_ite(boolexpr(s_lt(b, a)), b, a)
    a = lift(a)
    b = lift(b)
    nan = b_or(a.nan, b.nan)
    r = f_ite(boolexpr(s_lt(b, a)), b, a)
    return f_ite(nan, np.float64("nan"), r)


def s_fmax(a, b):
    """NaN-ignoring maximum (np.fmax / nanmax step)."""
    if not _anysym(a, b):
        return _conc(np.fmax, a, b)
    a = tofloat(a)
    b = tofloat(b)
    an = boolexpr(s_isnan(a))
    bn = boolexpr(s_isnan(b))
    return f_ite(an, b, f_ite(bn, a, f_ite(boolexpr(s_lt(a, b)), b, a)))


def s_fmin(a, b):
    if not _anysym(a, b):
        return _conc(np.fmin, a, b)
    a = tofloat(a)
    b = tofloat(b)
    an = boolexpr(s_isnan(a))
    bn = boolexpr(s_isnan(b))
    return f_ite(an, b, f_ite(bn, a, f_ite(boolexpr(s_lt(b, a)), b, a)))


# uninterpreted transcendental functions ------------------------------------
_LOG = z3.Function("log", z3.RealSort(), z3.RealSort())
_EXP = z3.Function("exp", z3.RealSort(), z3.RealSort())
_SQRT = z3.Function("sqrt", z3.RealSort(), z3.RealSort())


def _axiom_once(t, ax):
    c = ctx()
    k = t.get_id()
    if k not in c.uf_axioms_done:
        c.uf_axioms_done.add(k)
        c.add(ax)


def s_log(a):
    if not isinstance(a, Sym):
        with np.errstate(all="ignore"):
            return np.float64(np.log(np.float64(a)))
    a = lift(a)
    t = _LOG(a.r)
    # log: sign relative to 1, log(1) = 0
    _axiom_once(t, z3.And(z3.Implies(a.r > 1, t > 0), z3.Implies(a.r == 1, t == 0),
                          z3.Implies(z3.And(a.r > 0, a.r < 1), t < 0)))
    neg = b_and(a.fin(), a.r < 0)
    zero = a.zero()
    return mkfloat(t, b_or(a.nan, neg, a.ninf), a.pinf, zero)


def s_exp(a):
    if not isinstance(a, Sym):
        with np.errstate(all="ignore"):
            return np.float64(np.exp(np.float64(a)))
    a = lift(a)
    t = _EXP(a.r)
    _axiom_once(t, z3.And(t > 0, z3.Implies(a.r == 0, t == 1), z3.Implies(a.r > 0, t > 1),
                          z3.Implies(a.r < 0, t < 1)))
    return mkfloat(r_ite(a.ninf, z3.RealVal(0), t), a.nan, a.pinf, False)


def s_sqrt(a):
    if not isinstance(a, Sym):
        with np.errstate(all="ignore"):
            return np.float64(np.sqrt(np.float64(a)))
    a = lift(a)
    t = _SQRT(a.r)
    _axiom_once(t, z3.And(z3.Implies(a.r >= 0, t >= 0), z3.Implies(a.r == 0, t == 0),
                          z3.Implies(a.r > 0, t > 0)))
    return mkfloat(t, b_or(a.nan, a.ninf, b_and(a.fin(), a.r < 0)), a.pinf, False)


# --------------------------------------------------------------------------
# fresh symbolic inputs
# --------------------------------------------------------------------------
def fresh_float(name, nan=False, inf=False):
    """A symbolic float input. nan / inf: whether those values are allowed."""
    r = z3.Real(name)
    n = z3.Bool(name + "?nan") if nan else False
    if inf:
        p = z3.Bool(name + "?pinf")
        m = z3.Bool(name + "?ninf")
        c = ctx()
        c.assume(z3.And(z3.Not(z3.And(p, m)),
                        z3.Not(z3.And(z3b(n), p)), z3.Not(z3.And(z3b(n), m))))
    else:
        p = m = False
    return SymFloat(r, n, p, m)


def fresh_int(name, lo=None, hi=None):
    e = z3.Int(name)
    c = ctx()
    if lo is not None:
        c.assume(e >= lo)
    if hi is not None:
        c.assume(e <= hi)
    return SymInt(e)


def fresh_bool(name):
    return SymBool(z3.Bool(name))


# model evaluation ----------------------------------------------------------
def model_value(m, x):
    """Concrete python value of a (possibly symbolic) scalar under model m."""
    t = _t(x)
    if t is SymBool:
        return bool(z3.is_true(m.eval(x.e, model_completion=True)))
    if t is SymInt:
        return m.eval(x.e, model_completion=True).as_long()
    if t is SymFloat:
        def ev(b):
            if _isc(b):
                return bool(b)
            return z3.is_true(m.eval(b, model_completion=True))
        if ev(x.nan):
            return float("nan")
        if ev(x.pinf):
            return float("inf")
        if ev(x.ninf):
            return float("-inf")
        v = m.eval(x.r, model_completion=True)
        if z3.is_rational_value(v):
            return float(Fraction(v.numerator_as_long(), v.denominator_as_long()))
        if z3.is_algebraic_value(v):
            a = v.approx(20)
            return float(Fraction(a.numerator_as_long(), a.denominator_as_long()))
        raise Unencodable(f"cannot evaluate {v}")
    if isinstance(x, np.generic):
        return x.item()
    return x


def model_fraction(m, x):
    """Exact Fraction of a finite SymFloat / SymInt under model m (None if tagged)."""
    if _t(x) is SymFloat:
        v = m.eval(x.r, model_completion=True)
        if z3.is_rational_value(v):
            return Fraction(v.numerator_as_long(), v.denominator_as_long())
        return None
    if _t(x) is SymInt:
        return Fraction(m.eval(x.e, model_completion=True).as_long())
    return Fraction(x)


def exactify(e, _memo=None):
    """replace the abstraction functions mul / div by the real product / quotient (used to search for a genuine
    model after a counterexample was found under the product abstraction)"""
    memo = {} if _memo is None else _memo

    def go(x):
        i = x.get_id()
        if i in memo:
            return memo[i]
        if z3.is_app(x) and x.num_args() > 0:
            ch = [go(c) for c in x.children()]
            d = x.decl()
            if d.eq(_MUL):
                r = ch[0] * ch[1]
            elif d.eq(_DIV):
                r = ch[0] / ch[1]
            else:
                r = d(*ch)
        elif z3.is_quantifier(x):
            r = x
        else:
            r = x
        memo[i] = r
        return r
    return go(e)
