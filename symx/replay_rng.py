"""Scripted RandomState for replaying a solver model on the UNPATCHED code:
draws are looked up in the table extracted from the model, keyed exactly like
the symbolic generator (seed, history of draw kinds, position); misses fall back
to the real Mersenne Twister."""
from __future__ import annotations

import contextlib
import operator

import numpy as np

_REAL = np.random.RandomState
_TABLE = {}


def _key(seed, hist, i, kind):
    return (int(seed), tuple((k, int(n)) for k, n in hist), int(i), kind)


class ScriptedRandomState(_REAL):
    def __init__(self, seed=None):
        if isinstance(seed, ScriptedRandomState):
            seed = seed._seed
        super().__init__(seed if seed is not None else 0)
        self._seed = 0 if seed is None else int(seed)
        self._hist = ()

    def get_state(self, legacy=True):
        return ("scripted", self._seed, self._hist, _REAL.get_state(self))

    def set_state(self, st):
        if isinstance(st, tuple) and st and st[0] == "scripted":
            self._seed, self._hist = st[1], st[2]
            _REAL.set_state(self, st[3])
        else:
            _REAL.set_state(self, st)

    def __deepcopy__(self, memo):
        r = ScriptedRandomState(self._seed)
        r.set_state(self.get_state())
        return r

    def __reduce__(self):
        return (ScriptedRandomState, (self._seed,))

    def _take(self, kind, size, real):
        if size is None:
            n, shp = 1, None
        elif isinstance(size, (int, np.integer)):
            n, shp = int(size), (int(size),)
        else:
            shp = tuple(int(s) for s in size)
            n = int(np.prod(shp)) if shp else 1
        vals = np.asarray(real, dtype=float).reshape(-1).copy() if n else np.zeros(0)
        if self._hist and self._hist[-1][0] == kind:
            prefix, start = self._hist[:-1], self._hist[-1][1]
        else:
            prefix, start = self._hist, 0
        for i in range(n):
            k = _key(self._seed, prefix, start + i, kind)
            if k in _TABLE:
                vals[i] = _TABLE[k]
        if n:
            self._hist = prefix + ((kind, start + n),)
        if shp is None:
            return vals[0]
        return vals.reshape(shp)

    def random_sample(self, size=None):
        return self._take("u", size, _REAL.random_sample(self, size))

    random = random_sample

    def rand(self, *shape):
        return self.random_sample(shape if shape else None)

    def standard_normal(self, size=None):
        return self._take("n", size, _REAL.standard_normal(self, size))

    def normal(self, loc=0.0, scale=1.0, size=None):
        return loc + scale * self.standard_normal(size)

    def randint(self, low, high=None, size=None, dtype=int):
        r = self._take("i", size, _REAL.randint(self, low, high, size))
        return int(r) if size is None else r.astype(int)


@contextlib.contextmanager
def scripted(table):
    """table: list of dicts(seed, hist, i, kind, value)"""
    _TABLE.clear()
    for e in table or []:
        _TABLE[_key(e["seed"], e["hist"], e["i"], e["kind"])] = e["value"]
    np.random.RandomState = ScriptedRandomState
    np.random.mtrand.RandomState = ScriptedRandomState
    try:
        yield
    finally:
        np.random.RandomState = _REAL
        np.random.mtrand.RandomState = _REAL
        _TABLE.clear()
